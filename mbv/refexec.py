"""Reference executor for one AccelerationEval.compute(t, dt)  (C02, D3).

A line-by-line transliteration of the order defined by spec/AccelEval.tla
(RunGroups / RunGroup / Iterate / Pass / RunSub / FlatBody / DestBlock) that
calls the REAL Python methods of real pysph Equation objects on the numpy
views of real ParticleArrays.  Everything around the method bodies is fixed
by the specification:

* which hook of which equation is called, for which destination index, for
  which source array / source index, in which order (AccelEval.tla);
* which array every d_* / s_* argument denotes, d_idx, s_idx, t, dt, NBRS,
  N_NBRS, SPH_KERNEL;
* the precomputed pair symbols: table, dependency order and formulas of
  spec/EvalData.tla Part 2/4 (SYMBOLS below is that table in Python; the
  kernel calls go to the *Python* kernel object).

The method bodies themselves are the uninterpreted leaves: "what the Python
method does".  The executor writes its own hook-order log in the event format
of checks/c03_driver.py so that TLC (TraceAccelEval.tla / TraceEvalData.tla)
checks that it follows the specified order, and on probe programs its final
state must equal TLC's Eval exactly (stage-1 binding, checks/C02.py).

Not part of the documented subset (raises NotInSubset, the caller lists the
class as not covered): a precomputed symbol requested by a hook other than
`loop`, s_* arrays in a hook that has no source, `loop` of an equation without
sources, unknown argument names.
"""
import builtins
import math
import types
from collections import OrderedDict
from inspect import getfullargspec

import numpy as np

HOOKS = ('py_initialize', 'initialize', 'initialize_pair', 'loop_all', 'loop',
         'post_loop', 'reduce')


class NotInSubset(Exception):
    pass


# ---------------------------------------------------------------------------
# EvalData.tla Part 2: the symbol table  name -> (deps, arrs)  and Part 4: the
# formulas.  c is the pair context: c.d(name) = d_<name>[d_idx],
# c.s(name) = s_<name>[s_idx], c.kernel the Python kernel object; v holds the
# symbols already computed.
# ---------------------------------------------------------------------------
def _vec(a, b, c):
    r = np.zeros(3)
    r[0] = a
    r[1] = b
    r[2] = c
    return r


def _grad(c, v, h):
    g = np.zeros(3)
    c.kernel.gradient(v['XIJ'], v['RIJ'], h, g)
    return g


SYMBOLS = OrderedDict([
    ('HIJ', ((), ('d_h', 's_h'),
             lambda c, v: 0.5 * (c.d('h') + c.s('h')))),
    ('XIJ', ((), ('d_x', 's_x', 'd_y', 's_y', 'd_z', 's_z'),
             lambda c, v: _vec(c.d('x') - c.s('x'), c.d('y') - c.s('y'),
                               c.d('z') - c.s('z')))),
    ('R2IJ', (('XIJ',), (),
              lambda c, v: (v['XIJ'][0] * v['XIJ'][0] +
                            v['XIJ'][1] * v['XIJ'][1] +
                            v['XIJ'][2] * v['XIJ'][2]))),
    ('RIJ', (('R2IJ',), (), lambda c, v: math.sqrt(v['R2IJ']))),
    ('WIJ', (('XIJ', 'RIJ', 'HIJ'), (),
             lambda c, v: c.kernel.kernel(v['XIJ'], v['RIJ'], v['HIJ']))),
    ('WJ', (('XIJ', 'RIJ'), ('s_h',),
            lambda c, v: c.kernel.kernel(v['XIJ'], v['RIJ'], c.s('h')))),
    ('RHOIJ', ((), ('d_rho', 's_rho'),
               lambda c, v: 0.5 * (c.d('rho') + c.s('rho')))),
    ('WI', (('XIJ', 'RIJ'), ('d_h',),
            lambda c, v: c.kernel.kernel(v['XIJ'], v['RIJ'], c.d('h')))),
    ('RHOIJ1', (('RHOIJ',), (), lambda c, v: 1.0 / v['RHOIJ'])),
    ('DWIJ', (('XIJ', 'RIJ', 'HIJ'), (),
              lambda c, v: _grad(c, v, v['HIJ']))),
    ('DWJ', (('XIJ', 'RIJ'), ('s_h',), lambda c, v: _grad(c, v, c.s('h')))),
    ('DWI', (('XIJ', 'RIJ'), ('d_h',), lambda c, v: _grad(c, v, c.d('h')))),
    ('VIJ', ((), ('d_u', 's_u', 'd_v', 's_v', 'd_w', 's_w'),
             lambda c, v: _vec(c.d('u') - c.s('u'), c.d('v') - c.s('v'),
                               c.d('w') - c.s('w')))),
    ('EPS', (('HIJ',), (), lambda c, v: 0.01 * v['HIJ'] * v['HIJ'])),
    ('WDP', (('XIJ', 'HIJ'), (),
             lambda c, v: c.kernel.kernel(
                 v['XIJ'], c.kernel.get_deltap() * v['HIJ'], v['HIJ']))),
    ('WDASHI', (('RIJ',), ('d_h',),
                lambda c, v: c.kernel.dwdq(v['RIJ'], c.d('h')))),
    ('WDASHJ', (('RIJ',), ('s_h',),
                lambda c, v: c.kernel.dwdq(v['RIJ'], c.s('h')))),
    ('WDASHIJ', (('RIJ', 'HIJ'), (),
                 lambda c, v: c.kernel.dwdq(v['RIJ'], v['HIJ']))),
    ('GHI', (('XIJ', 'RIJ'), ('d_h',),
             lambda c, v: c.kernel.gradient_h(v['XIJ'], v['RIJ'], c.d('h')))),
    ('GHJ', (('XIJ', 'RIJ'), ('s_h',),
             lambda c, v: c.kernel.gradient_h(v['XIJ'], v['RIJ'], c.s('h')))),
    ('GHIJ', (('XIJ', 'RIJ', 'HIJ'), (),
              lambda c, v: c.kernel.gradient_h(v['XIJ'], v['RIJ'],
                                               v['HIJ']))),
])


def needed(req):
    """Needed(req): closure of the requested symbols under `deps`."""
    s = set(r for r in req if r in SYMBOLS)
    while True:
        t = set(s)
        for n in s:
            t.update(SYMBOLS[n][0])
        if t == s:
            return s
        s = t


def sym_order(req):
    """A GoodOrder: the needed symbols level by level (SymLevels)."""
    todo = needed(req)
    done = []
    while todo:
        ready = sorted(n for n in todo
                       if all(m in done for m in SYMBOLS[n][0]))
        done += ready
        todo -= set(ready)
    return done


def sym_arrays(req):
    r = set()
    for n in needed(req):
        r.update(SYMBOLS[n][1])
    return r


# ---------------------------------------------------------------------------
# "All the standard math symbols from math.h are also available": names a
# method may use without importing them.
# ---------------------------------------------------------------------------
LIBM = dict((n, getattr(math, n)) for n in (
    'sqrt', 'exp', 'log', 'log10', 'sin', 'cos', 'tan', 'asin', 'acos',
    'atan', 'atan2', 'sinh', 'cosh', 'tanh', 'pow', 'fabs', 'floor', 'ceil',
    'fmod', 'erf', 'erfc', 'log2', 'expm1', 'log1p', 'cbrt', 'copysign')
    if hasattr(math, n))
LIBM.update(fmax=max, fmin=min, M_PI=math.pi, M_E=math.e,
            M_LOG2E=1.0 / math.log(2.0), M_LOG10E=1.0 / math.log(10.0),
            M_LN2=math.log(2.0), M_LN10=math.log(10.0), M_PI_2=math.pi / 2,
            M_PI_4=math.pi / 4, M_1_PI=1.0 / math.pi, M_2_PI=2.0 / math.pi,
            M_2_SQRTPI=2.0 / math.sqrt(math.pi), M_SQRT2=math.sqrt(2.0),
            M_SQRT1_2=math.sqrt(0.5), INFINITY=math.inf, NAN=math.nan)


def _dsl_names():
    """`declare` is a keyword of the equation language: compyle's pure
    Python implementation (numpy arrays for matrices)."""
    from compyle.api import declare
    return dict(declare=declare)


def poisoned_declare(fill):
    """compyle's declare with every declared matrix filled with `fill`
    instead of zeros.  The generated C leaves declared locals uninitialised
    (`cdef double mat[9]`), so a result that changes with the fill value
    depends on memory no statement has written."""
    from compyle.api import declare

    def _fill(v):
        if isinstance(v, np.ndarray):
            v.fill(fill)
        return v

    def declare_filled(type, num=1):
        r = declare(type, num)
        if isinstance(r, tuple):
            return tuple(_fill(v) for v in r)
        return _fill(r)
    return declare_filled


def bind_math(func, extra=None, override=None):
    """The same function with the math.h names it uses but does not import
    (and the given helper functions) added to its globals; `override`
    replaces names the module defines itself."""
    g = func.__globals__
    code = func.__code__
    add = dict(extra or {})
    add.update(override or {})
    dsl = None
    for n in code.co_names:
        if n not in g and not hasattr(builtins, n):
            if n in LIBM:
                add[n] = LIBM[n]
            elif n == 'declare':
                dsl = dsl or _dsl_names()
                add[n] = dsl[n]
    if not add:
        return func
    ng = dict(g)
    ng.update(add)
    f = types.FunctionType(code, ng, func.__name__, func.__defaults__,
                           func.__closure__)
    f.__kwdefaults__ = func.__kwdefaults__
    return f


class Checked(np.ndarray):
    """View of a property array that refuses the indices C would not refuse:
    negative (numpy wraps around), beyond the end, non-integer."""

    def _ok(self, i):
        if isinstance(i, (int, np.integer)):
            if i < 0 or i >= self.shape[0]:
                raise IndexError('index %d of <%s> out of range 0..%d' % (
                    i, getattr(self, 'pname', '?'), self.shape[0] - 1))
        elif not isinstance(i, slice):
            raise IndexError('index %r of <%s> is not an integer' % (
                i, getattr(self, 'pname', '?')))

    def __getitem__(self, i):
        self._ok(i)
        return np.ndarray.__getitem__(self, i)

    def __setitem__(self, i, v):
        self._ok(i)
        np.ndarray.__setitem__(self, i, v)


class _Pair(object):
    """Pair context of EvalData.tla Part 4."""

    def __init__(self, kernel):
        self.kernel = kernel
        self.darr = self.sarr = None
        self.d_idx = self.s_idx = -1

    def d(self, name):
        return self.darr(name)[self.d_idx]

    def s(self, name):
        return self.sarr(name)[self.s_idx]


class RefExec(object):
    def __init__(self, particle_arrays, groups, kernel, nnps, eq_ids=None,
                 group_ids=None, checked=True, matrix_fill=None):
        from pysph.sph.equation import Group
        self.pas = list(particle_arrays)
        self.index = dict((pa.name, i) for i, pa in enumerate(self.pas))
        groups = list(groups)
        if not any(isinstance(g, Group) for g in groups):
            groups = [Group(equations=groups)]      # group_equations()
        self.groups = groups
        self.kernel = kernel
        self.nnps = nnps
        self.checked = checked
        self.override = {}
        if matrix_fill is not None:
            self.override['declare'] = poisoned_declare(matrix_fill)
        self.eq_ids = eq_ids or {}
        self.group_ids = group_ids or {}
        self.log = []
        self.t = self.dt = 0.0
        self._meth = {}
        self._nbrs = None
        n = 0
        for g in self.groups:
            for e in self.all_eqs(g):
                n += 1
                self.eq_ids.setdefault(id(e), n)
        for i, g in enumerate(self.groups):
            self.group_ids.setdefault(id(g), 1000 + i)
            if g.has_subgroups:
                for j, sg in enumerate(g.equations):
                    self.group_ids.setdefault(id(sg), 1000 * (i + 2) + j)

    # -- log ---------------------------------------------------------------
    def ev(self, k, ident, d=-1, s=-1, a=-1):
        self.log.append((k, ident, d, s, a))

    def events(self):
        return [dict(k=k, id=int(i), d=int(d), s=int(s), a=int(a))
                for k, i, d, s, a in self.log]

    # -- AccelEval.tla: helpers ----------------------------------------------
    @staticmethod
    def all_eqs(g):                                 # AllEqs(g)
        if g.has_subgroups:
            return [e for sg in g.equations for e in sg.equations]
        return list(g.equations)

    @staticmethod
    def dests(eqs):                                 # Dests(eqs)
        r = []
        for e in eqs:
            if e.dest not in r:
                r.append(e.dest)
        return r

    @staticmethod
    def srcs(eqs, d):                               # Srcs(eqs, d)
        r = []
        for e in eqs:
            if e.dest == d:
                for s in (e.sources or []):
                    if s not in r:
                        r.append(s)
        return r

    def drange(self, g, d):                         # DRange(g, arr, d)
        pa = self.pas[self.index[d]]
        if isinstance(g.start_idx, str):            # Lo
            lo = int(self.arr(pa, g.start_idx)[0])
        else:
            lo = int(g.start_idx)
        if isinstance(g.stop_idx, str):             # Hi
            hi = int(self.arr(pa, g.stop_idx)[0])
        elif g.stop_idx is not None:
            hi = int(g.stop_idx)
        else:
            hi = pa.get_number_of_particles(bool(g.real))
        return range(lo, hi)

    # -- arguments -----------------------------------------------------------
    def arr(self, pa, name):
        a = pa.get_carray(name).get_npy_array()
        if self.checked:
            a = a.view(Checked)
            a.pname = name
        return a

    def method(self, eq, hook):
        key = (id(eq), hook)
        m = self._meth.get(key)
        if m is None:
            f = getattr(type(eq), hook)
            helpers = {}
            if hasattr(eq, '_get_helpers_'):
                hs = list(eq._get_helpers_())
                for h in hs:
                    helpers[h.__name__] = h
                for h in hs:                         # helpers may call helpers
                    helpers[h.__name__] = bind_math(h, dict(helpers),
                                                    self.override)
            args = [a for a in getfullargspec(f).args if a != 'self']
            m = (bind_math(f, helpers, self.override), args)
            self._meth[key] = m
        return m

    def py_reduce(self, eq):
        """`reduce` is transpiled into the generated module, whose name
        parallel_reduce_array is the serial-mode dummy_reduce_array (mode
        'serial' of AccelerationEval)."""
        key = (id(eq), 'reduce')
        f = self._meth.get(key)
        if f is None:
            from pysph.base.reduce_array import (dummy_reduce_array,
                                                 serial_reduce_array)
            g = type(eq).reduce
            ng = dict(bind_math(g).__globals__)
            ng.update(parallel_reduce_array=dummy_reduce_array,
                      serial_reduce_array=serial_reduce_array)
            f = types.FunctionType(g.__code__, ng, g.__name__,
                                   g.__defaults__, g.__closure__)
            self._meth[key] = f
        return f

    def call(self, eq, hook, darr, d_idx, sarr=None, s_idx=None, syms=None,
             nbrs=None):
        f, args = self.method(eq, hook)
        vals = []
        for a in args:
            if a == 'd_idx':
                vals.append(d_idx)
            elif a == 's_idx':
                if s_idx is None:
                    raise NotInSubset('%s.%s takes s_idx' % (eq.name, hook))
                vals.append(s_idx)
            elif a.startswith('d_'):
                vals.append(darr(a[2:]))
            elif a.startswith('s_'):
                if sarr is None:
                    raise NotInSubset('%s.%s takes %s but has no source' % (
                        eq.name, hook, a))
                vals.append(sarr(a[2:]))
            elif a == 't':
                vals.append(self.t)
            elif a == 'dt':
                vals.append(self.dt)
            elif a == 'SPH_KERNEL':
                vals.append(self.kernel)
            elif a in ('NBRS', 'N_NBRS'):
                if nbrs is None:
                    raise NotInSubset('%s.%s takes %s' % (eq.name, hook, a))
                vals.append(nbrs if a == 'NBRS' else len(nbrs))
            elif a in SYMBOLS:
                if syms is None:
                    raise NotInSubset(
                        '%s.%s takes the precomputed symbol %s' % (
                            eq.name, hook, a))
                vals.append(syms[a])
            else:
                raise NotInSubset('%s.%s: unknown argument %s' % (
                    eq.name, hook, a))
        return f(eq, *vals)

    def getter(self, pa):
        cache = {}

        def get(name):
            a = cache.get(name)
            if a is None:
                a = cache[name] = self.arr(pa, name)
            return a
        return get

    def neighbours(self, s_index, d_index, d_idx):
        from cyarray.carray import UIntArray
        if self._nbrs is None:
            self._nbrs = UIntArray()
        self.nnps.get_nearest_particles(s_index, d_index, d_idx, self._nbrs)
        return self._nbrs.get_npy_array()[:self._nbrs.length].copy()

    # -- AccelEval.tla: DestBlock --------------------------------------------
    def dest_block(self, g, d):
        E = [e for e in g.equations if e.dest == d]
        R = self.drange(g, d)
        dst = self.pas[self.index[d]]
        d_index = self.index[d]
        darr = self.getter(dst)                       # destination pointers

        def per(h):
            return [e for e in E if hasattr(e, h)]
        for e in per('py_initialize'):                # pyinit
            self.ev('py_initialize', self.eq_ids[id(e)])
            e.py_initialize(dst, self.t, self.dt)
        darr = self.getter(dst)
        ini = per('initialize')                       # init
        if ini:
            for di in R:
                for e in ini:
                    self.ev('initialize', self.eq_ids[id(e)], di)
                    self.call(e, 'initialize', darr, di)
        for e in E:
            if e.sources is None and hasattr(e, 'loop'):
                raise NotInSubset('%s has a loop but no sources' % e.name)
        for s in self.srcs(g.equations, d):           # pairs: srcblock(s)
            G = [e for e in E if e.sources and s in e.sources]
            s_index = self.index[s]
            sarr = self.getter(self.pas[s_index])     # source pointers
            ip = [e for e in G if hasattr(e, 'initialize_pair')]
            la = [e for e in G if hasattr(e, 'loop_all')]
            lp = [e for e in G if hasattr(e, 'loop')]
            if ip:                                    # b1
                for di in R:
                    for e in ip:
                        self.ev('initialize_pair', self.eq_ids[id(e)], di, -1,
                                s_index)
                        self.call(e, 'initialize_pair', darr, di, sarr)
            if la or lp:                              # b2
                req = set()
                for e in lp:
                    req.update(self.method(e, 'loop')[1])
                order = sym_order(req)
                pc = _Pair(self.kernel)
                pc.darr, pc.sarr = darr, sarr
                for di in R:
                    N = self.neighbours(s_index, d_index, di)
                    for e in la:
                        self.ev('loop_all', self.eq_ids[id(e)], di, -1,
                                s_index)
                        self.call(e, 'loop_all', darr, di, sarr, None, None,
                                  N)
                    if not lp:
                        continue
                    for sj in N:
                        sj = int(sj)
                        pc.d_idx, pc.s_idx = di, sj
                        v = {}
                        for n in order:               # SymOrder
                            v[n] = SYMBOLS[n][2](pc, v)
                        for e in lp:
                            self.ev('loop', self.eq_ids[id(e)], di, sj,
                                    s_index)
                            self.call(e, 'loop', darr, di, sarr, sj, v, N)
        post = per('post_loop')                       # post
        if post:
            for di in R:
                for e in post:
                    self.ev('post_loop', self.eq_ids[id(e)], di)
                    self.call(e, 'post_loop', darr, di)
        for e in per('reduce'):                       # red
            self.ev('reduce', self.eq_ids[id(e)])
            self.py_reduce(e)(e, dst, self.t, self.dt)

    # -- FlatBody / RunSub / Pass / Iterate / RunGroup / Run -----------------
    def update(self):
        self.ev('update_domain', -1)
        self.nnps.update_domain()
        self.ev('nnps_update', -1)
        self.nnps.update()

    def flat_body(self, g):
        gid = self.group_ids[id(g)]
        if g.pre:
            self.ev('pre', gid)
            g.pre()
        for d in self.dests(g.equations):
            self.dest_block(g, d)
        if g.update_nnps:
            self.update()
        if g.post:
            self.ev('post', gid)
            g.post()

    def run_sub(self, sg):
        if sg.condition is not None:
            self.ev('condition', self.group_ids[id(sg)])
            if not sg.condition(self.t, self.dt):
                return
        self.flat_body(sg)

    def pass_(self, g):
        if not g.has_subgroups:
            return self.flat_body(g)
        gid = self.group_ids[id(g)]
        if g.pre:
            self.ev('pre', gid)
            g.pre()
        for sg in g.equations:
            self.run_sub(sg)
        if g.update_nnps:
            self.update()
        if g.post:
            self.ev('post', gid)
            g.post()

    def iterate(self, g):
        count = 1
        while True:
            self.pass_(g)
            if count >= g.min_iterations:
                # every equation is asked (no short-circuit)
                conv = [e.converged() > 0 for e in self.all_eqs(g)]
                if all(conv) or count == g.max_iterations:
                    return
            count += 1

    def run_group(self, g):
        if g.condition is not None:
            self.ev('condition', self.group_ids[id(g)])
            if not g.condition(self.t, self.dt):
                return
        if g.iterate:
            self.iterate(g)
        else:
            self.pass_(g)

    def compute(self, t, dt):
        self.t, self.dt = t, dt
        with np.errstate(all='ignore'):
            for g in self.groups:
                self.run_group(g)
