"""Thin runner around TLC: runs a module+cfg, parses statistics, violations,
PrintT output and per-action coverage."""
import json
import os
import re
import shutil
import subprocess
import tempfile
import time

JAR = '/opt/veriftools/tla/tla2tools.jar'
SPEC_DIR = os.path.join(os.path.dirname(os.path.dirname(
    os.path.abspath(__file__))), 'spec')


class TLCError(Exception):
    pass


def _classpath():
    cp = [JAR]
    d = os.path.dirname(JAR)
    for f in os.listdir(d):
        if f.endswith('.jar') and f != os.path.basename(JAR):
            cp.append(os.path.join(d, f))
    return ':'.join(cp)


def _unescape(s):
    out = []
    i = 0
    while i < len(s):
        c = s[i]
        if c == '\\' and i + 1 < len(s):
            n = s[i + 1]
            out.append({'n': '\n', 't': '\t', '"': '"', '\\': '\\'}.get(n, n))
            i += 2
        else:
            out.append(c)
            i += 1
    return ''.join(out)


def parse_prints(out, tag):
    """Return JSON payloads printed as PrintT(<<tag, ToJson(x)>>)."""
    res = []
    pat = re.compile(r'<<"%s", "(.*)">>\s*$' % re.escape(tag))
    for line in out.splitlines():
        m = pat.match(line.strip())
        if m:
            try:
                res.append(json.loads(_unescape(m.group(1))))
            except ValueError:
                raise TLCError('unparsable %s line: %s' % (tag, line[:200]))
    return res


def run(module, cfg, workers=16, simulate=None, depth=None, seed=None,
        env_extra=None, coverage=False, timeout=3600, scratch=None,
        deadlock=None, cont=False, extra=(), jvm=(), dfs=False):
    """Run TLC on spec/<module>.tla with spec/cfg/<cfg>.

    Returns dict(rc, ok, generated, distinct, depth, violation, out, wall,
    coverage)."""
    scratch = scratch or os.environ.get('VERIF_SCRATCH') or \
        '/var/cache/pysph-verif/scratch'
    os.makedirs(scratch, exist_ok=True)
    meta = tempfile.mkdtemp(prefix='tlc-', dir=scratch)
    cfgp = cfg if os.path.isabs(cfg) else os.path.join(SPEC_DIR, 'cfg', cfg)
    cmd = ['java', '-XX:+UseParallelGC', '-Xmx8g', '-Xss256m',
           '-DTLA-Library=' + SPEC_DIR, '-Djava.io.tmpdir=' + meta]
    if dfs:
        cmd.append('-Dtlc2.tool.queue.IStateQueue=StateDeque')
    cmd += list(jvm)
    cmd += ['-cp', _classpath(), 'tlc2.TLC', '-workers', str(workers),
            '-metadir', meta, '-noGenerateSpecTE', '-config', cfgp]
    if simulate is not None:
        s = '-simulate'
        cmd += [s, simulate] if simulate else [s]
    if depth is not None:
        cmd += ['-depth', str(depth)]
    if seed is not None:
        cmd += ['-seed', str(seed)]
    if coverage:
        cmd += ['-coverage', '1']
    if deadlock is False:
        cmd += ['-deadlock']
    if cont:
        cmd += ['-continue']
    cmd += list(extra)
    cwd = SPEC_DIR
    if os.path.isabs(module):
        cwd = os.path.dirname(module)
        module = os.path.basename(module)
    cmd.append(module if module.endswith('.tla') else module + '.tla')
    env = dict(os.environ)
    env.update(env_extra or {})
    t0 = time.time()
    try:
        p = subprocess.run(cmd, cwd=cwd, env=env, capture_output=True,
                           text=True, timeout=timeout)
    except subprocess.TimeoutExpired as ex:
        shutil.rmtree(meta, ignore_errors=True)
        o = ex.stdout or ''
        if isinstance(o, bytes):
            o = o.decode('utf8', 'replace')
        return dict(rc=-1, ok=False, timeout=True, out=o,
                    generated=0, distinct=0, violation='timeout',
                    wall=time.time() - t0, coverage={})
    finally:
        shutil.rmtree(meta, ignore_errors=True)
    out = p.stdout + p.stderr
    res = dict(rc=p.returncode, out=out, wall=time.time() - t0,
               generated=0, distinct=0, depth=0, violation=None, coverage={})
    m = re.findall(r'(\d+) states generated, (\d+) distinct states found',
                   out)
    if m:
        res['generated'], res['distinct'] = map(int, m[-1])
    m = re.search(r'depth of the complete state graph search is (\d+)', out)
    if m:
        res['depth'] = int(m.group(1))
    m = re.search(r'Invariant (\S+) is violated', out)
    if m:
        res['violation'] = m.group(1)
    elif 'Deadlock reached' in out:
        res['violation'] = 'Deadlock'
    elif 'Temporal properties were violated' in out:
        res['violation'] = 'Temporal'
    elif re.search(r'Action property (\S+) is violated', out):
        res['violation'] = re.search(
            r'Action property (\S+) is violated', out).group(1)
    elif 'The postcondition' in out and 'violated' in out:
        res['violation'] = 'Postcondition'
    elif 'Assumption' in out and 'is false' in out:
        res['violation'] = 'Assumption'
    if coverage:
        cov = {}
        for mm in re.finditer(
                r'<(\w+) line (\d+), col \d+ to line \d+, col \d+ of module '
                r'(\w+)>: (\d+):(\d+)', out):
            cov[mm.group(1)] = cov.get(mm.group(1), 0) + int(mm.group(5))
        res['coverage'] = cov
    if res['violation'] is None and re.search(r'^Error: ', out, re.M):
        res['error'] = True
    res['ok'] = (p.returncode == 0 and res['violation'] is None
                 and not res.get('error'))
    if p.returncode != 0 and res['violation'] is None:
        # parse / semantic / runtime error: machinery failure
        res['error'] = True
    return res


def counterexample(out):
    """Extract the states of the first error trace as raw text blocks."""
    states = []
    cur = None
    for line in out.splitlines():
        m = re.match(r'State (\d+): (.*)', line)
        if m:
            if cur is not None:
                states.append(cur)
            cur = {'n': int(m.group(1)), 'action': m.group(2), 'text': ''}
        elif cur is not None:
            if line.strip() == '' and cur['text']:
                states.append(cur)
                cur = None
            else:
                cur['text'] += line + '\n'
    if cur is not None:
        states.append(cur)
    return states


def validate_batches(module, cfg, files, parallel=8, tag='VERDICT',
                     timeout=3600, dfs=False, env_extra=None):
    """Run one TLC (workers=1) per trace batch file, `parallel` at a time.
    Returns (verdicts, stats) where verdicts is the list of JSON objects
    printed by the trace module's POSTCONDITION."""
    from concurrent.futures import ThreadPoolExecutor

    def one(f):
        e = dict(env_extra or {})
        e['TRACE_FILE'] = f
        r = run(module, cfg, workers=1, env_extra=e, timeout=timeout,
                dfs=dfs, jvm=('-Xmx3g',))
        if r.get('error') or r.get('timeout') or (
                r['rc'] != 0 and r['violation'] is None):
            raise TLCError('trace validation failed on %s:\n%s' % (
                f, r['out'][-3000:]))
        return parse_prints(r['out'], tag), r

    verdicts = []
    gen = dist = 0
    with ThreadPoolExecutor(max_workers=parallel) as ex:
        for v, r in ex.map(one, files):
            verdicts.extend(v)
            gen += r['generated']
            dist += r['distinct']
    return verdicts, dict(generated=gen, distinct=dist)
