"""Deterministic scheduler for real Python threads.

Provides replacements for threading.Lock / RLock / Condition / Thread /
current_thread.  Every synchronisation primitive executed by a controlled
thread is a *yield point*: the thread parks and the scheduler (running in
the controlling thread) decides which enabled thread performs its pending
primitive next.  Exactly one controlled thread runs at any time, so a
schedule is just the sequence of choices and can be replayed and enumerated.
"""
import threading as _real
import types


class SchedAbort(BaseException):
    pass


class Op(object):
    __slots__ = ('kind', 'obj', 'extra')

    def __init__(self, kind, obj=None, extra=None):
        self.kind, self.obj, self.extra = kind, obj, extra


class TRec(object):
    def __init__(self, sched, name, ident, fn):
        self.sched, self.name, self.ident, self.fn = sched, name, ident, fn
        self.sem = _real.Semaphore(0)
        self.pending = Op('start')
        self.done = False
        self.error = None
        self.real = _real.Thread(target=self._body, daemon=True)

    def _body(self):
        s = self.sched
        try:
            self.sem.acquire()
            if s.aborting:
                raise SchedAbort()
            s._tls.rec = self
            self.fn()
        except SchedAbort:
            pass
        except BaseException as ex:   # noqa
            self.error = ex
        finally:
            self.done = True
            self.pending = None
            s._main.release()


class Scheduler(object):
    """chooser(enabled_recs, sched) -> rec; enabled sorted by thread order."""

    def __init__(self, chooser):
        self.chooser = chooser
        self.threads = []
        self.log = []           # events: dicts
        self.names = {}         # id(obj) -> name
        self._tls = _real.local()
        self._main = _real.Semaphore(0)
        self.aborting = False
        self.nobj = 0
        self.last = None
        self.steps = 0
        self.new_lock_hook = None

    # -- naming ------------------------------------------------------------
    def name_of(self, obj):
        return self.names.get(id(obj), getattr(obj, 'auto', '?'))

    def set_name(self, obj, name):
        self.names[id(obj)] = name

    def new_auto(self, prefix):
        self.nobj += 1
        return '%s#%d' % (prefix, self.nobj)

    # -- threads -----------------------------------------------------------
    def spawn(self, name, fn, ident=None):
        rec = TRec(self, name, ident if ident is not None
                   else len(self.threads), fn)
        self.threads.append(rec)
        rec.real.start()
        return rec

    def current(self):
        return self._tls.rec

    def note(self, **ev):
        """Log a harness-level event from the running thread (no yield)."""
        self.log.append(ev)

    # -- yield point -------------------------------------------------------
    def yield_op(self, op):
        rec = self._tls.rec
        if self.aborting:
            raise SchedAbort()
        rec.pending = op
        self._main.release()
        rec.sem.acquire()
        if self.aborting:
            raise SchedAbort()
        rec.pending = None
        # the name is resolved now and no reference is kept: the code under
        # test may rely on objects being freed (ids being reused)
        self.log.append(dict(ev='prim', th=rec.name, kind=op.kind,
                             obj=self.name_of(op.obj)
                             if op.obj is not None else ''))

    def enabled(self, rec):
        op = rec.pending
        if op is None or rec.done:
            return False
        k = op.kind
        if k == 'acquire':
            return op.obj._can_acquire(rec)
        if k == 'cond_wake':
            c = op.obj
            return rec in c.woken and c.lock._can_acquire(rec)
        if k == 'join':
            return op.obj.done
        return True

    def run(self, max_steps=2000):
        """Run until no thread is enabled.  Returns 'done', 'deadlock' or
        'limit'."""
        try:
            while True:
                live = [t for t in self.threads if not t.done]
                if not live:
                    return 'done'
                en = [t for t in live if self.enabled(t)]
                if not en:
                    return 'deadlock'
                if self.steps >= max_steps:
                    return 'limit'
                t = self.chooser(en, self)
                self.last = t
                self.steps += 1
                t.sem.release()
                self._main.acquire()
        finally:
            self.blocked = [
                dict(th=t.name, kind=t.pending.kind,
                     obj=self.name_of(t.pending.obj)
                     if t.pending.obj is not None else '')
                for t in self.threads if not t.done and t.pending is not None]
            self.errors = [(t.name, t.error) for t in self.threads if t.error]
            self.abort()

    def abort(self):
        self.aborting = True
        for t in self.threads:
            if not t.done:
                t.sem.release()
        for t in self.threads:
            t.real.join(2.0)

    # -- the fake threading module ------------------------------------------
    def module(self):
        s = self
        m = types.ModuleType('threading')

        class Lock(object):
            def __init__(self):
                self.owner = None
                self.auto = s.new_auto('lock')
                s.names.pop(id(self), None)     # the id may be a reused one
                if s.new_lock_hook is not None:
                    s.new_lock_hook(self)

            def _can_acquire(self, rec):
                return self.owner is None

            def acquire(self, blocking=True, timeout=-1):
                s.yield_op(Op('acquire', self))
                self.owner = s.current()
                return True

            def release(self):
                s.yield_op(Op('release', self))
                self.owner = None

            def locked(self):
                return self.owner is not None

            def __enter__(self):
                self.acquire()
                return self

            def __exit__(self, *a):
                if s.aborting:
                    return False
                self.release()
                return False

        class RLock(Lock):
            def __init__(self):
                Lock.__init__(self)
                self.count = 0

            def _can_acquire(self, rec):
                return self.owner is None or self.owner is rec

            def acquire(self, blocking=True, timeout=-1):
                s.yield_op(Op('acquire', self))
                self.owner = s.current()
                self.count += 1
                return True

            def release(self):
                s.yield_op(Op('release', self))
                self.count -= 1
                if self.count == 0:
                    self.owner = None

        class Condition(object):
            def __init__(self, lock=None):
                self.lock = lock if lock is not None else RLock()
                self.waiters = []
                self.woken = []
                self.auto = self.lock.auto

            def acquire(self, *a, **k):
                s.yield_op(Op('acquire', self))
                self.lock.owner = s.current()
                if isinstance(self.lock, RLock):
                    self.lock.count += 1
                return True

            def _can_acquire(self, rec):
                return self.lock._can_acquire(rec)

            def release(self):
                s.yield_op(Op('release', self))
                if isinstance(self.lock, RLock):
                    self.lock.count -= 1
                    if self.lock.count == 0:
                        self.lock.owner = None
                else:
                    self.lock.owner = None

            def __enter__(self):
                self.acquire()
                return self

            def __exit__(self, *a):
                if s.aborting:
                    return False
                self.release()
                return False

            def wait(self, timeout=None):
                me = s.current()
                if self.lock.owner is not me:
                    raise RuntimeError('cannot wait on un-acquired lock')
                s.yield_op(Op('cond_wait', self))
                saved = getattr(self.lock, 'count', 1)
                if isinstance(self.lock, RLock):
                    self.lock.count = 0
                self.lock.owner = None
                self.waiters.append(me)
                s.yield_op(Op('cond_wake', self))
                self.woken.remove(me)
                self.lock.owner = me
                if isinstance(self.lock, RLock):
                    self.lock.count = saved
                return True

            def notify(self, n=1):
                if self.lock.owner is not s.current():
                    raise RuntimeError('cannot notify on un-acquired lock')
                s.yield_op(Op('notify', self))
                for i in range(n):
                    if self.waiters:
                        self.woken.append(self.waiters.pop(0))

            def notify_all(self):
                if self.lock.owner is not s.current():
                    raise RuntimeError('cannot notify on un-acquired lock')
                s.yield_op(Op('notify_all', self))
                self.woken.extend(self.waiters)
                del self.waiters[:]

            notifyAll = notify_all

        class Thread(object):
            def __init__(self, group=None, target=None, name=None, args=(),
                         kwargs=None, daemon=None):
                self._target, self._args = target, args
                self._kwargs = kwargs or {}
                self.daemon = daemon
                self.name = name
                self.rec = None

            def start(self):
                nm = self.name or 'T%d' % len(s.threads)
                self.rec = s.spawn(nm, lambda: self._target(
                    *self._args, **self._kwargs))

            @property
            def ident(self):
                return self.rec.ident if self.rec else None

            def join(self, timeout=None):
                s.yield_op(Op('join', self.rec))

            def is_alive(self):
                return self.rec is not None and not self.rec.done

        class _Cur(object):
            @property
            def ident(self):
                return s.current().ident

            @property
            def name(self):
                return s.current().name

        m.Lock, m.RLock, m.Condition, m.Thread = Lock, RLock, Condition, Thread
        m.current_thread = lambda: _Cur()
        m.LockType = Lock
        m.Event = None
        return m
