#!/bin/sh
# usage: seedrun.sh PROP WORKTREE SRCBASE [--rebuild] : confirm each mutant m1..m3
# and run the property's quick check against the patched worktree.
PROP=$1; WT=$2; SRC=$3; RB=$4
cd /verif
for m in m1 m2 m3; do
  [ -d $SRC/$m ] || continue
  timeout 3000 /venv/bin/python mbv/seedtool.py confirm $PROP $PROP-${SEED_ROUND}$m $SRC/$m $WT $RB
  git -C $WT apply $SRC/$m/patch.diff || continue
  VERIF_REPO=$WT VERIF_NO_EVIDENCE=1 timeout 3000 ./check $PROP --tier quick > /tmp/seedrun-$PROP-${SEED_ROUND}$m.log 2>&1
  echo "CHECK $PROP ${SEED_ROUND}$m rc=$? $(grep -c VIOLATION /tmp/seedrun-$PROP-${SEED_ROUND}$m.log) violations; $(tail -1 /tmp/seedrun-$PROP-${SEED_ROUND}$m.log | cut -c1-120)"
  git -C $WT checkout -- .
done
