"""Confirms a seeded change delivered by a fault-injection sub-agent and
files it under /verif/seeded/<name>/.

usage: seedtool.py confirm PROP NAME SRC_DIR WORKTREE [--rebuild]
 - the patch applies to the unchanged worktree
 - the pinned 55 baseline tests pass with the patch (clean export, no
   extensions)
 - the demonstration fails with the patch and passes without it
"""
import json
import os
import shutil
import subprocess
import sys
import tempfile

PY = '/venv/bin/python'


def sh(cmd, cwd=None, env=None, timeout=1800):
    p = subprocess.run(cmd, cwd=cwd, env=env, capture_output=True, text=True,
                       timeout=timeout, shell=isinstance(cmd, str))
    return p.returncode, (p.stdout + p.stderr)


def build(wt):
    rc, out = sh([PY, 'setup.py', 'build_ext', '--inplace', '-j', '8'], cwd=wt,
                 timeout=3000)
    return rc == 0, out[-800:]


def demo(wt, demo_py, home):
    env = dict(os.environ, PYTHONPATH=wt, OMP_NUM_THREADS='1', HOME=home)
    try:
        rc, out = sh([PY, demo_py], cwd=wt, env=env, timeout=900)
    except subprocess.TimeoutExpired:
        return 124, 'timeout'
    return rc, out[-600:]


def main():
    prop, name, src, wt = sys.argv[2:6]
    rebuild = '--rebuild' in sys.argv
    patch = os.path.join(src, 'patch.diff')
    demo_py = os.path.join(src, 'demo.py')
    home = tempfile.mkdtemp(prefix='seedhome-', dir='/tmp')
    res = {}
    rc, out = sh(['git', '-C', wt, 'apply', '--check', patch])
    res['applies'] = rc == 0
    # baseline tests in a clean export with the patch
    clean = tempfile.mkdtemp(prefix='seedclean-', dir='/tmp')
    sh('git -C %s archive HEAD | tar -x -C %s' % (wt, clean))
    sh(['git', 'apply', patch], cwd=clean)
    rc, out = sh([PY, '-m', 'pytest', '-q', '-p', 'no:cacheprovider',
                  '--timeout=900', '--continue-on-collection-errors'],
                 cwd=clean, timeout=1800)
    res['baseline'] = out.strip().splitlines()[-1] if out.strip() else ''
    res['baseline_ok'] = '55 passed' in res['baseline']
    shutil.rmtree(clean, ignore_errors=True)
    # demo without the change
    if rebuild:
        ok, o = build(wt)
        res['build_clean'] = ok
    rc0, o0 = demo(wt, demo_py, home)
    res['demo_without'] = rc0
    sh(['git', '-C', wt, 'apply', patch])
    try:
        if rebuild:
            ok, o = build(wt)
            res['build_patched'] = ok
        rc1, o1 = demo(wt, demo_py, home)
        res['demo_with'] = rc1
        res['demo_with_output'] = o1[-300:]
    finally:
        sh(['git', '-C', wt, 'checkout', '--', '.'])
        if rebuild:
            build(wt)
    shutil.rmtree(home, ignore_errors=True)
    res['confirmed'] = bool(res['applies'] and res['baseline_ok'] and
                            rc0 == 0 and res.get('demo_with', 0) != 0 and
                            res.get('build_patched', True))
    dst = os.path.join('/verif/seeded', name)
    os.makedirs(dst, exist_ok=True)
    shutil.copy(patch, os.path.join(dst, 'patch.diff'))
    shutil.copy(demo_py, os.path.join(dst, 'demo.py'))
    notes = os.path.join(src, 'notes.md')
    if os.path.exists(notes):
        shutil.copy(notes, os.path.join(dst, 'notes.md'))
    meta = dict(property=prop, name=name, confirmation=res,
                needs=open(notes).read()[:1500] if os.path.exists(notes) else '',
                ran='git apply --check; pinned pytest in a clean export with '
                    'the patch; demo.py with and without the patch in a '
                    'scratch worktree' + (' (extensions rebuilt)' if rebuild
                                          else ''))
    json.dump(meta, open(os.path.join(dst, 'meta.json'), 'w'), indent=1)
    print(name, json.dumps({k: v for k, v in res.items()
                            if k != 'demo_with_output'}))


if __name__ == '__main__':
    main()
