"""Generates MANIFEST.json from the table below (single source of truth)."""
import json
import os

VERIF = os.path.dirname(os.path.dirname(os.path.abspath(__file__)))

CHECKS = {
 'C10': dict(
  cat='model_checking', design_ref='DESIGN.md section 5 (C10), 4.6',
  technique='TLA+ spec Solver.tla checked by TLC (all inputs of a small instance, M => P, termination); logs of the real Solver.solve() validated by TLC against SolverProps/TraceSolver.tla',
  text='TLC exhaustively checks that the mechanism model of solve() implies the property layer for every input of a small instance; the real solver is run on those same inputs (exact ticks) and on random non-commensurate inputs and every recorded log is evaluated by TLC against the property layer (verdict) and against the mechanism model (drift).',
  note='Trusts: the fake integrator/driver faithfully records step/dump/callback events; tick = 2^-4 makes float arithmetic exact; quantised traces use slack 2 units of tf*2^-28. Bounds: tf <= 8 ticks, dt <= 4, <= 2 output times, n_damp 0..2 for exact runs.'),
 'C06': dict(
  cat='model_checking', design_ref='DESIGN.md section 5 (C06), 4.1',
  technique='TLA+ record-list spec ParticleArray.tla; TLC checks the permutation mechanisms against it (ParticleArrayMC.tla) and validates logged histories of real ParticleArray objects step by step (TraceParticleArray.tla)',
  text='Every public mutator is a TLA+ relation over the projected array state (order left open where the API does not promise one). TLC exhaustively checks that the swap-removal and align algorithms satisfy those relations on a small instance, and validates thousands of random API histories recorded from real ParticleArray objects: each call with its arguments and the full projection after it must satisfy the relation and the rectangularity / alignment / metadata invariants.',
  note='Trusts the projection function (carray lengths, values, stride/default dictionaries read through the public attributes). Values are small integers; resize() growth is filled by the harness. Histories up to 80 calls on two arrays plus a result array.'),
 'C18': dict(
  cat='model_checking', design_ref='DESIGN.md section 5 (C18), 4.8',
  technique='PlusCal/TLA+ spec Controller.tla model-checked by TLC (all interleavings, safety + deadlock + liveness); schedules of the real threads enumerated by a deterministic scheduler and every execution validated by TLC against ControllerProps.tla (verdict) and against the PlusCal model (TraceControllerM.tla, drift)',
  text='TLC explores every interleaving of the solver thread with 1-2 interface threads at synchronisation-primitive granularity for a family of interface programs and checks ExactlyOnce, PauseHolds, WaitNotEarly, deadlock freedom and termination modulo the recorded findings. The real CommandManager is run on real threads under a scheduler that owns every Lock/Condition operation; schedules are enumerated (bounded deviations from a fair default, plus random prefixes) and each execution log is decided by TLC against the property layer; the primitive-level logs are also checked to be behaviours of the PlusCal model.',
  note='Trusts the scheduler-controlled re-implementation of Lock/RLock/Condition (CPython semantics, FIFO notify). Bounds: 1-2 interface threads, programs of <= 4-5 calls, <= 2-3 deviations per schedule. Known findings are matched by signature over the final blocked configuration and the log.'),
 'C01': dict(
  cat='model_checking', design_ref='DESIGN.md section 5 (C01), 4.3',
  technique='TLA+ spec NNPS.tla (Must/May contract; cell binning + stencil mechanism model-checked by TLC for all placements of small instances in 1-3 D); scenarios replayed into all 12 real NNPS classes and every returned neighbour list decided by TLC (TraceNNPS.tla)',
  text='TLC checks exhaustively, for every placement of a small instance including points on cell faces, coincident points and empty arrays, that binning with cell = radius_scale*hmax plus the 3^d stencil and the gather-or-scatter test returns exactly the contract set, with snapshot semantics over move/h-change/update histories. The same placements, random lattice clouds (1-3 D, several arrays, far origins, h over orders of magnitude) and update histories are replayed into every real NNPS class x knobs x cache modes x thread counts; TLC evaluates Must <= nbrs <= May, duplicates and index validity for every (dst, src, i) on the projected integer lattice.',
  note='Exact arithmetic: lattice unit is a power of two. Crashes of the compiled code are isolated per scenario in forked children and count as disagreements. Known findings (Z-order family, octree with coincident points) are matched by signature computed in TLA+.'),
 'C11': dict(
  cat='model_checking', design_ref='DESIGN.md section 5 (C11), 4.7',
  technique='TLA+ spec Output.tla over ParticleArray.tla (what a dump stores, round-trip clauses); mechanism model OutputMC.tla model-checked by TLC; real dump/load round trips validated by TLC (TraceOutput.tla)',
  text='The round trip is specified clause by clause (names, properties, types, strides, defaults, constants, output list, number of particles, stored values, real particles, solver data). TLC checks a mechanism model of dump (meta-data separate from stored columns) and load (property-by-property rebuild + align) against it on a small universe. Thousands of generated array lists x {npz, hdf5, v1 npz} x compress x detailed x only_real are dumped and loaded by the real code and each before/after projection is decided by TLC.',
  note='Values are small integers exactly representable in every C type. Array order in the returned dictionary is not promised and not demanded. A constant in the output list is outside documented use.'),
 'C13': dict(
  cat='exploration', design_ref='DESIGN.md section 5 (C13), 4.10',
  technique='TLA+ spec LinAlg.tla (exact rational/fraction-free determinant, adjugate, Cramer, characteristic polynomial) sanity-checked by TLC on all small matrices (LinAlgMC.tla); recorded results of the real helpers decided by TLC in scaled integers (TraceLinAlg.tla)',
  text='Exhaustive (all n<=2 systems with entries -2..2; all 3x3 in thorough) and family-based enumeration (zero and tiny leading pivots, permuted diagonally dominant, singular, n=4..6 with integer solutions, exact power-of-two scalings) of inputs for gj_solve (Python and transpiled), the matrix helpers and the linalg3 eigen routines; every recorded result is judged by TLC against exact arithmetic: Det # 0 => returns 0 with a small residual, non-zero return only for singular input, exact products/layouts, eigen decompositions orthonormal with the right characteristic polynomial.',
  note='Floating-point results are recorded as scaled integers (2^-20 / 2^-26 resolution); TLC is an exact oracle for the algebra, the tolerances are stated in LinAlg.tla. Level exploration: exhaustive over the stated finite families only.'),
 'C19': dict(
  cat='model_checking', design_ref='DESIGN.md section 5 (C19), 4.5',
  technique='TLA+ spec TimeStep.tla (documented minimum as exact rationals) with the decision structure of compute_time_step as a state machine model-checked by TLC (TimeStepMC.tla); every case of the TLC universe and random cases replayed into the real Integrator.compute_time_step / Solver._compute_timestep and decided by TLC (TraceTimeStep.tla)',
  text='The documented result is specified in exact rational arithmetic (inputs chosen so the square roots are exact). TLC explores the complete case analysis of a small universe (arrays empty or not, each criterion present or not, zero or positive values, h below/above 1, fixed_h, ghosts) and prints every case; each one becomes one call of the real code following the solver protocol, and TLC compares the recorded value with the specification.',
  note='Both readings the statement leaves open (hmin / maxima over real particles or over all particles) are accepted. Floats are compared to 1 part in 2^20.'),
 'C17': dict(
  cat='model_checking', design_ref='DESIGN.md section 5 (C17), 4.3',
  technique='TLA+ spec NNPS.tla (IsPermutation, SameBag of whole particle records, RealsFirst, query contract after the next update); recorded re-orderings of the real NNPS classes decided by TLC (TraceNNPS.tla)',
  text='For every class implementing get_spatially_ordered_indices, scenarios (small exhaustive placements, random clouds, periodic domains that create ghost-tagged rows, strided and typed extra properties) are replayed: the returned index list, the arrays immediately after spatially_order_particles and the neighbour lists after the following update are recorded and TLC decides permutation-ness, preservation of the multiset of whole particle records, Local rows first with the right num_real_particles, and the neighbour contract again.',
  note='Shares NNPS.tla and the driver with C01; failures of the plain neighbour query are attributed to C01. Design run: NNPS.hist.cfg (snapshot semantics).'),
 'C07': dict(
  cat='model_checking', design_ref='DESIGN.md section 5 (C07), 4.2',
  technique='TLA+ spec Domain.tla: declarative image set (per-axis periodic shifts and reflections with layer conditions) vs the per-axis pass mechanism, model-checked by TLC on all inputs of small 1-D/2-D instances; updates of the real DomainManager decided by TLC (TraceDomain.tla)',
  text='The ghosts of a domain update are specified declaratively (every combination of per-axis periodic shifts / reflections whose layer conditions hold, as a multiset; ties at exactly the layer distance may go either way) together with wrapping, tagging, exact copies of the copied properties, reversed normal velocity for mirrors and idempotence of a second update. TLC checks that the implementation-shaped per-axis passes produce exactly that on every input of small instances. Thousands of lattice scenarios (1-3 D, periodic / mirror / mixed axes, n_layers 1-3, 1-2 arrays, copied-property subsets, move-then-update histories) are run through the real DomainManager and every round is decided by TLC.',
  note='Lattice unit is a power of two so all comparisons are exact; layer = n_layers*radius_scale*hmax smaller than the box; an axis is periodic or mirrored, not both.'),
 'C03': dict(
  cat='model_checking', design_ref='DESIGN.md section 5 (C03), 4.4',
  technique='TLA+ spec AccelEval.tla: executor of the group tree shaped like the generated code, model-checked by TLC over a small program grammar (AccelEvalMC.tla); hook-invocation logs of compiled logging-probe equations decided by TLC (TraceAccelEval.tla)',
  text='The control structure of compute() (group order, destinations in order of first appearance, per-destination phase order, equations in user order, index ranges from start/stop/real, every source particle contributing, iteration rule with min/max and convergence, conditions, pre/post, update_nnps, sub-groups) is an executable TLA+ definition. TLC checks its documented properties on every program of a small grammar. Random group trees are rendered as logging probe equations in pysph\'s own DSL, compiled by the real generator and run on many data sets and condition/convergence scripts; TLC decides that each recorded log equals the documented one up to the order of neighbours and that converged() was asked as documented.',
  note='Runs without OpenMP (total order observable). Probe equations log through constants shared by all arrays. Programs with min_iterations > max_iterations or max_iterations < 1 are not generated. 1-D lattice without ties at the cut-off.'),
 'C04': dict(
  cat='model_checking', design_ref='DESIGN.md section 5 (C04), 4.5',
  technique='TLA+ specs Integrator.tla (op-list machine = literal execution of one_timestep) and IntegratorProps.tla (property layer over event logs), model-checked by TLC over a grammar of programs (IntegratorMC.tla, which also emits the programs); compiled probe integrators/steppers and all shipped integrators run for real and decided by TLC (TraceIntegrator.tla)',
  text='TLC explores a universe of one_timestep programs (1-3 stages, op orders, acceleration evaluations with/without neighbour refresh, update_domain placements, py_stage hooks, ghosts) and checks that literal execution satisfies the property layer; the printed programs are compiled as probe integrators whose steppers do exact integer arithmetic and log every call, and each real run (event log and final data) is decided by TLC. All shipped Integrator subclasses are parsed from source and run with probe steppers.',
  note='Cross-array order inside a stage and particle order inside a loop are not demanded. Values computed with update_nnps=False after particles moved are not compared. Shipped steppers: event log and ghost-untouched clauses only.'),
 'C20': dict(
  cat='model_checking', design_ref='DESIGN.md section 5 (C20), 4.4',
  technique='TLA+ spec Setup.tla (symbol table, Required closure, contract Rejected <=> something missing, mechanism variants) with SetupMC.tla model-checked by TLC, which also enumerates the case universe; every case and every shipped equation/stepper class with one needed name removed is built with the real AccelerationEval / SPHCompiler / SPHEvaluator (never executed) and the outcome decided by TLC (TraceSetup.tla)',
  text='The set-up contract (an equation or stepper that needs a property or constant explicitly or through the closure of the precomputed-symbol table which a destination/source array lacks, or names a non-existent array, must be rejected with an error naming the equation and a missing name; complete problems must be accepted) is specified in TLA+; the symbol table is transcribed and also dumped from the real code and compared by TLC. TLC enumerates equation shape x symbols x sources x group structure x one removal or misspelling; each case is constructed for real up to but excluding execution. All shipped equation and stepper classes are covered by the removal leg.',
  note='Incomplete problems are never compiled or run. Symbol requirements are counted for loop arguments. Only the Cython backend.'),
 'C05': dict(
  cat='model_checking', design_ref='DESIGN.md section 5 (C05), 4.10',
  technique='TLA+ specs ParLoop.tla (race freedom and schedule independence of a parallel region, all schedules model-checked by TLC) and TraceSim.tla (the configuration is a variable no step depends on); runs of exact and real-kernel problems through Application.run under many configurations compared state by state by TLC',
  text='TLC explores every schedule of a parallel region (threads, dynamic chunks, per-thread scratch) and checks one writer per location, thread-private scratch and a result that is a function of the data alone. Integer/dyadic-exact problems (free surface, wall, periodic, two fluid arrays) and real-kernel problems with sorted neighbours are run through the Application front end for the product of --nnps x --cache-nnps x OpenMP/threads x --reorder-freq x --sort-gids (sampled in quick, complete in thorough); TLC compares per-step and final bit patterns by particle identity with the reference configuration, and a repetition of the reference run.',
  note='Bit identity is demanded for exact problems under every configuration and for real-kernel problems among runs with --sort-gids and equal re-ordering frequency. The correctness of each component is bound to its own specification under C01-C04, C07, C17; this check binds their composition.'),
 'C12': dict(
  cat='model_checking', design_ref='DESIGN.md section 5 (C12), 4.4',
  technique='TLA+ spec Schemes.tla (abstraction of a set-up simulation: arrays -> name sets, equations/steppers -> required names through the precomputed-symbol closure; clauses SetUp/Complete/Generated/RunFinite) with SchemesMC.tla model-checked by TLC; every shipped Scheme x option assignment configured for real, abstracted and decided by TLC (TraceSchemes.tla)',
  text='For every shipped Scheme subclass and every combination of its boolean/enumerated options (plus dims, solids, clean) the real configure / configure_solver / setup_properties / get_equations / get_solver are run, the result is abstracted (array name sets, explicit and symbol-implied requirements of every equation and stepper, taken from the real objects) and TLC decides completeness with witnesses; the real AccelerationEval + SPHCompiler generate the code for all of them and a rotating subset is compiled and run for three steps with a finiteness check. TLC also model-checks the protocol on toy schemes (complete / incomplete / role-mix / stale configure).',
  note='The symbol table is dumped from the real code and compared with the TLA+ table. Schemes whose constructor cannot be filled automatically are listed in the evidence. Names read only through dst.array in Python-level hooks are covered by the run leg only.'),
 'C16': dict(
  cat='model_checking', design_ref='DESIGN.md section 5 (C16), 4.9',
  technique='TLA+ spec InletOutlet.tla (1-D abstraction along the normal: property layer over histories; code-shaped mechanism MInlet/MOutlet) model-checked by TLC on several instances; histories of the real InletBase/OutletBase objects (manager and direct mode) decided by TLC (TraceInletOutlet.tla)',
  text='Particles with identity move along the interface normal by arbitrary integer displacements (several crossing at once, back-flow, bursts); TLC checks that the implementation-shaped updates satisfy exactly-once transfer, exact copies, recycling by one zone length, deletion past the far end, nothing else changing array and the particle-count equation for every history of small instances. Real inlet/outlet objects of all five SimpleInletOutlet families, with normals along every axis and diagonals in 1-3 dimensions, are driven through random histories on a lattice and every update call is decided by TLC.',
  note='A particle exactly on a plane may go either way; a particle carried past the far end of the outlet in one step may be absorbed or deleted. Lattice units >= 2^-8 (the implementation uses an absolute tolerance of 1e-6). Several fluid arrays and ghost arrays are not judged.'),
 'C14': dict(
  cat='model_checking', design_ref='DESIGN.md section 5 (C14), 4.10',
  technique='TLA+ spec Interp.tla (exact rational values of the documented Shepard / sph / splash sums and the order1 moment system on lattice data with a probe kernel; binding state machine) with InterpMC.tla model-checked by TLC; histories of the real Interpolator / SPHEvaluator decided by TLC (TraceInterp.tla)',
  text='With a probe kernel whose values are exact on dyadic lattice data, every method has an exact rational value that Interp.tla computes; TLC proves the order-type clauses (bounds, constant reproduction, zero outside the support, linear reproduction where the moment matrix is provably regular) as theorems on small universes and checks that a binding state machine follows the current sources and points. Real Interpolator and SPHEvaluator objects (five methods, 1-3 D, several source arrays, periodic domains, explicit target points) are driven through histories of set_interpolation_points / update_particle_arrays / move+update / interpolate, and TLC compares every returned value with the specification; shipped kernels are checked for the order-type clauses.',
  note='Floats are recorded as exact fractions (limit_denominator 2^15) plus a residual at 2^-40. order1 is judged by linear reproduction only. Automatic target grids are not driven.'),
 'C02': dict(
  cat='translation_validation', design_ref='DESIGN.md section 5 (C02), 4.4, 2 (D1-D3)',
  technique='TLA+ spec EvalData.tla (symbol table with the documented formulas, probe kernel, probe-IR interpreter Eval over AccelEval.tla\'s order) model-checked by TLC on a small universe; three-way exact equality TLC Eval == reference executor == compiled code on generated probe programs; shipped equation classes compiled vs the spec-bound reference executor, decided by TLC (TraceEvalData.tla)',
  text='Stage 1: random probe programs (every precomputed symbol, every type x stride, constants, attributes, matrices, helpers, t/dt, several destinations/sources) on exact lattice data are compiled by the real generator; TLC computes the final integer state from the specification and requires it to equal both the compiled result and the result of the reference executor, which executes the real Python methods in the specification\'s order (its hook log is validated by TraceAccelEval.tla; the symbol table extracted from the real code must equal the TLA+ table). Stage 2: every shipped Equation class that can be instantiated automatically is evaluated compiled vs the reference executor for every kernel and dimension; TLC applies the tolerance clause (bit-exact for arithmetic-only methods, 1e-12 relative otherwise).',
  note='Trusted in stage 2: the reference executor (bound to the specification by stage 1 on every run), CPython, numpy. Classes not instantiable automatically are listed in the evidence. The order of neighbours seen by the compiled code is C03\'s business.'),
}

NOT_APPLICABLE = {
 'C08': 'real-valued analytic property of kernel functions (integrals, monotonicity, derivatives): no discrete state or transitions for a TLA+ model; see DESIGN.md section 6',
 'C09': 'floating-point algebraic identity over shipped formulas (momentum conservation to rounding); nothing to model beyond neighbour symmetry/symbol wiring decided under C01/C02; see DESIGN.md section 6',
 'C15': 'metamorphic relations between evaluations of iterative floating-point Riemann solvers; no specification-side oracle exists in TLA+; see DESIGN.md section 6',
}


def main():
    props = [json.loads(l)['id'] for l in open(os.path.join(VERIF, 'properties.jsonl'))]
    checks = []
    for pid in props:
        if pid not in CHECKS:
            continue
        c = CHECKS[pid]
        checks.append(dict(
            property_id=pid,
            quick_cmd='./check %s --tier quick' % pid,
            thorough_cmd='./check %s --tier thorough' % pid,
            evidence_file='/verif/evidence/%s.json' % pid,
            replay_cmd_template='./check %s --replay {path}' % pid,
            engine='tlc',
            level_claimed=dict(category=c['cat'], text=c['text'],
                               design_ref=c['design_ref']),
            level_note=c['note'], technique=c['technique']))
    na = []
    for pid in props:
        if pid in CHECKS:
            continue
        na.append(dict(property_id=pid, reason=NOT_APPLICABLE.get(
            pid, 'check under construction in this round: the TLA+ module and its conformance harness are not finished yet, so the property is not claimed (see DESIGN.md section 11 for the build order)')))
    m = dict(
        version=1,
        setup_cmd='./setup.sh',
        hooks=dict(guard='PYSPH_VERIF',
                   enable='no source hooks are needed: checks build /repo\'s working tree out of tree (mbv/build.py) and observe through probe programs, wrappers and the threading substitution; PYSPH_VERIF=1 is exported to every child process',
                   baseline_off_cmd='cd /repo && /venv/bin/python -m pytest -ra -q -p no:cacheprovider --timeout=900 --continue-on-collection-errors',
                   source_commits=[], add_only=True),
        engines=[dict(name='tlc', path='/opt/veriftools/tla/tla2tools.jar',
                      serves_properties=sorted(CHECKS),
                      kind_free_text='TLA+ specifications under /verif/spec checked with TLC 1.8 (exhaustive small instances, simulation for behaviour generation, trace validation batches)')],
        checks=checks,
        notes='All checks: ./check <id> --tier quick|thorough. Exit 0 held / 1 VIOLATION / 2 machinery failure. known_findings.json lists recorded and fixed defects.',
        not_applicable=na)
    with open(os.path.join(VERIF, 'MANIFEST.json'), 'w') as fp:
        json.dump(m, fp, indent=1)


if __name__ == '__main__':
    main()
