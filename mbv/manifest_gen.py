"""Generates MANIFEST.json from the table below (single source of truth)."""
import json
import os

VERIF = os.path.dirname(os.path.dirname(os.path.abspath(__file__)))

CHECKS = {
 'C10': dict(
  cat='model_checking', design_ref='DESIGN.md section 5 (C10), 4.6',
  technique='TLA+ spec Solver.tla checked by TLC (all inputs of a small instance, M => P, termination); logs of the real Solver.solve() validated by TLC against SolverProps/TraceSolver.tla',
  text='TLC exhaustively checks that the mechanism model of solve() implies the property layer for every input of a small instance; the real solver is run on those same inputs (exact ticks) and on random non-commensurate inputs and every recorded log is evaluated by TLC against the property layer (verdict) and against the mechanism model (drift).',
  note='Trusts: the fake integrator/driver faithfully records step/dump/callback events; tick = 2^-4 makes float arithmetic exact; quantised traces use slack 2 units of tf*2^-28. Bounds: tf <= 8 ticks, dt <= 4, <= 2 output times, n_damp 0..2 for exact runs.'),
 'C06': dict(
  cat='model_checking', design_ref='DESIGN.md section 5 (C06), 4.1',
  technique='TLA+ record-list spec ParticleArray.tla; TLC checks the permutation mechanisms against it (ParticleArrayMC.tla) and validates logged histories of real ParticleArray objects step by step (TraceParticleArray.tla)',
  text='Every public mutator is a TLA+ relation over the projected array state (order left open where the API does not promise one). TLC exhaustively checks that the swap-removal and align algorithms satisfy those relations on a small instance, and validates thousands of random API histories recorded from real ParticleArray objects: each call with its arguments and the full projection after it must satisfy the relation and the rectangularity / alignment / metadata invariants.',
  note='Trusts the projection function (carray lengths, values, stride/default dictionaries read through the public attributes). Values are small integers; resize() growth is filled by the harness. Histories up to 80 calls on two arrays plus a result array.'),
 'C18': dict(
  cat='model_checking', design_ref='DESIGN.md section 5 (C18), 4.8',
  technique='PlusCal/TLA+ spec Controller.tla model-checked by TLC (all interleavings, safety + deadlock + liveness); schedules of the real threads enumerated by a deterministic scheduler and every execution validated by TLC against ControllerProps.tla (verdict) and against the PlusCal model (TraceControllerM.tla, drift)',
  text='TLC explores every interleaving of the solver thread with 1-2 interface threads at synchronisation-primitive granularity for a family of interface programs and checks ExactlyOnce, PauseHolds, WaitNotEarly, deadlock freedom and termination modulo the recorded findings. The real CommandManager is run on real threads under a scheduler that owns every Lock/Condition operation; schedules are enumerated (bounded deviations from a fair default, plus random prefixes) and each execution log is decided by TLC against the property layer; the primitive-level logs are also checked to be behaviours of the PlusCal model.',
  note='Trusts the scheduler-controlled re-implementation of Lock/RLock/Condition (CPython semantics, FIFO notify). Bounds: 1-2 interface threads, programs of <= 4-5 calls, <= 2-3 deviations per schedule. Known findings are matched by signature over the final blocked configuration and the log.'),
}

NOT_APPLICABLE = {
 'C08': 'real-valued analytic property of kernel functions (integrals, monotonicity, derivatives): no discrete state or transitions for a TLA+ model; see DESIGN.md section 6',
 'C09': 'floating-point algebraic identity over shipped formulas (momentum conservation to rounding); nothing to model beyond neighbour symmetry/symbol wiring decided under C01/C02; see DESIGN.md section 6',
 'C15': 'metamorphic relations between evaluations of iterative floating-point Riemann solvers; no specification-side oracle exists in TLA+; see DESIGN.md section 6',
}


def main():
    props = [json.loads(l)['id'] for l in open(os.path.join(VERIF, 'properties.jsonl'))]
    checks = []
    for pid in props:
        if pid not in CHECKS:
            continue
        c = CHECKS[pid]
        checks.append(dict(
            property_id=pid,
            quick_cmd='./check %s --tier quick' % pid,
            thorough_cmd='./check %s --tier thorough' % pid,
            evidence_file='/verif/evidence/%s.json' % pid,
            replay_cmd_template='./check %s --replay {path}' % pid,
            engine='tlc',
            level_claimed=dict(category=c['cat'], text=c['text'],
                               design_ref=c['design_ref']),
            level_note=c['note'], technique=c['technique']))
    na = []
    for pid in props:
        if pid in CHECKS:
            continue
        na.append(dict(property_id=pid, reason=NOT_APPLICABLE.get(
            pid, 'check under construction in this round: the TLA+ module and its conformance harness are not finished yet, so the property is not claimed (see DESIGN.md section 11 for the build order)')))
    m = dict(
        version=1,
        setup_cmd='./setup.sh',
        hooks=dict(guard='PYSPH_VERIF',
                   enable='no source hooks are needed: checks build /repo\'s working tree out of tree (mbv/build.py) and observe through probe programs, wrappers and the threading substitution; PYSPH_VERIF=1 is exported to every child process',
                   baseline_off_cmd='cd /repo && /venv/bin/python -m pytest -ra -q -p no:cacheprovider --timeout=900 --continue-on-collection-errors',
                   source_commits=[], add_only=True),
        engines=[dict(name='tlc', path='/opt/veriftools/tla/tla2tools.jar',
                      serves_properties=sorted(CHECKS),
                      kind_free_text='TLA+ specifications under /verif/spec checked with TLC 1.8 (exhaustive small instances, simulation for behaviour generation, trace validation batches)')],
        checks=checks,
        notes='All checks: ./check <id> --tier quick|thorough. Exit 0 held / 1 VIOLATION / 2 machinery failure. known_findings.json lists recorded and fixed defects.',
        not_applicable=na)
    with open(os.path.join(VERIF, 'MANIFEST.json'), 'w') as fp:
        json.dump(m, fp, indent=1)


if __name__ == '__main__':
    main()
