"""Consistency audit of the interface files (run with python3-vt, which has
jsonschema): MANIFEST.json and every evidence file validate against their
schemas, every property is either claimed or not_applicable, every `fixed`
entry of known_findings.json names a commit that exists in /repo."""
import json
import subprocess
import sys

import jsonschema

V = '/verif/'
bad = 0
m = json.load(open(V + 'MANIFEST.json'))
jsonschema.validate(m, json.load(open('/root/.vp/MANIFEST.schema.json')))
es = json.load(open('/root/.vp/EVIDENCE.schema.json'))
ids = [c['property_id'] for c in m['checks']]
na = [x['property_id'] for x in m['not_applicable']]
props = [json.loads(l)['id'] for l in open(V + 'properties.jsonl')]
if sorted(ids + na) != sorted(props):
    print('claimed + not_applicable != properties')
    bad += 1
for i in ids:
    try:
        e = json.load(open(V + 'evidence/%s.json' % i))
        jsonschema.validate(e, es)
        if e['property_id'] != i:
            raise ValueError('property_id mismatch')
    except Exception as ex:     # noqa
        print(i, 'evidence:', str(ex)[:200])
        bad += 1
k = json.load(open(V + 'known_findings.json'))
key = 'findings' if 'findings' in k else list(k.keys())[0]
log = subprocess.run(['git', '-C', '/repo', 'log', '--format=%h %s'],
                     capture_output=True, text=True).stdout
for f in k[key]:
    if f['status'] == 'fixed' and f.get('commit_hash', 'x' * 9) not in log:
        print('fixed entry without commit in /repo:', f['id'])
        bad += 1
print('claimed %d, not applicable %d, known %d, fixed %d, fix commits %d' % (
    len(ids), len(na), sum(1 for f in k[key] if f['status'] == 'known'),
    sum(1 for f in k[key] if f['status'] == 'fixed'), log.count(' fix:')))
sys.exit(1 if bad else 0)
