"""Model-based verification framework for pypr/pysph (TLA+ specs + TLC + conformance)."""
