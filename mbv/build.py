"""Out-of-tree build of /repo's *current working tree* into a cache.

/repo itself is never built in place (that would change the pinned baseline).
ensure() returns the environment (PYTHONPATH, HOME) that child processes must
use to import the freshly synchronised pysph.
"""
import fcntl
import hashlib
import os
import re
import shutil
import subprocess
import sys
import time

REPO = os.environ.get('VERIF_REPO', '/repo')
ROOT = os.environ.get('VERIF_CACHE', '/var/cache/pysph-verif')
PY = '/venv/bin/python'
EXT_SUFFIXES = ('.pyx', '.pxd', '.h', '.hpp', '.pyx.mako', '.pxd.mako')
RUNTIME_MAKO = ()


class BuildError(Exception):
    pass


def ext_hash(repo=REPO):
    h = hashlib.sha256()
    files = []
    for d, dn, fn in os.walk(os.path.join(repo, 'pysph')):
        dn[:] = [x for x in dn if x not in ('__pycache__', 'build')]
        for f in fn:
            if f.endswith(EXT_SUFFIXES):
                files.append(os.path.join(d, f))
    files.append(os.path.join(repo, 'setup.py'))
    for f in sorted(files):
        h.update(os.path.relpath(f, repo).encode())
        with open(f, 'rb') as fp:
            h.update(hashlib.sha256(fp.read()).digest())
    return h.hexdigest()[:16]


def _prune(keep):
    try:
        ds = [d for d in os.listdir(ROOT)
              if len(d) in (16, 25) and d != keep and
              os.path.isdir(os.path.join(ROOT, d))]
    except FileNotFoundError:
        return
    # only directories nobody has used for a while: other checks (on /repo or
    # on other scratch trees) may be running from theirs right now
    now = time.time()
    ds.sort(key=lambda d: os.path.getmtime(os.path.join(ROOT, d)))
    for d in ds[:-1]:
        try:
            idle = now - os.path.getmtime(os.path.join(ROOT, d))
        except OSError:
            continue
        if idle > 3 * 3600:
            shutil.rmtree(os.path.join(ROOT, d), ignore_errors=True)
            try:
                os.remove(os.path.join(ROOT, d + '.lock'))
            except OSError:
                pass


def _prune_scratch(d, age=12 * 3600):
    """Scratch directories of runs that died without cleaning up."""
    now = time.time()
    try:
        for n in os.listdir(d):
            p = os.path.join(d, n)
            if not os.path.isdir(p):
                continue
            dead = False
            m = re.match(r'^C\d\d-(\d+)$', n)
            if m:
                # scratch of a check process that no longer exists
                try:
                    os.kill(int(m.group(1)), 0)
                except ProcessLookupError:
                    dead = True
                except OSError:
                    pass
            if dead or now - os.path.getmtime(p) > age:
                shutil.rmtree(p, ignore_errors=True)
    except OSError:
        pass


def ensure(verbose=False, repo=REPO):
    """Synchronise sources, build extensions if needed; return env dict."""
    os.makedirs(ROOT, exist_ok=True)
    eh = ext_hash(repo)
    primary = os.path.join(ROOT, eh)
    if os.path.realpath(repo) != os.path.realpath('/repo'):
        # a scratch tree (seeded change): its own directory, so that checks
        # running on /repo at the same time cannot re-synchronise over it
        eh = eh + '-' + hashlib.sha1(
            os.path.realpath(repo).encode()).hexdigest()[:8]
    base = os.path.join(ROOT, eh)
    src = os.path.join(base, 'src')
    home = os.path.join(base, 'home')
    os.makedirs(src, exist_ok=True)
    os.makedirs(home, exist_ok=True)
    lock = open(os.path.join(ROOT, eh + '.lock'), 'w')
    fcntl.flock(lock, fcntl.LOCK_EX)
    try:
        t0 = time.time()
        cmd = ['rsync', '-a', '--delete', '--checksum',
               '--exclude', '__pycache__', '--exclude', '*.so',
               '--exclude', '*.cpp', '--exclude', '*.c', '--exclude', '*.pyc',
               '--exclude', '*.o',
               os.path.join(repo, 'pysph'), src + '/']
        r = subprocess.run(cmd, capture_output=True, text=True)
        if r.returncode != 0:
            raise BuildError('rsync failed: ' + r.stderr)
        for f in ('setup.py', 'setup.cfg', 'pyproject.toml', 'README.rst',
                  'MANIFEST.in'):
            p = os.path.join(repo, f)
            if os.path.exists(p):
                shutil.copy2(p, os.path.join(src, f))
        stamp = os.path.join(base, 'BUILT')
        if not os.path.exists(stamp) and base != primary and \
                os.path.exists(os.path.join(primary, 'BUILT')):
            # same extension sources as an existing build: take its binaries
            r = subprocess.run(
                ['rsync', '-a', '--include', '*/', '--include', '*.so',
                 '--exclude', '*', os.path.join(primary, 'src') + '/',
                 src + '/'], capture_output=True, text=True)
            if r.returncode == 0:
                open(stamp, 'w').write('copied from ' + primary)
        if not os.path.exists(stamp):
            env = dict(os.environ, HOME=home)
            env.pop('PYTHONPATH', None)
            log = os.path.join(base, 'build.log')
            with open(log, 'w') as fp:
                r = subprocess.run(
                    [PY, 'setup.py', 'build_ext', '--inplace', '-j', '16'],
                    cwd=src, env=env, stdout=fp, stderr=subprocess.STDOUT)
            if r.returncode != 0:
                tail = open(log).read()[-3000:]
                raise BuildError('extension build failed:\n' + tail)
            open(stamp, 'w').write(str(time.time()))
            _prune(eh)
        os.utime(base)
        if verbose:
            print('build: hash=%s %.1fs' % (eh, time.time() - t0),
                  file=sys.stderr)
    finally:
        fcntl.flock(lock, fcntl.LOCK_UN)
        lock.close()
    env = dict(os.environ)
    env['HOME'] = home
    here = os.path.dirname(os.path.dirname(os.path.abspath(__file__)))
    env['PYTHONPATH'] = src + os.pathsep + here
    env['PYTHONHASHSEED'] = '0'
    env['PYSPH_VERIF'] = '1'
    env.setdefault('OMP_NUM_THREADS', '1')
    env['VERIF_SRC'] = src
    env['VERIF_SCRATCH'] = os.path.join(base, 'scratch')
    os.makedirs(env['VERIF_SCRATCH'], exist_ok=True)
    _prune_scratch(env['VERIF_SCRATCH'])
    # generated modules nobody has rebuilt for two days
    for root, dirs, files in os.walk(os.path.join(home, '.pysph', 'source')):
        if root.count(os.sep) - home.count(os.sep) == 3:
            _prune_scratch(root, age=48 * 3600)
            now = time.time()
            for f in files:
                p = os.path.join(root, f)
                try:
                    if now - os.path.getmtime(p) > 48 * 3600:
                        os.remove(p)
                except OSError:
                    pass
            dirs[:] = []
    return env


if __name__ == '__main__':
    try:
        e = ensure(verbose=True)
    except BuildError as ex:
        print(ex, file=sys.stderr)
        sys.exit(2)
    print(e['PYTHONPATH'])
