#!/bin/sh
# usage: seedcheck.sh PROP WORKTREE SRCBASE m1 [m2 ...] : re-run the quick check
# of PROP against the given (already confirmed) seeded changes.
PROP=$1; WT=$2; SRC=$3; shift 3
cd /verif
for m in "$@"; do
  git -C $WT checkout -- . ; git -C $WT apply $SRC/$m/patch.diff || continue
  VERIF_REPO=$WT VERIF_NO_EVIDENCE=1 timeout 3000 ./check $PROP --tier quick > /tmp/seedrun-$PROP-${SEED_ROUND}$m.log 2>&1
  echo "CHECK $PROP ${SEED_ROUND}$m rc=$? $(grep -c VIOLATION /tmp/seedrun-$PROP-${SEED_ROUND}$m.log) violations; $(tail -1 /tmp/seedrun-$PROP-${SEED_ROUND}$m.log | cut -c1-120)"
  git -C $WT checkout -- .
done
