"""Collects the outcomes of running checks against seeded changes into
/verif/seeded/results.json and /verif/seeded/RESULTS.md."""
import glob
import json
import os
import re

OUT = '/verif/seeded/results.json'
# changes the check of their property missed when they arrived (the check was
# strengthened because of them).  Runs made before the build cache was made
# per-tree (mbv/build.py) did not execute pure-Python changes at all; those
# "misses" were artefacts and are not listed here.
STRENGTHENED = {
    'C10-m1', 'C06-m1', 'C03-m2', 'C03-m3', 'C07-m1', 'C07-m3', 'C17-m1',
    'C17-m3', 'C16-m3', 'C11-m1', 'C11-m3', 'C19-m2', 'C19-m3', 'C13-m1',
    'C04-m1', 'C04-m3', 'C20-m1', 'C20-m3', 'C14-m1', 'C14-m2', 'C12-m2',
    'C05-m1', 'C05-m2', 'C02-m2', 'C02-m3', 'C10-r2m2', 'C10-r2m3',
    'C06-r2m3', 'C18-r2m1', 'C18-r2m2', 'C01-r2m3', 'C11-r2m3', 'C14-r2m1',
    'C14-r2m2', 'C14-r2m3', 'C20-r2m1', 'C20-r2m2', 'C20-r2m3', 'C07-r2m2',
    'C16-r2m2', 'C17-r2m1', 'C17-r2m2', 'C12-r2m1', 'C02-r2m2', 'C05-r2m1',
    'C05-r2m2', 'C05-r2m3', 'C04-r2m1', 'C04-r2m3', 'C10-r3m2', 'C10-r3m3',
    'C03-r3m2', 'C06-r3m1', 'C01-r3m1', 'C18-r3m2', 'C18-r3m3', 'C19-r3m1',
    'C19-r3m3', 'C11-r3m1', 'C11-r3m2', 'C11-r3m3', 'C16-r3m3', 'C12-r3m1',
    'C12-r3m2'}
res = json.load(open(OUT)) if os.path.exists(OUT) else {}
for f in sorted(glob.glob('/tmp/seedrun-*.out'), key=os.path.getmtime):
    for line in open(f):
        m = re.match(r'CHECK (C\d+) ((?:r\d)?m\d) rc=(\d+) (\d+) violations; (.*)', line)
        if m:
            prop, mk, rc, nv, tail = m.groups()
            name = '%s-%s' % (prop, mk)
            r = res.setdefault(name, {})
            h = r.setdefault('history', [])
            ent = [rc == '1', tail.strip()]
            if ent not in h:
                h.append(ent)
            r.update(check=prop, rc=int(rc), detected=(rc == '1'),
                     summary=tail.strip(),
                     first_run_detected=name not in STRENGTHENED)
for name, r in res.items():
    meta = os.path.join('/verif/seeded', name, 'meta.json')
    if os.path.exists(meta):
        m = json.load(open(meta))
        r['confirmed'] = m['confirmation'].get('confirmed')
        notes = os.path.join('/verif/seeded', name, 'notes.md')
        if os.path.exists(notes) and 'what' not in r:
            txt = open(notes).read().strip().splitlines()
            r['what'] = next((l.strip('# ').strip() for l in txt if l.strip()), '')[:200]
json.dump(res, open(OUT, 'w'), indent=1, sort_keys=True)
with open('/verif/seeded/RESULTS.md', 'w') as fp:
    fp.write('# Seeded changes and which check catches them\n\n'
             'Each change was written by a sub-agent that saw only the '
             'property text; confirmation = patch applies, the pinned 55 '
             'tests pass with it, its demo fails with and passes without '
             'the change. "caught" = the quick check of that property exits '
             '1 with a VIOLATION on the patched tree (and 0 on the unchanged '
             'tree). "first run" = outcome with the check as it was when the '
             'change arrived; a "no" there followed by a check name means '
             'the check was strengthened because of this change.\n\n'
             '| change | confirmed | first run | caught by (now) | outcome | note |\n'
             '|---|---|---|---|---|---|\n')
    for name in sorted(res):
        r = res[name]
        fr = name not in STRENGTHENED
        fp.write('| %s | %s | %s | %s | %s | %s |\n' % (
            name, r.get('confirmed'), 'caught' if fr else 'no',
            r.get('check') if r.get('detected')
            else (r['caught_by_other'] + ' (not by its own check)'
                  if r.get('caught_by_other') else 'NOT caught'), r.get('summary', '')[:80],
            r.get('note', r.get('what', ''))[:160].replace('|', '/')))
print(len(res), 'entries;', sum(1 for r in res.values() if r.get('detected')),
      'caught')
