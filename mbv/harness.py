"""Common driver scaffolding for the per-property checks: timing, evidence,
known findings, verdict lines and exit codes.

exit 0: property held on everything explored (KNOWN-FINDING lines allowed)
exit 1: VIOLATION line(s) printed
exit 2: machinery failure (build, TLC error, parse error) - never a verdict
"""
import hashlib
import json
import atexit
import os
import shutil
import subprocess
import sys
import time
import traceback

from . import build

VERIF = os.path.dirname(os.path.dirname(os.path.abspath(__file__)))
LEVELS = ('exploration', 'fault_enumeration', 'model_checking', 'proof',
          'translation_validation', 'other')


class MachineryError(Exception):
    pass


def load_findings():
    p = os.path.join(VERIF, 'known_findings.json')
    with open(p) as fp:
        return json.load(fp)['findings']


class Check(object):
    def __init__(self, pid, level, argv=None):
        import argparse
        ap = argparse.ArgumentParser()
        ap.add_argument('--tier', default=os.environ.get('VERIF_TIER', 'quick'),
                        choices=['quick', 'thorough'])
        ap.add_argument('--replay', default=None)
        ap.add_argument('--seed', type=int,
                        default=int(os.environ.get('VERIF_SEED', '0') or 0))
        ap.add_argument('--selftest', action='store_true')
        self.args = ap.parse_args(argv)
        self.pid = pid
        self.level = level
        self.tier = self.args.tier
        self.seed = self.args.seed
        self.t0 = time.time()
        self.violations = []     # (signature text, replay path)
        self.known_hits = {}     # finding id -> count
        self.drift = []
        self.cov = {}
        self.assumptions = []
        self.findings = [f for f in load_findings() if f['property'] == pid]
        self._env = None

    # -- environment -------------------------------------------------------
    @property
    def env(self):
        if self._env is None:
            try:
                self._env = build.ensure()
            except build.BuildError as ex:
                raise MachineryError('build failed: %s' % ex)
        return self._env

    @property
    def scratch(self):
        d = os.path.join(self.env['VERIF_SCRATCH'],
                         '%s-%d' % (self.pid, os.getpid()))
        if not os.path.isdir(d):
            os.makedirs(d, exist_ok=True)
            if not os.environ.get('VERIF_KEEP_SCRATCH'):
                # scratch data of a run is removed when the check exits
                # (replay files live under /verif/replays, not here)
                atexit.register(shutil.rmtree, d, ignore_errors=True)
        return d

    def private_home(self):
        """HOME for drivers that compile throw-away (randomly generated)
        modules: pysph's generated-code cache then lives in the scratch
        directory of this run instead of growing the shared one."""
        d = os.path.join(self.scratch, 'home')
        os.makedirs(d, exist_ok=True)
        return d

    def run_py(self, script, args=(), timeout=3600, check=True, env_extra=None,
               stdin=None):
        """Run a driver script with the build environment's interpreter."""
        env = dict(self.env)
        env.update(env_extra or {})
        cmd = [build.PY, os.path.join(VERIF, script)] + list(args)
        p = subprocess.run(cmd, env=env, capture_output=True, text=True,
                           timeout=timeout, cwd=self.scratch, input=stdin)
        if check and p.returncode != 0:
            raise MachineryError('driver %s failed rc=%d\n%s' % (
                script, p.returncode, (p.stderr or '')[-3000:]))
        return p

    # -- verdicts ----------------------------------------------------------
    def known(self, fid):
        for f in self.findings:
            if f['id'] == fid and f['status'] == 'known':
                return f
        return None

    def violation(self, what, replay_obj):
        h = hashlib.sha1(json.dumps(replay_obj, sort_keys=True,
                                    default=str).encode()).hexdigest()[:10]
        d = os.path.join(VERIF, 'replays')
        os.makedirs(d, exist_ok=True)
        path = os.path.join(d, '%s-%s.json' % (self.pid, h))
        with open(path, 'w') as fp:
            json.dump(dict(property=self.pid, what=what, case=replay_obj), fp,
                      indent=1, default=str)
        self.violations.append((what, path))
        return path

    def known_hit(self, fid, what=None):
        self.known_hits[fid] = self.known_hits.get(fid, 0) + 1

    def note_drift(self, module, what):
        if len(self.drift) < 50:
            self.drift.append(dict(module=module, first_divergence=what))

    # -- finish ------------------------------------------------------------
    def finish(self):
        wall = time.time() - self.t0
        cov = dict(self.cov)
        cov.setdefault('samples', [])
        cov['known_findings_hit'] = self.known_hits
        cov['model_drift'] = self.drift
        ev = dict(property_id=self.pid, tier=self.tier, seed=self.seed,
                  level=self.level, coverage=cov,
                  assumptions=self.assumptions, wall_s=round(wall, 2),
                  violations=len(self.violations))
        os.makedirs(os.path.join(VERIF, 'evidence'), exist_ok=True)
        if not self.args.replay and not os.environ.get('VERIF_NO_EVIDENCE'):
            with open(os.path.join(VERIF, 'evidence', self.pid + '.json'),
                      'w') as fp:
                json.dump(ev, fp, indent=1, default=str)
        for d in self.drift[:5]:
            print('MODEL-DRIFT module=%s first-divergence=%s' % (
                d['module'], d['first_divergence']))
        for fid, n in sorted(self.known_hits.items()):
            f = self.known(fid)
            print('KNOWN-FINDING: property=%s %s [%s] (%d cases)' % (
                self.pid, f['signature'], fid, n))
        seen = set()
        for what, path in self.violations:
            if len(seen) >= 20:
                break
            seen.add(path)
            print('VIOLATION property=%s replay=%s  # %s' % (
                self.pid, path, what))
        print('%s %s: %d violations, %d known-finding hits, %.1fs' % (
            self.pid, self.tier, len(self.violations),
            sum(self.known_hits.values()), wall))
        sys.exit(1 if self.violations else 0)


def main(fn):
    """Wrap a check's main: machinery failures exit 2."""
    try:
        fn()
    except SystemExit:
        raise
    except MachineryError as ex:
        print('MACHINERY-FAILURE: %s' % ex, file=sys.stderr)
        sys.exit(2)
    except Exception:
        traceback.print_exc()
        print('MACHINERY-FAILURE: unexpected exception', file=sys.stderr)
        sys.exit(2)
