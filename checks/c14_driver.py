"""Drives the real pysph Interpolator / SPHEvaluator through recorded
histories and writes what interpolate() / evaluate() returned.

Runs under the build environment (PYTHONPATH = synchronised copy of /repo).
usage: c14_driver.py SESSION.json OUT.ndjson [--mutant NAME]

SESSION.json: {"cfg": {...}, "histories": [{"id", "ue", "org", "steps"}]}
  cfg = api ("interp" | "eval"), method, dim, kernel ("probe" or the name of
        a class of pysph.base.kernels), names (source array names, in the
        order of construction), per ([Lx, Ly, Lz] lattice periods, 0 = none:
        a DomainManager is passed to the Interpolator; all histories of such
        a session share ue and org)
  a history has ue, org and fe (the user properties f, g are multiplied by
        2^fe, results divided by it: exact)
  a step = {"act", "src", "pts", "pass", "prop", "lin"} (pass: which of x, y,
        z a Reset / SetPoints hands over; the others are omitted = 0) - AFTER
        the action (spec/Interp.tla part 6), integers on the lattice; a
        source array {"name", "props", "p"} gets exactly the user properties
        listed in props ("f", "g"); an Interpolate step calls
        interpolate(prop) - prop may be a name no array has.
ONE real object (one generated + compiled evaluator) serves the whole
session: the first "Reset" constructs it, later ones call
update_particle_arrays(new arrays) + set_interpolation_points(new points).

Lattice -> real: coordinate = (org + k) * 2^ue, h = h * 2^ue; m, rho and the
field f are used as they are.  Returned values are scaled back by the exact
power of two (kernel-weighted sums of the probe kernel by 4^-ue, gradient
components by 2^ue) and converted exactly:
  F = Fraction(x).limit_denominator(2^15) = i + n/d,  e = round(|x-F| 2^40),
  q = round(x 2^20) (qok: |x| < 1000).
No other processing.  OUT.ndjson gets one line per finished history (the
trace handed to TLC); OUT.ndjson.journal one line per step (what a crash
leaves behind).
"""
import json
import math
import os
import resource
import sys
from fractions import Fraction

os.environ.setdefault('OMP_NUM_THREADS', '1')
try:
    resource.setrlimit(resource.RLIMIT_AS, (8 << 30, 8 << 30))
except (ValueError, OSError):
    pass

import numpy as np

sys.path.insert(0, os.path.dirname(os.path.abspath(__file__)))


def preinstall(argv):
    """--mutant file:PATH: PATH is an edited copy of
    pysph/tools/interpolator.py (e.g. with a proposed repair); it replaces
    the module in THIS process, before anything imports it."""
    if '--mutant' in argv:
        m = argv[argv.index('--mutant') + 1]
        if m.startswith('file:'):
            import importlib.util
            import pysph.tools
            spec = importlib.util.spec_from_file_location(
                'pysph.tools.interpolator', m[5:])
            mod = importlib.util.module_from_spec(spec)
            sys.modules['pysph.tools.interpolator'] = mod
            spec.loader.exec_module(mod)
            pysph.tools.interpolator = mod


preinstall(sys.argv)

import pysph
from pysph.base.utils import get_particle_array
from pysph.sph.equation import Equation
import pysph.tools.interpolator as interp_mod
from pysph.tools.interpolator import Interpolator
from pysph.tools.sph_evaluator import SPHEvaluator

DMAX = 32768


# -- mutants (selftest of the binding; THIS process only, /repo untouched) --
class InterpolateFunction(Equation):
    """Mutant of pysph.tools.interpolator.InterpolateFunction: the Shepard
    normalisation divides by (sum of weights + 1)."""
    def initialize(self, d_idx, d_prop, d_number_density):
        d_prop[d_idx] = 0.0
        d_number_density[d_idx] = 0.0

    def loop(self, s_idx, d_idx, s_temp_prop, d_prop, d_number_density, WIJ):
        d_number_density[d_idx] += WIJ
        d_prop[d_idx] += WIJ*s_temp_prop[s_idx]

    def post_loop(self, d_idx, d_prop, d_number_density):
        if d_number_density[d_idx] > 1e-12:
            d_prop[d_idx] /= (d_number_density[d_idx] + 1.0)


class InterpolateSPH(Equation):
    """Mutant of InterpolateSPH: the mass is dropped from the volume."""
    def initialize(self, d_idx, d_prop):
        d_prop[d_idx] = 0.0

    def loop(self, d_idx, s_idx, s_rho, s_m, s_temp_prop, d_prop, WIJ):
        d_prop[d_idx] += 1.0/s_rho[s_idx]*WIJ*s_temp_prop[s_idx]


def install_mutant(name):
    if not name or name.startswith('file:'):
        return
    if name == 'shepard-norm':
        interp_mod.InterpolateFunction = InterpolateFunction
    elif name == 'sph-no-mass':
        interp_mod.InterpolateSPH = InterpolateSPH
    elif name == 'skip-rebind':
        # update_particle_arrays forgets to rebind the compiled evaluator
        def upa(self, particle_arrays):
            self._set_particle_arrays(particle_arrays)
            arrays = self.particle_arrays + [self.pa]
            self._create_nnps(arrays)
            if not getattr(self, '_c14_first', False):
                self._c14_first = True
                self.func_eval.update_particle_arrays(arrays)
        Interpolator.update_particle_arrays = upa
    elif name == 'stale-staging':
        # interpolate() leaves the staging property of an array that lacks
        # the requested property as the previous call left it
        import inspect
        import textwrap
        src = textwrap.dedent(inspect.getsource(Interpolator.interpolate))
        if src.count('data = 0.0') != 1:
            raise SystemExit('mutant stale-staging: pattern not found')
        ns = dict(interp_mod.__dict__)
        exec(src.replace('data = 0.0', 'continue'), ns)
        Interpolator.interpolate = ns['interpolate']
    elif name == 'no-update-domain':
        # update() skips update_domain() (which also recomputes the cell
        # size of the neighbour search) when there is no domain manager
        def upd(self, update_domain=True):
            if update_domain and self.domain_manager is not None:
                self.nnps.update_domain()
            self.nnps.update()
        Interpolator.update = upd
    elif name == 'no-nnps-update':
        # update() does not refresh the neighbour search
        Interpolator.update = lambda self, update_domain=True: None
        SPHEvaluator.update = lambda self, update_domain=True: None
    elif name == 'stale-points':
        # set_interpolation_points keeps the old point array bound
        orig = Interpolator.set_interpolation_points

        def sip(self, x=None, y=None, z=None):
            if self.func_eval is None:
                return orig(self, x=x, y=y, z=z)
            old = self.pa
            orig(self, x=x, y=y, z=z)
            if old.get_number_of_particles() == \
                    self.pa.get_number_of_particles():
                self.pa = old
                self.update_particle_arrays(self.particle_arrays)
        Interpolator.set_interpolation_points = sip
    else:
        raise SystemExit('unknown mutant %r' % name)


# -- conversion ------------------------------------------------------------
def conv(x, sh):
    """x * 2^sh (exact) -> recorded value."""
    x = float(x)
    if math.isnan(x):
        return dict(k='nan', i=0, n=0, d=1, e=0, q=0, qok=False)
    if math.isinf(x):
        return dict(k='inf', i=0, n=0, d=1, e=0, q=0, qok=False)
    x = math.ldexp(x, sh)
    if math.isinf(x) or abs(x) >= 2.0**30:
        return dict(k='big', i=0, n=0, d=1, e=0, q=0, qok=False)
    X = Fraction(x)
    F = X.limit_denominator(DMAX)
    i = math.floor(F)
    fr = F - i
    e = abs(X - F) * 2**40
    e = int(min(Fraction(2**30), e) + Fraction(1, 2))
    qok = abs(x) < 1000.0
    q = int(round(X * 2**20)) if qok else 0
    return dict(k='num', i=int(i), n=fr.numerator, d=fr.denominator, e=e,
                q=q, qok=qok)


def get_kernel(name, dim):
    if name == 'probe':
        from c14_probe import ProbeKernel
        return ProbeKernel(dim=dim)
    import pysph.base.kernels as K
    return getattr(K, name)(dim=dim)


# -- the real object ---------------------------------------------------------
class Session(object):
    def __init__(self, cfg):
        self.cfg = cfg
        self.obj = None
        self.arrays = None
        self.dst = None

    def real(self, k, o):
        return math.ldexp(float(k + o), self.ue)

    def make_array(self, a):
        p = a['p']
        g = lambda key: np.array([float(q[key]) for q in p])
        x = np.array([self.real(q['x'], self.org[0]) for q in p])
        y = np.array([self.real(q['y'], self.org[1]) for q in p])
        z = np.array([self.real(q['z'], self.org[2]) for q in p])
        h = np.array([math.ldexp(float(q['h']), self.ue) for q in p])
        # only the user properties the abstract array HAS exist on the real one
        # (their values scaled by the exact factor 2^fe of the history)
        user = dict((key, np.array([math.ldexp(float(q[key]), self.fe)
                                    for q in p])) for key in a['props'])
        pa = get_particle_array(name=a['name'], x=x, y=y, z=z, h=h,
                                m=g('m'), rho=g('rho'), **user)
        if self.cfg['api'] == 'eval':
            pa.add_property('temp_prop')
        return pa

    def coords(self, pts):
        x = np.array([self.real(q['x'], self.org[0]) for q in pts])
        y = np.array([self.real(q['y'], self.org[1]) for q in pts])
        z = np.array([self.real(q['z'], self.org[2]) for q in pts])
        return x, y, z

    def passed(self, s):
        """Keyword arguments for set_interpolation_points / the constructor:
        only the coordinates the step says are passed (s['pass']); an omitted
        one is documented to be 0."""
        x, y, z = self.coords(s['pts'])
        kw = {}
        for key, arr, flag in zip('xyz', (x, y, z), s['pass']):
            if flag:
                kw[key] = arr
        return kw

    def make_dst(self, pts):
        x, y, z = self.coords(pts)
        h = np.array([math.ldexp(float(q['h']), self.ue) for q in pts])
        pa = get_particle_array(name='dst', x=x, y=y, z=z, h=h)
        pa.add_property('prop')
        pa.add_property('number_density')
        return pa

    def spans(self, src):
        ps = [q for a in src for q in a['p']]
        return all(len(set(q[key] for q in ps)) >= 2
                   for key in ('x', 'y', 'z')[:self.cfg['dim']])

    def bootstrap(self, src):
        dim = self.cfg['dim']
        out = []
        for a in src:
            p = []
            for k in (0, 1):
                c = [k if j < dim else 0 for j in range(3)]
                p.append(dict(x=c[0], y=c[1], z=c[2], h=1, m=1, rho=1, f=0,
                              g=0))
            out.append(dict(name=a['name'], props=a['props'], p=p))
        return out

    def construct(self, s):
        cfg = self.cfg
        kernel = get_kernel(cfg['kernel'], cfg['dim'])
        self.arrays = [self.make_array(a) for a in s['src']]
        dm = None
        per = cfg.get('per') or [0, 0, 0]
        if any(per):
            # periodic box [org, org + L) * 2^ue along the periodic axes
            from pysph.base.nnps_base import DomainManager
            lo = [self.real(0, self.org[k]) for k in range(3)]
            hi = [self.real(per[k], self.org[k]) for k in range(3)]
            dm = DomainManager(
                xmin=lo[0], xmax=hi[0] if per[0] else lo[0],
                ymin=lo[1], ymax=hi[1] if per[1] else lo[1],
                zmin=lo[2], zmax=hi[2] if per[2] else lo[2],
                periodic_in_x=bool(per[0]), periodic_in_y=bool(per[1]),
                periodic_in_z=bool(per[2]))
        if cfg['api'] == 'interp':
            self.obj = Interpolator(self.arrays, kernel=kernel,
                                    method=cfg['method'], domain_manager=dm,
                                    **self.passed(s))
            if self.obj.dim != cfg['dim']:
                raise SystemExit('driver: Interpolator.dim = %r for a '
                                 'session of dim %r' % (self.obj.dim,
                                                        cfg['dim']))
        else:
            names = [a['name'] for a in s['src']]
            cls = {'shepard': interp_mod.InterpolateFunction,
                   'sph': interp_mod.InterpolateSPH}[cfg['method']]
            self.dst = self.make_dst(s['pts'])
            self.obj = SPHEvaluator(self.arrays + [self.dst],
                                    [cls(dest='dst', sources=names)],
                                    dim=cfg['dim'], kernel=kernel)

    def step(self, s, prev):
        act = s['act']
        cfg = self.cfg
        api = cfg['api']
        if act == 'Reset':
            if self.obj is None:
                if self.spans(s['src']):
                    self.construct(s)
                    return None
                # The Interpolator derives its dimension from the bounding
                # box of the arrays it is constructed with: construct it on
                # a spanning bootstrap set (two particles per array on the
                # diagonal), then replace arrays and points as on any live
                # object.
                self.construct(dict(s, src=self.bootstrap(s['src'])))
            self.arrays = [self.make_array(a) for a in s['src']]
            if api == 'interp':
                self.obj.update_particle_arrays(self.arrays)
                self.obj.set_interpolation_points(**self.passed(s))
            else:
                self.dst = self.make_dst(s['pts'])
                self.obj.update_particle_arrays(self.arrays + [self.dst])
        elif act == 'SetPoints':
            if api == 'interp':
                self.obj.set_interpolation_points(**self.passed(s))
            else:
                self.dst = self.make_dst(s['pts'])
                self.obj.update_particle_arrays(self.arrays + [self.dst])
        elif act == 'UpdateArrays':
            self.arrays = [self.make_array(a) for a in s['src']]
            if api == 'interp':
                self.obj.update_particle_arrays(self.arrays)
            else:
                self.obj.update_particle_arrays(self.arrays + [self.dst])
        elif act == 'MoveUpdate':
            for pa, a in zip(self.arrays, s['src']):
                new = self.make_array(a)
                for key in ('x', 'y', 'z', 'h'):
                    pa.get(key)[:] = new.get(key)     # the real particles
            self.obj.update()
        elif act == 'SetValues':
            for pa, a in zip(self.arrays, s['src']):
                for key in ('m', 'rho'):
                    pa.get(key)[:] = [float(q[key]) for q in a['p']]
                for key in a['props']:
                    pa.get(key)[:] = [math.ldexp(float(q[key]), self.fe)
                                      for q in a['p']]
            if any(cfg.get('per') or ()):
                # periodic images are copies made by update(): refresh them
                self.obj.update()
        elif act == 'Interpolate':
            return self.interpolate(s)
        else:
            raise SystemExit('driver: unknown action %r' % act)
        return None

    def interpolate(self, s):
        cfg = self.cfg
        npts = len(s['pts'])
        probe = cfg['kernel'] == 'probe'
        unnorm = cfg['method'] in ('sph', 'splash')
        # W_real = 4^ue W_lattice for the probe kernel
        # ... and every result carries the factor 2^fe of the field
        sh0 = (-2 * self.ue if (probe and unnorm) else 0) - self.fe
        if cfg['api'] == 'eval':
            for pa in self.arrays:      # (the evaluator's user stages data)
                pa.temp_prop[:] = pa.get(s['prop'])
            self.obj.evaluate()
            vals = np.array(self.dst.prop)
            return [[conv(vals[i], sh0)] for i in range(npts)]
        if cfg['method'] != 'order1':
            vals = np.atleast_1d(self.obj.interpolate(s['prop'])).ravel()
            if len(vals) != npts:
                raise SystemExit('driver: %d values for %d points' % (
                    len(vals), npts))
            return [[conv(vals[i], sh0)] for i in range(npts)]
        comps = [np.atleast_1d(self.obj.interpolate(s['prop'],
                                                    comp=c)).ravel()
                 for c in range(4)]
        return [[conv(comps[c][i], (0 if c == 0 else self.ue) - self.fe)
                 for c in range(4)] for i in range(npts)]


def main():
    args = sys.argv[1:]
    mutant = None
    if '--mutant' in args:
        k = args.index('--mutant')
        mutant = args[k + 1]
        del args[k:k + 2]
    fin, fout = args
    with open(fin) as fp:
        job = json.load(fp)
    if not pysph.__file__.startswith(os.environ.get('VERIF_SRC', '/var/')):
        raise SystemExit('driver: wrong pysph imported: %s' % pysph.__file__)
    install_mutant(mutant)
    cfg = job['cfg']
    ses = Session(cfg)
    out = open(fout, 'a')
    jr = open(fout + '.journal', 'a')
    for h in job['histories']:
        ses.ue = h['ue']
        ses.fe = h.get('fe', 0)
        ses.org = h['org']
        steps = []
        prev = None
        for k, s in enumerate(h['steps']):
            jr.write(json.dumps(dict(h=h['id'], k=k, begin=1)) + '\n')
            jr.flush()
            res = ses.step(s, prev)
            rec = dict(s)
            rec['res'] = res if res is not None else []
            steps.append(rec)
            jr.write(json.dumps(dict(h=h['id'], k=k, res=rec['res'])) + '\n')
            jr.flush()
            prev = s
        out.write(json.dumps(dict(id=h['id'], steps=steps)) + '\n')
        out.flush()
    out.close()
    jr.close()


if __name__ == '__main__':
    main()
