"""C02 stage 2: every Equation subclass shipped under pysph/sph, compiled by
the real generator vs executed by the reference executor (mbv/refexec.py).

Automatic set-up of one class:
  constructor  defaults, else ADMISSIBLE[name]; `dim` follows the data;
               dest 'a0', sources ['a0', 'a1'] (None when the class has no
               pair hook)
  properties   every d_* / s_* argument of every hook plus the arrays the
               requested precomputed symbols read; all double (both arrays
               get all of them); the stride is read off the index
               expressions (d_idx*K + ..) and otherwise found by running the
               Python methods with index-checked arrays and enlarging the
               array an IndexError names
  data         random, positive (velocities signed), a cloud of particles in
               the unit box, smoothing lengths so that every particle has
               several but not all others as neighbours, one ghost in 'a1'
A class whose constructor, set-up or Python execution fails is reported as
not covered together with the reason - never silently skipped, never run
compiled (a wrong set-up makes C read out of bounds).

One compiled module serves a set of classes: one group per class whose
`condition` selects exactly one class per compute().
"""
import ast
import importlib
import inspect
import math
import pkgutil
import textwrap
import zlib

import numpy as np

HOOKS = ('py_initialize', 'initialize', 'initialize_pair', 'loop_all', 'loop',
         'post_loop', 'reduce')
PAIR = ('initialize_pair', 'loop_all', 'loop')
ADMISSIBLE = dict(
    A_min=0.01, G=1.0, S=1.0, T=1.0, alpha=0.1, alphaav=1.0, alphamax=2.0,
    alphamin=0.1, beta=1.0, c0=10.0, cs=10.0, debug=False, deltap=0.1,
    eps=0.01, fkern=1.0, flow_stress=1.0, g1=0.2, g2=0.4, gamma=1.4, h=0.3,
    hdx=1.3, k=1.0, l0=0.1, l1=0.2, ndes=4, nu=0.01, p0=1.0, pb=1.0,
    pref=1.0, r0=0.5, rho=1.0, rho0=1.0, sigma=0.1, tolerance=0.01, u0=1.0,
    v0=1.0, x=0.5, xn=1.0, xo=0.5, y=0.5, yn=0.0, yo=0.5, z=0.5, zn=0.0,
    zo=0.5)
BASE = ('x', 'y', 'z', 'u', 'v', 'w', 'm', 'h', 'rho', 'p', 'au', 'av', 'aw',
        'gid', 'pid', 'tag')
EXACT_CALLS = set(['declare', 'range', 'abs', 'max', 'min', 'int', 'float',
                   'sqrt', 'fabs', 'floor', 'ceil', 'fmax', 'fmin', 'len',
                   'serial_reduce_array', 'parallel_reduce_array'])
KERNEL_SYMS = set(['WIJ', 'WI', 'WJ', 'WDP', 'DWIJ', 'DWI', 'DWJ', 'GHI',
                   'GHJ', 'GHIJ', 'WDASHI', 'WDASHJ', 'WDASHIJ',
                   'SPH_KERNEL'])


# Classes whose automatic set-up (every property a double array) is known not
# to compile: they index with, or assign to C ints from, a property that has
# to be an integer array (orig_idx, ...).  Listed as not covered without
# spending a failed compilation on them.
NOT_AUTOMATIC = dict((k, 'needs an integer-typed property (does not compile '
                         'with the automatic all-double set-up)') for k in (
    'pysph.sph.gas_dynamics.basic.ADKEUpdateGhostProps',
    'pysph.sph.gas_dynamics.basic.MPMUpdateGhostProps',
    'pysph.sph.gas_dynamics.gsph.GSPHUpdateGhostProps',
    'pysph.sph.gas_dynamics.magma2.UpdateGhostProps',
    'pysph.sph.gas_dynamics.psph.UpdateGhostProps',
    'pysph.sph.gas_dynamics.tsph.UpdateGhostProps',
    'pysph.sph.iisph.UpdateGhostPressure',
    'pysph.sph.iisph.UpdateGhostProps',
    'pysph.sph.swe.basic.FindMergeable',
    'pysph.sph.wc.crksph.CRKSPHUpdateGhostProps'))


def class_uses_kernel(cls):
    for h in HOOKS:
        f = getattr(cls, h, None)
        if f is not None and h not in ('py_initialize', 'reduce'):
            if KERNEL_SYMS & set(inspect.getfullargspec(f).args):
                return True
    return False


def listing():
    found = discover()
    return dict(
        classes=[dict(key=list(k), uses_kernel=class_uses_kernel(c),
                      hooks=hooks_of(c), variants=variants_of(c))
                 for k, c in sorted(found.items()) if k[0] != 'c02_kprobe'],
        kernels=kernels(), not_automatic=NOT_AUTOMATIC)


def discover():
    import pysph.sph
    from pysph.sph.equation import Equation
    found = {}
    for m in pkgutil.walk_packages(pysph.sph.__path__, 'pysph.sph.'):
        if '.tests' in m.name:
            continue
        try:
            mod = importlib.import_module(m.name)
        except Exception:
            continue
        for n, c in vars(mod).items():
            if inspect.isclass(c) and issubclass(c, Equation) and \
                    c is not Equation and c.__module__ == mod.__name__:
                found[(mod.__name__, n)] = c
    # the kernel probes of this check (checks/c02_kprobe.py)
    import c02_kprobe
    for n in ('KernelSymbols', 'KernelMethods'):
        found[('c02_kprobe', n)] = getattr(c02_kprobe, n)
    return found


def kernels():
    from pysph.base import kernels as K
    out = {}
    for n, c in sorted(vars(K).items()):
        if inspect.isclass(c) and hasattr(c, 'gradient_h') and \
                c.__module__ == K.__name__:
            dims = []
            for d in (1, 2, 3):
                try:
                    c(dim=d)
                    dims.append(d)
                except Exception:
                    pass
            out[n] = dims
    return out


def hooks_of(cls):
    return [h for h in HOOKS if hasattr(cls, h)]


# Enumerated constructor options (beyond booleans) and their admissible values
OPTION_VALUES = dict(monotonicity=[0, 1, 2], interpolation=[0, 1, 2],
                     rsolver=[0, 1, 2, 3, 4, 5, 6], visc_option=[1, 2, 3])


def variants_of(cls):
    """Single-option departures from the defaults: every boolean option
    flipped, every enumerated option at each other admissible value."""
    out = []
    try:
        sig = inspect.signature(cls.__init__)
    except (TypeError, ValueError):
        return out
    for p in list(sig.parameters.values())[1:]:
        v = ADMISSIBLE.get(p.name) if p.default is inspect._empty \
            else p.default
        if p.name not in ('dest', 'sources', 'dim') and \
                isinstance(v, float) and v == int(v):
            out.append({'__int__': True})
            break
    for p in list(sig.parameters.values())[1:]:
        if p.default is inspect._empty:
            continue
        if isinstance(p.default, bool):
            out.append({p.name: not p.default})
        elif p.name in OPTION_VALUES and isinstance(p.default, int):
            out += [{p.name: v} for v in OPTION_VALUES[p.name]
                    if v != p.default]
    return out


def instantiate(cls, dim, variant=None):
    sig = inspect.signature(cls.__init__)
    kw = {}
    for p in list(sig.parameters.values())[1:]:
        if p.name in ('dest', 'sources') or \
                p.kind in (p.VAR_POSITIONAL, p.VAR_KEYWORD):
            continue
        if p.name == 'dim':
            kw['dim'] = dim
        elif p.default is inspect._empty:
            if p.name not in ADMISSIBLE:
                raise ValueError('no admissible value for constructor '
                                 'argument %r' % p.name)
            kw[p.name] = ADMISSIBLE[p.name]
    variant = dict(variant or {})
    if variant.pop('__int__', False):
        # integral parameter values handed over as Python ints (rho0=1000
        # rather than 1000.0): the generated attribute is then a C long
        for p in list(sig.parameters.values())[1:]:
            if p.name in ('dest', 'sources', 'dim') or \
                    p.kind in (p.VAR_POSITIONAL, p.VAR_KEYWORD):
                continue
            v = kw.get(p.name, p.default)
            if isinstance(v, float) and v == int(v) and abs(v) < 2 ** 31:
                kw[p.name] = int(v)
    kw.update(variant)
    pair = any(hasattr(cls, h) for h in PAIR)
    err = None
    for srcs in ((['a0', 'a1'], None) if pair else (None, ['a0', 'a1'])):
        try:
            if 'sources' in sig.parameters:
                return cls(dest='a0', sources=srcs, **kw)
            return cls(dest='a0', **kw)
        except Exception as ex:
            err = ex
    raise ValueError('constructor raised %s: %s' % (type(err).__name__, err))


def method_args(obj, hook):
    f = getattr(type(obj), hook)
    return [a for a in inspect.getfullargspec(f).args if a != 'self']


def needed_arrays(obj):
    """name -> inferred stride of every property the class touches."""
    from mbv.refexec import sym_arrays
    names = {}
    for h in HOOKS:
        if not hasattr(obj, h) or h in ('py_initialize', 'reduce'):
            continue
        args = method_args(obj, h)
        for a in args:
            if a[:2] in ('d_', 's_') and a not in ('d_idx', 's_idx'):
                names.setdefault(a[2:], 1)
        if h == 'loop':
            for a in sym_arrays(args):
                names.setdefault(a[2:], 1)
        for n, k in strides_from_source(obj, h).items():
            names[n] = max(names.get(n, 1), k)
    for h in ('py_initialize', 'reduce'):
        if hasattr(obj, h):
            for n in dst_attrs(obj, h):
                names.setdefault(n, 1)
    return names


def _tree(obj, hook):
    try:
        src = textwrap.dedent(inspect.getsource(getattr(type(obj), hook)))
        return ast.parse(src)
    except Exception:
        return None


def dst_attrs(obj, hook):
    t = _tree(obj, hook)
    out = set()
    if t is not None:
        for node in ast.walk(t):
            if isinstance(node, ast.Attribute) and \
                    isinstance(node.value, ast.Name) and node.value.id == 'dst':
                if node.attr not in ('get_number_of_particles', 'name',
                                     'constants', 'properties', 'get',
                                     'get_carray', 'set'):
                    out.add(node.attr)
    return out


def strides_from_source(obj, hook):
    """d_x[d_idx*K + ..] / s_x[K*s_idx + ..] -> {x: K}; one level of local
    aliases (i9 = 9*d_idx) is followed."""
    t = _tree(obj, hook)
    if t is None:
        return {}
    alias = {}
    for node in ast.walk(t):
        if isinstance(node, ast.Assign) and len(node.targets) == 1 and \
                isinstance(node.targets[0], ast.Name):
            alias[node.targets[0].id] = node.value

    def const(n):
        if isinstance(n, ast.Constant) and isinstance(n.value, int):
            return n.value
        if isinstance(n, ast.Attribute) and isinstance(n.value, ast.Name) \
                and n.value.id == 'self':
            v = getattr(obj, n.attr, None)
            if isinstance(v, (int, np.integer)) and not isinstance(v, bool):
                return int(v)
        return None

    def mult(n, depth=0):
        best = 0
        for sub in ast.walk(n):
            if isinstance(sub, ast.BinOp) and isinstance(sub.op, ast.Mult):
                for a, b in ((sub.left, sub.right), (sub.right, sub.left)):
                    if isinstance(a, ast.Name) and a.id in ('d_idx', 's_idx'):
                        k = const(b)
                        if k:
                            best = max(best, k)
            if isinstance(sub, ast.Name) and sub.id in alias and depth < 3:
                best = max(best, mult(alias[sub.id], depth + 1))
        return best
    out = {}
    for node in ast.walk(t):
        if isinstance(node, ast.Subscript) and isinstance(node.value, ast.Name) \
                and node.value.id[:2] in ('d_', 's_'):
            k = mult(node.slice)
            if k > 1:
                n = node.value.id[2:]
                out[n] = max(out.get(n, 1), k)
    return out


def _arith_tree(t, helpers, seen, owner=None):
    for node in ast.walk(t):
        if isinstance(node, ast.Pow):
            return False
        if isinstance(node, ast.Call):
            f = node.func
            if isinstance(f, ast.Name):
                if f.id in EXACT_CALLS:
                    continue
                if f.id in helpers:
                    if f.id not in seen:
                        seen.add(f.id)
                        try:
                            ht = ast.parse(textwrap.dedent(
                                inspect.getsource(helpers[f.id])))
                        except Exception:
                            return False
                        if not _arith_tree(ht, helpers, seen, owner):
                            return False
                    continue
                return False
            if isinstance(f, ast.Attribute) and isinstance(f.value, ast.Name) \
                    and f.value.id == 'self' and owner is not None and \
                    inspect.isfunction(getattr(owner, f.attr, None)):
                key = 'self.' + f.attr          # another method of the class
                if key not in seen:
                    seen.add(key)
                    try:
                        mt = ast.parse(textwrap.dedent(
                            inspect.getsource(getattr(owner, f.attr))))
                    except Exception:
                        return False
                    if not _arith_tree(mt, helpers, seen, owner):
                        return False
                continue
            if isinstance(f, ast.Attribute) and isinstance(f.value, ast.Name) \
                    and f.value.id == 'SPH_KERNEL':
                continue            # judged with the kernel class
            return False
    return True


def is_arith(obj, hooks=HOOKS):
    """True when the methods use IEEE basic operations only (+ - * / sqrt,
    comparisons, abs/min/max/floor/ceil): the compiled result must then be
    bit-identical to the Python one."""
    helpers = {}
    if hasattr(obj, '_get_helpers_'):
        try:
            for h in obj._get_helpers_():
                helpers[h.__name__] = h
        except Exception:
            return False
    for h in hooks:
        if hasattr(obj, h):
            t = _tree(obj, h)
            if t is None or not _arith_tree(t, helpers, set(), type(obj)):
                return False
    return True


def uses_kernel(obj):
    for h in HOOKS:
        if hasattr(obj, h) and h not in ('py_initialize', 'reduce'):
            if KERNEL_SYMS & set(method_args(obj, h)):
                return True
    return False


# ---------------------------------------------------------------------------
# arrays and data
# ---------------------------------------------------------------------------
def make_arrays(props, dim, seed):
    """Two particle arrays with the given {name: stride} double properties
    and random positive data; returns [a0, a1]."""
    from pysph.base.utils import get_particle_array
    rs = np.random.RandomState(seed % (2 ** 31))
    n = {1: 9, 2: 12, 3: 14}[dim]
    box = {1: 2.0, 2: 1.0, 3: 0.8}[dim]
    pas = []
    for i in range(2):
        pos = np.zeros((3, n))
        for d in range(dim):
            pos[d] = rs.uniform(0.0, box, n)
        h = rs.uniform(0.16, 0.24, n) * {1: 1.0, 2: 1.0, 3: 1.0}[dim]
        pa = get_particle_array(
            name='a%d' % i, x=pos[0], y=pos[1], z=pos[2], h=h,
            m=rs.uniform(0.5, 1.5, n), rho=rs.uniform(0.5, 1.5, n),
            u=rs.uniform(-1, 1, n), v=rs.uniform(-1, 1, n) * (dim > 1),
            w=rs.uniform(-1, 1, n) * (dim > 2), p=rs.uniform(0.5, 1.5, n))
        for nm in sorted(props):
            st = props[nm]
            if nm in pa.properties:
                if st != 1:
                    raise ValueError('base property %s used with stride %d'
                                     % (nm, st))
                if nm in ('au', 'av', 'aw'):
                    pa.get_carray(nm).get_npy_array()[:] = \
                        rs.uniform(0.5, 1.5, n)
                continue
            pa.add_property(nm, stride=st)
            pa.get_carray(nm).get_npy_array()[:] = \
                rs.uniform(0.5, 1.5, n * st)
        if i == 1:
            pa.get_carray('tag').get_npy_array()[n - 1] = 2
            pa.align_particles()
        pas.append(pa)
    return pas


def snapshot(pas):
    out = {}
    for pa in pas:
        for nm in sorted(list(pa.properties) + list(pa.constants)):
            out[(pa.name, nm)] = np.array(
                pa.get_carray(nm).get_npy_array(), dtype=float)
    return out


def _same(a, b):
    """Entry-wise: the same double (NaN equals NaN, -0.0 equals 0.0)."""
    return (a == b) | (np.isnan(a) & np.isnan(b))


def compare(before, ref, imp, ref2=None):
    """Per property name (both arrays together) the measured disagreement
    between the reference (ref) and the compiled (imp) final states.
    ref2: the reference run repeated with every declared matrix filled with
    NaN instead of zeros; entries on which ref and ref2 differ are UNDEFINED
    (they depend on a declared matrix no statement wrote) and are counted
    separately: undef entries, ubit of them differing from the compiled
    value."""
    by = {}
    for (a, nm), r in ref.items():
        c = imp[(a, nm)]
        b = before[(a, nm)]
        e = by.setdefault(nm, dict(n=nm, cnt=0, nbit=0, nan=0, err15=0,
                                   changed=0, undef=0, ubit=0))
        if c.shape != r.shape:
            # the two executions left arrays of different length: every
            # entry counts as a disagreement
            e['cnt'] += int(max(r.size, c.size))
            e['nbit'] += int(max(r.size, c.size))
            e['nan'] += int(max(r.size, c.size))
            e['changed'] += 1
            continue
        if b.shape != r.shape:
            b = np.full(r.shape, np.nan)
        e['cnt'] += int(r.size)
        defined = np.ones(r.shape, dtype=bool)
        if ref2 is not None and ref2[(a, nm)].shape == r.shape:
            defined = _same(r, ref2[(a, nm)])
        e['undef'] += int(np.sum(~defined))
        e['ubit'] += int(np.sum(~defined & ~_same(r, c)))
        e['nbit'] += int(np.sum(defined & ~_same(r, c)))
        fin_r, fin_c = np.isfinite(r), np.isfinite(c)
        e['nan'] += int(np.sum(defined & ~_same(r, c) &
                               (~fin_r | ~fin_c)))
        ok = fin_r & fin_c & defined
        if np.any(ok):
            scale = float(np.max(np.abs(r[ok])))
            den = np.maximum(np.maximum(np.abs(r[ok]), np.abs(c[ok])),
                             max(scale, 1e-300))
            rel = float(np.max(np.abs(r[ok] - c[ok]) / den))
            e['err15'] = max(e['err15'],
                             int(min(math.ceil(rel * 1e15), 2 ** 30)))
        e['changed'] += int(np.sum(~((r == b) | (np.isnan(r) & np.isnan(b)))))
    return [by[k] for k in sorted(by)]


# ---------------------------------------------------------------------------
# one job
# ---------------------------------------------------------------------------
class Unit(object):
    """One class of the job: instance factories and set-up."""

    def __init__(self, key, cls, variant=None):
        self.key = key
        self.cls = cls
        self.variant = variant or None
        self.label = '%s.%s' % key
        if self.variant:
            self.label += '[%s]' % ','.join(
                '%s=%r' % kv for kv in sorted(self.variant.items()))
        self.why = None          # reason it is not covered
        self.props = {}

    def make(self, dim):
        return instantiate(self.cls, dim, self.variant)


def try_python(unit, dim, kernel_cls, props, seed, checked=True):
    """Run the class once through the reference executor; returns
    (state before, state after) - raises on any failure."""
    from mbv.refexec import RefExec
    from pysph.sph.equation import Group
    from pysph.base.nnps import LinkedListNNPS
    pas = make_arrays(props, dim, seed)
    obj = unit.make(dim)
    k = kernel_cls(dim=dim)
    nn = LinkedListNNPS(dim=dim, particles=pas, radius_scale=k.radius_scale)
    before = snapshot(pas)
    rx = RefExec(pas, [Group(equations=[obj], name='c')], k, nn,
                 checked=checked)
    rx.compute(0.25, 0.125)
    return before, snapshot(pas), rx


def setup_unit(unit, dims, kernel_cls, seed):
    """Find the properties and strides of a class; sets unit.why when the
    class cannot be set up automatically."""
    from mbv.refexec import NotInSubset
    props = {}
    for dim in dims:
        try:
            obj = unit.make(dim)
            for n, k in needed_arrays(obj).items():
                props[n] = max(props.get(n, 1), k)
        except Exception as ex:
            unit.why = 'constructor/set-up: %s' % str(ex)[:200]
            return
    for dim in dims:
        for attempt in range(30):
            try:
                try_python(unit, dim, kernel_cls, props, seed)
                break
            except NotInSubset as ex:
                unit.why = 'outside the documented subset: %s' % ex
                return
            except IndexError as ex:
                nm = getattr(ex, 'pname', None)
                msg = str(ex)
                grown = False
                for cand in sorted(props, key=len, reverse=True):
                    if ('<%s>' % cand) in msg:
                        if cand in BASE:
                            break
                        props[cand] = props[cand] * 2
                        grown = props[cand] <= 32
                        break
                if not grown:
                    unit.why = 'needs special set-up (Python raised ' \
                        'IndexError: %s)' % msg[:160]
                    return
            except Exception as ex:
                unit.why = 'needs special set-up (Python raised %s: %s)' % (
                    type(ex).__name__, str(ex)[:160])
                return
        else:
            unit.why = 'needs special set-up (array sizes not found)'
            return
    unit.props = props


def run_classes(job):
    """job: jid, classes [[module, name]..], kernel, dims, reps, seed."""
    import c02_driver as D
    import pysph.base.kernels as K
    from mbv.refexec import RefExec
    from pysph.sph.equation import Group
    from pysph.sph.acceleration_eval import AccelerationEval
    from pysph.sph.sph_compiler import SPHCompiler
    from pysph.base.nnps import LinkedListNNPS
    kernel_cls = getattr(K, job['kernel'])
    found = discover()
    recs = []
    units = []
    for ent in job['classes']:
        key = tuple(ent[:2])
        u = Unit(key, found[key], ent[2] if len(ent) > 2 else None)
        if '%s.%s' % key in NOT_AUTOMATIC and not job.get('try_all'):
            u.why = NOT_AUTOMATIC['%s.%s' % key]
        else:
            setup_unit(u, job['dims'], kernel_cls, job['seed'])
        if u.why:
            u.reported = True
            recs.append(dict(id='%s/%s' % (job['jid'], u.label),
                             kind='class', jid=job['jid'], cls=u.label,
                             kernel=job['kernel'], notcovered=u.why))
        else:
            units.append(u)

    def build(us, dim):
        """Compile one module for the classes `us`; returns the evaluator."""
        props = {}
        for u in us:
            for n, k in u.props.items():
                if n in props and props[n] != k and \
                        (n in BASE):
                    raise ValueError('base property stride clash')
                props[n] = max(props.get(n, 1), k)
        pas = make_arrays(props, dim, 1)
        sel = [-1]
        D.reset_group_counter()
        groups = []
        for i, u in enumerate(us):
            groups.append(Group(
                equations=[u.make(dim)], name='c%d' % i,
                condition=(lambda t, dt, i=i: sel[0] == i)))
        k = kernel_cls(dim=dim)
        ae = AccelerationEval(pas, groups, k)
        SPHCompiler(ae, None).compile()
        ae.c02_eqs = [g.equations[0] for g in groups]
        ae.c02_arrays = pas
        return ae, pas, sel, props, k

    def build_or_split(us, dim):
        """[(ae, pas, sel, props, k, us)] - halves the set when it does not
        compile, down to single classes, which are then not covered."""
        if not us:
            return []
        try:
            return [build(us, dim) + (us,)]
        except BaseException as ex:
            if isinstance(ex, KeyboardInterrupt):
                raise
            if len(us) == 1:
                us[0].why = 'does not compile with the automatic set-up ' \
                    '(%s: %s)' % (type(ex).__name__, str(ex)[:200])
                return []
            h = len(us) // 2
            return build_or_split(us[:h], dim) + build_or_split(us[h:], dim)

    def one_run(u, i, dim, seed, base, props, k, ae, pas_c, sel):
        # reference executor first: only what Python can run is run compiled
        pas_r = make_arrays(props, dim, seed)
        before = snapshot(pas_r)
        obj = u.make(dim)
        try:
            nn = LinkedListNNPS(dim=dim, particles=pas_r,
                                radius_scale=k.radius_scale)
            rx = RefExec(pas_r, [Group(equations=[obj], name='c')],
                         kernel_cls(dim=dim), nn)
            rx.compute(0.25, 0.125)
        except Exception as ex:
            return dict(base, pyerror='%s: %s' % (type(ex).__name__,
                                                  str(ex)[:160]))
        ref = snapshot(pas_r)
        # once more with NaN in every declared matrix: what differs depends
        # on a local the generated C leaves uninitialised
        ref2 = None
        try:
            pas_q = make_arrays(props, dim, seed)
            rq = RefExec(pas_q, [Group(equations=[u.make(dim)],
                                       name='c')], kernel_cls(dim=dim),
                         LinkedListNNPS(dim=dim, particles=pas_q,
                                        radius_scale=k.radius_scale),
                         matrix_fill=float('nan'))
            rq.compute(0.25, 0.125)
            ref2 = snapshot(pas_q)
        except Exception:
            ref2 = None
        # the same data in the arrays of the compiled evaluator
        # the compiled evaluator is re-used: either its arrays are changed in
        # place or fresh ParticleArray objects are bound to it with
        # update_particle_arrays (then the replaced ones must stay untouched)
        fresh = make_arrays(props, dim, seed)
        pas_c = ae.c02_arrays
        old = old_before = None
        if seed % 2:
            old = pas_c
            old_before = snapshot(old)
            ae.update_particle_arrays(fresh)
            pas_c = ae.c02_arrays = fresh
        else:
            for pc, pf in zip(pas_c, fresh):
                if pc.get_number_of_particles() != \
                        pf.get_number_of_particles():
                    pc.resize(pf.get_number_of_particles())
                for nm in list(pf.properties) + list(pf.constants):
                    pc.get_carray(nm).get_npy_array()[:] = \
                        pf.get_carray(nm).get_npy_array()
                pc.align_particles()
        nn2 = LinkedListNNPS(dim=dim, particles=pas_c,
                             radius_scale=k.radius_scale)
        ae.set_nnps(nn2)
        # one compute() of a freshly constructed equation: instance
        # attributes a previous run changed (counters, flags) are restored
        # in the compiled object and in the Python object behind py_* hooks
        fresh_eq = u.make(dim)
        peq = ae.c02_eqs[i]
        ceq = getattr(ae.c_acceleration_eval, peq.var_name)
        for nm, val in fresh_eq.__dict__.items():
            if nm in ('var_name', 'name', 'dest', 'sources', 'no_source'):
                continue
            setattr(peq, nm, val)
            try:
                setattr(ceq, nm, val)
            except (AttributeError, TypeError):
                pass
        sel[0] = i
        try:
            ae.compute(0.25, 0.125)
        finally:
            sel[0] = -1
        imp = snapshot(pas_c)
        touched = 0
        if old is not None:
            after = snapshot(old)
            touched = sum(int(np.sum(~_same(old_before[kk], after[kk])))
                          if old_before[kk].shape == after[kk].shape
                          else int(after[kk].size) for kk in old_before)
        kern_obj = kernel_cls(dim=dim)
        arith = is_arith(obj) and (
            not uses_kernel(obj) or
            is_arith(kern_obj, ('kernel', 'gradient', 'dwdq', 'gradient_h',
                                'get_deltap')))
        nloop = sum(1 for e in rx.log if e[0] == 'loop')
        props_cmp = compare(before, ref, imp, ref2)
        # entries of the replaced arrays changed by the compute(): must be 0
        props_cmp.append(dict(n='<replaced arrays>', cnt=touched, nbit=touched,
                              nan=touched, err15=0, changed=0, undef=0,
                              ubit=0))
        return dict(base, arith=bool(arith), hooks=hooks_of(u.cls),
                    uses_kernel=uses_kernel(obj), nloop=nloop,
                    route='rebind' if old is not None else 'inplace',
                    nev=len(rx.log), props=props_cmp)

    for dim in job['dims']:
        live = [u for u in units if not u.why]
        for ae, pas_c, sel, props, k, us in build_or_split(live, dim):
            for i, u in enumerate(us):
                for rep in range(job['reps']):
                    seed = zlib.crc32(('%s/%d/%d/%d' % (
                        u.label, dim, rep, job['seed'])).encode())
                    rid = '%s/%s/%s/d%d/r%d' % (
                        job['jid'], u.label, job['kernel'], dim, rep)
                    base = dict(id=rid, kind='class', jid=job['jid'],
                                cls=u.label, kernel=job['kernel'], dim=dim,
                                ent=[u.key[0], u.key[1], u.variant or {}])
                    try:
                        recs.append(one_run(u, i, dim, seed, base, props, k,
                                            ae, pas_c, sel))
                    except Exception as ex:
                        recs.append(dict(base, error='%s: %s' % (
                            type(ex).__name__, str(ex)[:200])))
        for u in units:
            if u.why and not getattr(u, 'reported', False):
                u.reported = True
                recs.append(dict(id='%s/%s' % (job['jid'], u.label),
                                 kind='class', jid=job['jid'],
                                 cls=u.label, kernel=job['kernel'],
                                 notcovered=u.why))
    return recs
