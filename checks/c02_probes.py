"""C02 stage 1: random probe programs in the IR of spec/EvalData.tla Part 5,
the lattice data they run on, and their rendering as Python source of
pysph Equation classes (device D2).  Used by checks/C02.py (generation) and
checks/c02_driver.py (rendering).  stdlib only.

The generator keeps every value inside the range in which the implementation
is exact and TLC's 32-bit integers suffice (interval bounds, `Bounds`); this
constrains the *inputs* only - the expected values come from TLC.
"""
HOOKS = ['py_initialize', 'initialize', 'initialize_pair', 'loop_all', 'loop',
         'post_loop', 'reduce']
BASE = ['x', 'y', 'z', 'h', 'm', 'rho', 'u', 'v', 'w', 'ik', 'jk']  # ik, jk: int
NONNEG_BASE = ['x', 'y', 'z', 'h', 'm', 'rho', 'ik']
INT_BASE = ['ik', 'jk']
CMP = ['lt', 'le', 'eq', 'ne', 'gt', 'ge']
CMP_SRC = dict(lt='<', le='<=', eq='==', ne='!=', gt='>', ge='>=')
TYPES = ['double', 'int', 'long', 'uint', 'float']
PTYPE = {'double': 'double', 'int': 'int', 'long': 'long',
         'uint': 'unsigned int', 'float': 'float'}
INT_TYPES = ('int', 'long', 'uint')
SCALAR_SYMS = ['HIJ', 'R2IJ', 'RHOIJ', 'WIJ', 'WI', 'WJ', 'WDP', 'WDASHI',
               'WDASHJ', 'WDASHIJ', 'GHI', 'GHJ', 'GHIJ']
VEC_SYMS = ['XIJ', 'VIJ', 'DWIJ', 'DWI', 'DWJ']
RAT_SYMS = ['RHOIJ1', 'EPS']
ALL_SYMS = SCALAR_SYMS + VEC_SYMS + RAT_SYMS + ['RIJ']
NMAX = 7            # particles per array
LIM = {'double': 1 << 30, 'long': 1 << 30, 'int': 1 << 30, 'uint': 1 << 30,
       'float': 1 << 23}
SYM_BOUND = {'HIJ': 6, 'R2IJ': 147, 'RHOIJ': 6, 'WIJ': 1100, 'WI': 1100,
             'WJ': 1100, 'WDP': 1100, 'WDASHI': 170, 'WDASHJ': 170,
             'WDASHIJ': 170, 'GHI': 920, 'GHJ': 920, 'GHIJ': 920, 'XIJ': 9,
             'VIJ': 6, 'DWIJ': 210, 'DWI': 210, 'DWJ': 210, 'RIJ': 9}
BASE_BOUND = {'ik': 9, 'jk': 9, 'x': 9, 'y': 5, 'z': 4, 'h': 6, 'm': 4, 'rho': 6, 'u': 3,
              'v': 3, 'w': 3}


def slots():
    """name -> (type, stride): every type x stride combination."""
    r = {}
    for t in TYPES:
        for s in (1, 2, 3):
            r['s%s%d' % (t[0], s)] = (t, s)
    return r


def A(k, n='', i=0, a=()):
    return dict(k=k, n=n, i=i, a=list(a))


class Bounds(object):
    """Interval bounds |value| <= B for every slot and constant."""

    def __init__(self, spec):
        self.spec = spec
        self.B = dict((n, 3) for n in spec['slots'])
        self.C = dict(cin=3, cacc=0)

    def atom(self, a, nsrc=1):
        k = a['k']
        if k == 'c':
            return abs(a['i'])
        if k in ('dp', 'sp'):
            return BASE_BOUND[a['n']] if a['n'] in BASE_BOUND else self.B[a['n']]
        if k in ('dc', 'sc'):
            return self.C[a['n']]
        if k == 'sym':
            return SYM_BOUND[a['n']]
        if k == 'rsq':
            return 147
        if k == 'rij':
            return 9
        if k == 'at':
            return 9
        if k == 'il':
            return abs(a['i'])
        if k == 'pow':
            return max(1, self.atom(a['a'][0])) ** self.atom(a['a'][1])
        if k == 'mod':
            return self.atom(a['a'][1])
        if k in ('fdiv', 'abs'):
            return self.atom(a['a'][0]) + 1
        if k in ('max', 'min', 'and', 'or'):
            return max(self.atom(a['a'][0]), self.atom(a['a'][1]))
        if k in ('cmp', 'not', 'ovf'):
            return 1
        if k == 'uneg':
            return 1023
        if k == 'atv':
            return 9
        if k == 't':
            return 5
        if k == 'dt':
            return 4
        if k == 'mat':
            return a['_b']
        if k == 'nn':
            return NMAX
        if k == 'nsum':
            return NMAX * self.atom(A('sp', a['n']))
        if k == 'psum':
            return NMAX * self.spec['slots'][a['n']][1] * self.B[a['n']]
        if k == 'h2':
            u, v = self.atom(a['a'][0]), self.atom(a['a'][1])
            return u * v + 2 * u + v
        if k == 'hv':
            return 6 * (a['_b'] if a['n'] == 'mt' else SYM_BOUND[a['n']])
        if k == 'kw':
            return 1100
        raise ValueError(k)

    def term(self, tm):
        b = abs(tm['c'])
        for a in tm['f']:
            b *= self.atom(a)
        return b

    def expr(self, e):
        return sum(self.term(tm) for tm in e)


# ---------------------------------------------------------------------------
# generation
# ---------------------------------------------------------------------------
class Gen(object):
    def __init__(self, rng, mid, d1=False, na=None, neq=10, idiv=False):
        self.rng = rng
        self.mid = mid
        self.d1 = d1
        self.idiv = idiv
        self.na = na or rng.choice([2, 2, 3])
        self.neq = neq
        self.slots = slots()
        self.rats = {'q0': 1, 'q1': 2}
        self.must = list(ALL_SYMS)          # symbols still to be read
        rng.shuffle(self.must)
        if not d1:
            pass
        self.feats = {}

    def feat(self, f):
        self.feats[f] = self.feats.get(f, 0) + 1

    # -- atoms -------------------------------------------------------------
    def slot_atom(self, kind, readable, nonneg):
        rng = self.rng
        pool = [n for n in readable
                if not nonneg or self.slots[n][0] == 'uint']
        if pool and rng.random() < 0.5:
            n = rng.choice(pool)
            self.feat('read:%s/%d' % self.slots[n])
            return A(kind, n, rng.randrange(self.slots[n][1]))
        return A(kind, rng.choice(NONNEG_BASE if nonneg else BASE), 0)

    # -- arithmetic operators (operands are leaves) ---------------------------
    def int_leaf(self, nonzero=False):
        rng = self.rng
        k = rng.choice(['il', 'il', 'ci', 'cj', 'ni', 'nj'] +
                       ([] if nonzero else ['ik', 'jk', 'jk']))
        if k == 'il':
            return A('il', '', rng.choice([-5, -4, -3, -2, 2, 3, 4, 5] if nonzero
                                          else [-7, -3, -1, 0, 1, 2, 5, 7]))
        if k in ('ik', 'jk'):
            return A('dp', k)
        return A('at', k)

    def flt_leaf(self, nonzero=False):
        rng = self.rng
        k = rng.choice(['c', 'ca', 'h'] + ([] if nonzero else
                                           ['x', 'u', 'u', 'm']))
        if k == 'c':
            return A('c', '', rng.choice([-4, -3, -2, 2, 3, 4]))
        if k == 'ca':
            return A('at', 'ca')
        return A('dp', k)

    def leaf(self):
        return self.int_leaf() if self.rng.random() < 0.5 else self.flt_leaf()

    def op_atom(self, readable):
        """An operator whose C translation can differ from Python's meaning.
        Modules with self.idiv also get the constructs for which the
        unchanged generator is known to differ (%, int //, long overflow)."""
        rng = self.rng
        ops = ['pow', 'pow', 'pow', 'fdivf', 'abs', 'max', 'min', 'cmp',
               'cmp', 'and', 'or', 'not', 'uneg']
        if self.idiv:
            ops += ['mod', 'mod', 'mod', 'fdivi', 'fdivi', 'ovf']
        k = rng.choice(ops)
        self.feat('op:' + k)
        if k == 'pow':
            form = rng.choice(['int-int', 'int-int', 'flt-int', 'neg-int',
                               'lit-prop'])
            if form == 'lit-prop':        # 2 ** d_ik[d_idx]
                b = rng.choice([A('il', '', rng.choice([-3, -2, 2, 3])),
                                A('c', '', rng.choice([-2, 2]))])
                e = A('dp', 'ik')
            else:
                e = A('at', rng.choice(['ci', 'cj']))
                if form == 'int-int':
                    b = rng.choice([A('il', '', rng.choice([2, 3, 5, 7])),
                                    A('at', 'ci'), A('at', 'cj'),
                                    A('dp', 'ik')])
                elif form == 'flt-int':
                    b = rng.choice([A('dp', 'x'), A('at', 'ca'),
                                    A('c', '', 2), A('dp', 'h')])
                else:
                    b = rng.choice([A('il', '', rng.choice([-2, -3])),
                                    A('c', '', rng.choice([-2, -3])),
                                    A('dp', 'u'), A('at', 'ni'),
                                    A('dp', 'jk')])
            self.feat('pow:' + form)
            return A('pow', '', 0, [b, e])
        if k == 'fdivf':                  # float dividend: floor in C as well
            return A('fdiv', '', 0, [rng.choice(
                [A('dp', 'x'), A('dp', 'u'), A('dp', 'u'), A('at', 'ca')]),
                self.int_leaf(True) if rng.random() < 0.5
                else self.flt_leaf(True)])
        if k == 'fdivi':                  # both operands integer typed
            u = self.int_leaf()
            v = self.int_leaf(True)
            if u['k'] == 'il' and v['k'] == 'il':
                v = A('at', rng.choice(['ci', 'nj']))
            return A('fdiv', '', 0, [u, v])
        if k == 'mod':
            u = self.leaf()
            v = self.int_leaf(True) if rng.random() < 0.6 \
                else self.flt_leaf(True)
            if u['k'] in ('il', 'c') and v['k'] in ('il', 'c'):
                v = A('at', rng.choice(['cj', 'ni', 'nj']))
            return A('mod', '', 0, [u, v])
        if k == 'abs':
            return A('abs', '', 0, [rng.choice([A('dp', 'u'), A('dp', 'jk'),
                                                A('at', 'nj')])])
        if k in ('max', 'min'):
            return A(k, '', 0, [self.int_leaf(), self.flt_leaf()]
                     if rng.random() < 0.7 else [self.leaf(), self.leaf()])
        if k == 'cmp':
            return A('cmp', rng.choice(CMP), 0, [self.leaf(), self.leaf()])
        if k in ('and', 'or'):
            return A(k, '', 0, [self.leaf(), self.leaf()])
        if k == 'not':
            return A('not', '', 0, [rng.choice([A('dp', 'u'), A('dp', 'jk'),
                                                A('dp', 'ik')])])
        if k == 'uneg':
            pool = [n for n in readable if self.slots[n][0] == 'uint']
            if not pool:
                return A('abs', '', 0, [A('dp', 'u')])
            n = rng.choice(pool)
            return A('uneg', '', 0, [A('dp', n, rng.randrange(
                self.slots[n][1]))])
        return A('ovf')

    def atom(self, hook, readable, nonneg, lets, depth=0):
        rng = self.rng
        if depth == 0 and not nonneg and rng.random() < 0.16:
            return self.op_atom(readable)
        menu = ['dp', 'dp', 'at', 'atv', 't', 'dt', 'dc']
        if lets:
            menu += ['mat', 'hvm']
        if depth == 0:
            menu += ['h2']
        if hook in ('initialize_pair', 'loop_all', 'loop'):
            menu += ['sc']
        if hook in ('loop_all', 'loop'):
            menu += ['nn']
        if hook == 'loop_all':
            menu += ['nsum', 'nsum']
        if hook == 'loop':
            menu += ['sp', 'sp', 'sym', 'sym', 'sym', 'sym', 'vec', 'vec',
                     'rsq', 'kw', 'hv']
            if self.d1:
                menu += ['rij']
        if nonneg:
            menu = [m for m in menu if m not in ('mat', 'hvm', 'h2', 'vec',
                                                 'kw', 'hv')]
        k = rng.choice(menu)
        if hook == 'loop' and self.must and rng.random() < 0.7:
            s = self.must[-1]
            if s in RAT_SYMS or (nonneg and s not in ('HIJ', 'R2IJ', 'RHOIJ',
                                                      'RIJ')):
                self.must.insert(0, self.must.pop())   # try another one later
            elif s == 'RIJ':
                self.must.pop()
                self.feat('sym:RIJ')
                return A('rij') if self.d1 and rng.random() < 0.5 else A('rsq')
            elif s in VEC_SYMS and not nonneg:
                self.must.pop()
                self.feat('sym:' + s)
                if rng.random() < 0.3 and depth == 0:
                    return A('hv', s)
                return A('sym', s, rng.randrange(3))
            elif s in ('HIJ', 'R2IJ', 'RHOIJ') or \
                    (s in SCALAR_SYMS and not nonneg):
                self.must.pop()
                self.feat('sym:' + s)
                return A('sym', s, 0)
        if k in ('dp', 'sp'):
            return self.slot_atom(k, readable, nonneg)
        if k == 'at':
            self.feat('attr')
            return A('at', rng.choice(['ca', 'ci']))
        if k == 'atv':
            self.feat('attr-array')
            return A('atv', 'cv', rng.randrange(2))
        if k in ('t', 'dt'):
            self.feat(k)
            return A(k)
        if k in ('dc', 'sc'):
            self.feat('const-array')
            return A(k, 'cin', rng.randrange(3))
        if k == 'mat':
            self.feat('matrix')
            return dict(A('mat', '', rng.randrange(3)), _b=lets)
        if k == 'hvm':
            self.feat('helper-array')
            return dict(A('hv', 'mt'), _b=lets)
        if k == 'h2':
            self.feat('helper')
            return A('h2', '', 0, [self.atom(hook, readable, nonneg, 0, 1),
                                   self.atom(hook, readable, nonneg, 0, 1)])
        if k == 'nn':
            self.feat('N_NBRS')
            return A('nn')
        if k == 'nsum':
            self.feat('NBRS')
            a = self.slot_atom('sp', readable, nonneg)
            return A('nsum', a['n'], a['i'])
        if k == 'sym':
            s = rng.choice(['HIJ', 'R2IJ', 'RHOIJ'] if nonneg else SCALAR_SYMS)
            self.feat('sym:' + s)
            return A('sym', s, 0)
        if k == 'vec':
            s = rng.choice(VEC_SYMS)
            self.feat('sym:' + s)
            return A('sym', s, rng.randrange(3))
        if k == 'hv':
            s = rng.choice(VEC_SYMS)
            self.feat('sym:' + s)
            self.feat('helper-array')
            return A('hv', s)
        if k == 'rsq':
            self.feat('sym:RIJ')
            return A('rsq')
        if k == 'rij':
            self.feat('sym:RIJ')
            return A('rij')
        if k == 'kw':
            self.feat('SPH_KERNEL')
            return A('kw', '', 0, [rng.choice([A('dp', 'h'), A('sp', 'h'),
                                               A('sym', 'HIJ')])])
        raise ValueError(k)

    def expr(self, hook, readable, nonneg, lets, bd, limit, nterms=None):
        rng = self.rng
        for attempt in range(30):
            e = []
            for j in range(nterms or rng.randint(1, 3)):
                c = rng.randint(1, 3) if nonneg else \
                    rng.choice([-3, -2, -1, 1, 1, 2, 3])
                nf = rng.choice([0, 1, 1, 2]) if attempt < 20 else \
                    rng.choice([0, 1])
                e.append(dict(c=c, f=[self.atom(hook, readable, nonneg, lets)
                                      for i in range(nf)]))
            if bd.expr(e) <= limit:
                return e
        return [dict(c=1, f=[])]

    # -- one statement -------------------------------------------------------
    def stmt(self, hook, acc, readable, bd, mult):
        """mult: how often the statement runs on one slot within one pass."""
        rng = self.rng
        pair = hook in ('initialize_pair', 'loop_all', 'loop')
        if hook == 'loop' and rng.random() < 0.2:
            return self.rat_stmt()
        if rng.random() < 0.12 and hook in ('initialize', 'post_loop', 'loop',
                                            'loop_all'):
            tk, tn, tc, ty = 'dc', 'cacc', rng.randrange(4), 'double'
            op = 'add'
            mult = mult * NMAX
        else:
            tn = rng.choice(sorted(acc if pair else self.slots))
            ty, stride = self.slots[tn]
            tk, tc = 'dp', rng.randrange(stride)
            if hook == 'loop':
                op = 'add'
            else:
                op = rng.choice(['set', 'add', 'nc', 'nc'])
        nonneg = ty == 'uint'
        cur = bd.C['cacc'] if tk == 'dc' else bd.B[tn]
        lim = LIM[ty]
        if op == 'nc':
            room = (lim - cur * (2 ** mult)) // max(1, 2 ** mult - 1)
        elif op == 'add':
            room = (lim - cur) // mult
        else:
            room = lim
        room = min(room, 1 << 24)
        if room < 8:
            op, room = 'set', 64
        lets = []
        lb = 0
        if not nonneg and rng.random() < 0.25:
            lets = [self.expr(hook, readable, False, 0, bd, 2000, 1)
                    for i in range(3)]
            lb = max(bd.expr(l) for l in lets)
        e = self.expr(hook, readable, nonneg, lb, bd, room)
        if lets and not any(a['k'] == 'mat' or (a['k'] == 'hv' and
                                               a['n'] == 'mt')
                            for tm in e for a in tm['f']):
            extra = dict(c=1, f=[dict(A('mat', '', rng.randrange(3)), _b=lb)])
            if bd.expr(e + [extra]) <= room:
                e.append(extra)
                self.feat('matrix')
            else:
                lets = []
        eb = bd.expr(e)
        if op == 'set':
            new = max(cur, eb)
        elif op == 'add':
            new = cur + eb * mult
        else:
            new = cur * (2 ** mult) + eb * (2 ** mult - 1)
        if tk == 'dc':
            bd.C['cacc'] = new
        else:
            bd.B[tn] = new
        self.feat('write:%s/%s' % (ty, self.slots[tn][1] if tk == 'dp' else 'const'))
        self.feat('op:' + op)
        return dict(tk=tk, tn=tn, tc=tc, op=op, lets=strip(lets), e=strip(e))

    def rat_stmt(self):
        rng = self.rng
        tn = rng.choice(sorted(self.rats))
        e = []
        for j in range(rng.randint(1, 2)):
            want = [s for s in self.must if s in RAT_SYMS]
            s = want[0] if want else rng.choice(RAT_SYMS)
            if s in self.must:
                self.must.remove(s)
            self.feat('sym:' + s)
            f = [A('sym', s)]
            if rng.random() < 0.7:
                f.append(rng.choice([A('sp', 'm'), A('dp', 'm'), A('sym', 'HIJ'),
                                     A('sym', 'RHOIJ'), A('sp', 'h')]))
            e.append(dict(c=rng.randint(1, 3), f=f))
        if rng.random() < 0.6 or not self.feats.get('pow:int-negint'):
            # integer / float base to a negative, non-literal integer power
            b = rng.choice([A('il', '', 2), A('il', '', -2), A('il', '', 5),
                            A('c', '', 2), A('c', '', -2)])
            if not self.feats.get('pow:int-negint'):
                b = A('il', '', rng.choice([2, -2, 5]))
            self.feat('pow:int-negint' if b['k'] == 'il' else 'pow:flt-negint')
            f = [A('powq', '', 0, [b, A('at', 'ni')])]
            if rng.random() < 0.5:
                f.append(rng.choice([A('sp', 'm'), A('dp', 'm')]))
            e.append(dict(c=rng.randint(1, 3), f=f))
            self.feat('op:pow-negative')
        if self.idiv and rng.random() < 0.8:
            # `/` between two integer-typed operands: integer literal,
            # integer-valued instance attribute, int-typed property
            num = rng.choice([A('il', '', rng.randint(1, 7)), A('at', 'ci'),
                              A('at', 'cj'), A('dp', 'ik'), A('sp', 'ik')])
            den = rng.choice([A('il', '', rng.randint(2, 6)), A('at', 'ci'),
                              A('at', 'cj')])
            f = [A('idiv', '', 0, [num, den])]
            if rng.random() < 0.5:
                f.append(rng.choice([A('sp', 'm'), A('dp', 'm')]))
            e.append(dict(c=rng.randint(1, 3), f=f))
            self.feat('int/int:%s/%s' % (num['k'] + num['n'],
                                         den['k'] + den['n']))
        self.feat('write:rational')
        return dict(tk='dp', tn=tn, tc=rng.randrange(self.rats[tn]),
                    op='radd', lets=[], e=e)

    def py_stmt(self, hook, bd):
        rng = self.rng
        if hook == 'py_initialize':
            e = [dict(c=rng.randint(1, 2), f=[rng.choice(
                [A('t'), A('dt'), A('at', 'ca'), A('atv', 'cv', 1)])]),
                dict(c=1, f=[])]
            bd.C['cin'] = max(bd.C['cin'], 2 * 9 + 1)
            self.feat('py_initialize')
            return dict(tk='dc', tn='cin', tc=rng.randrange(3), op='set',
                        lets=[], e=e)
        pool = [n for n in sorted(self.slots)
                if bd.B[n] * NMAX * 3 * 3 + bd.C['cacc'] < (1 << 29)]
        e = [dict(c=1, f=[A('dc', 'cacc', rng.randrange(4))])]
        if pool:
            e.append(dict(c=rng.randint(1, 3),
                          f=[A('psum', rng.choice(pool))]))
        bd.C['cacc'] = bd.C['cacc'] + bd.expr(e[1:])
        self.feat('reduce')
        return dict(tk='dc', tn='cacc', tc=rng.randrange(4), op='set',
                    lets=[], e=e)

    # -- program -----------------------------------------------------------
    def module(self):
        rng = self.rng
        na = self.na
        spec = dict(mid=self.mid, na=na, d1=self.d1, idiv=self.idiv,
                    slots=self.slots,
                    rats=self.rats, consts=dict(cin=3, cacc=4))
        bd = Bounds(spec)
        prog = []
        body = {}
        eid = 0
        ngroups = max(3, self.neq // 3)
        sizes = [self.neq // ngroups + (1 if i < self.neq % ngroups else 0)
                 for i in range(ngroups)]
        for gi, neq in enumerate(sizes):
            g = dict(gid=1001 + gi, real=rng.random() < 0.6, start=0, stop=-1,
                     sprop=False, pprop=False, iterate=False, minit=0,
                     maxit=1, hascond=False, haspre=False, haspost=False,
                     upd=rng.random() < 0.15, sub=[], eqs=[])
            mode = rng.choice(['none', 'none', 'none', 'start', 'stop',
                               'sprop', 'pprop'])
            if mode == 'start':
                g['start'] = 1
            elif mode == 'stop':
                g['stop'] = 2
            elif mode == 'sprop':
                g['sprop'] = True
            elif mode == 'pprop':
                g['pprop'] = True
            self.feat('range:' + mode)
            npass = 1
            if rng.random() < 0.25:
                npass = 2
                g.update(iterate=True, minit=2, maxit=2)
                self.feat('iterate')
            if not g['real']:
                self.feat('real=False')
            # accumulator slots of each destination of this group
            acc = {}
            for d in range(na):
                names = sorted(self.slots)
                rng.shuffle(names)
                acc[d] = set(names[:5])
            eqs = []
            for k in range(neq):
                eid += 1
                dest = rng.randrange(na)
                hooks = set(['loop'] if rng.random() < 0.8 else [])
                for h, p in (('initialize', 0.5), ('post_loop', 0.4),
                             ('initialize_pair', 0.2), ('loop_all', 0.25),
                             ('py_initialize', 0.15), ('reduce', 0.15)):
                    if rng.random() < p:
                        hooks.add(h)
                if not hooks:
                    hooks.add('loop')
                nsrc = rng.choice([1, 2, 2, min(3, na)])
                srcs = rng.sample(range(na), min(nsrc, na))
                if dest in srcs:
                    self.feat('dest-is-source')
                eqs.append(dict(eid=eid, dest=dest, srcs=srcs,
                                hooks=[h for h in HOOKS if h in hooks]))
                body[str(eid)] = dict(
                    attrs=dict(ca=rng.randint(1, 5), ci=rng.randint(1, 5),
                               cj=rng.randint(1, 5),
                               ni=rng.choice([-1, -2]),
                               nj=rng.randint(-9, -3),
                               be=rng.choice([20, 31, 32, 40]),
                               cv=[rng.randint(1, 9), rng.randint(1, 9)]),
                    **dict((h, []) for h in HOOKS))
            g['eqs'] = eqs
            # statements, generated in execution order so that the bounds
            # follow the data flow; an iterated group is generated once and
            # its effect on the bounds applied once more
            for p in range(npass):
                for d in [x for i, x in enumerate([e['dest'] for e in eqs])
                          if x not in [e['dest'] for e in eqs][:i]]:
                    E = [e for e in eqs if e['dest'] == d]
                    readable = [n for n in sorted(self.slots)
                                if n not in acc[d]]
                    allsrc = []
                    for e in E:
                        for s in e['srcs']:
                            if s not in allsrc:
                                allsrc.append(s)
                    for h in ('py_initialize', 'initialize', 'PAIR',
                              'post_loop', 'reduce'):
                        hs = ['initialize_pair', 'loop_all', 'loop'] \
                            if h == 'PAIR' else [h]
                        for hh in hs:
                            for e in E:
                                if hh not in e['hooks']:
                                    continue
                                b = body[str(e['eid'])]
                                if p == 0:
                                    n = 1 if hh in ('py_initialize', 'reduce') \
                                        else rng.randint(1, 2)
                                    for i in range(n):
                                        b[hh].append(self.mk(
                                            hh, e, acc[d], readable, bd))
                                else:
                                    self.replay(hh, e, b[hh], bd)
            prog.append(g)
        # every module raises an integer to a negative non-literal power
        for g in prog:
            for e in g['eqs']:
                if 'loop' in e['hooks'] and \
                        not self.feats.get('pow:int-negint'):
                    body[str(e['eid'])]['loop'].append(self.rat_stmt())
        inside = all(bd.B[n] <= LIM[self.slots[n][0]] for n in self.slots) \
            and bd.C['cacc'] <= (1 << 30) and bd.C['cin'] <= 64
        spec.update(prog=prog, body=body, feats=self.feats,
                    unread=list(self.must), inside=inside)
        return spec

    def mk(self, hook, e, acc, readable, bd):
        if hook in ('py_initialize', 'reduce'):
            return self.py_stmt(hook, bd)
        ns = len(e['srcs'])
        mult = {'initialize': 1, 'post_loop': 1, 'initialize_pair': ns,
                'loop_all': ns, 'loop': ns * NMAX}[hook]
        s = self.stmt(hook, acc, readable, bd, mult)
        s['_mult'] = mult
        return s

    def replay(self, hook, e, stmts, bd):
        """Second pass of an iterated group: the bounds grow once more."""
        for s in stmts:
            if s['op'] == 'radd':
                continue
            mult = s.get('_mult', 1)
            if s['tk'] == 'dc' and s['tn'] == 'cacc' and \
                    hook not in ('py_initialize', 'reduce'):
                mult = mult * NMAX
            eb = bd.expr(unstrip(s, bd))
            if s['tk'] == 'dc':
                cur = bd.C[s['tn']]
            else:
                cur = bd.B[s['tn']]
            if s['op'] == 'set':
                new = max(cur, eb)
            elif s['op'] == 'add':
                new = cur + eb * mult
            else:
                new = cur * (2 ** mult) + eb * (2 ** mult - 1)
            if s['tk'] == 'dc':
                bd.C[s['tn']] = new
            else:
                bd.B[s['tn']] = new


def strip(x):
    """Drop the generator's private fields (_b)."""
    if isinstance(x, list):
        return [strip(v) for v in x]
    if isinstance(x, dict):
        return dict((k, strip(v)) for k, v in x.items()
                    if not k.startswith('_'))
    return x


def unstrip(s, bd):
    """Expression of a statement with conservative bounds for mt[]."""
    lb = max([bd.expr(l) for l in s['lets']] or [0])

    def fix(a):
        a = dict(a)
        if a['k'] in ('mat', 'hv'):
            a['_b'] = lb
        a['a'] = [fix(v) for v in a['a']]
        return a
    return [dict(c=tm['c'], f=[fix(a) for a in tm['f']]) for tm in s['e']]


def gen_module(rng, mid, d1=False, neq=10, idiv=False):
    for attempt in range(50):
        g = Gen(rng, mid, d1=d1, neq=neq, idiv=idiv)
        spec = g.module()
        for b in spec['body'].values():
            for h in HOOKS:
                for s in b[h]:
                    s.pop('_mult', None)
        # every bound must have stayed inside the exact range
        if spec.pop('inside'):
            return spec
    raise RuntimeError('could not generate a bounded module')


def gen_data(rng, spec, dim, rid):
    """One lattice data set for a module."""
    na = spec['na']
    size = {1: 9, 2: 5, 3: 4}[dim]
    arr = []
    for a in range(na):
        nall = rng.randint(2, NMAX if dim == 1 else 5)
        nreal = rng.randint(max(1, nall - 2), nall)
        p = {}
        p['x'] = [rng.randint(0, size) for i in range(nall)]
        p['y'] = [rng.randint(0, size) if dim > 1 else 0 for i in range(nall)]
        p['z'] = [rng.randint(0, size) if dim > 2 else 0 for i in range(nall)]
        p['h'] = [rng.choice([2, 2, 6]) for i in range(nall)]
        p['m'] = [rng.randint(1, 4) for i in range(nall)]
        p['rho'] = [rng.choice([2, 4, 6]) for i in range(nall)]
        for n in 'uvw':
            p[n] = [rng.randint(-3, 3) for i in range(nall)]
        p['ik'] = [rng.randint(0, 9) for i in range(nall)]
        p['jk'] = [rng.randint(-9, 9) for i in range(nall)]
        for n, (ty, st) in spec['slots'].items():
            p[n] = [rng.randint(0, 3) for i in range(nall * st)]
        for n, st in spec['rats'].items():
            p[n] = [[rng.randint(0, 2), 1] for i in range(nall * st)]
        stv = rng.randint(0, 1)
        spv = rng.randint(stv, nall)
        arr.append(dict(nreal=nreal, nall=nall, stv=stv, spv=spv, p=p,
                        c=dict(cin=[rng.randint(1, 3) for i in range(3)],
                               cacc=[0, 0, 0, 0])))
    gids, eids = [], []
    for g in spec['prog']:
        gids.append(g['gid'])
        eids += [e['eid'] for e in g['eqs']]
    env = dict(cond=dict((str(k), [True] * 4) for k in gids),
               conv=dict((str(k), [True] * 4) for k in eids))
    return dict(rid=rid, dim=dim, t=rng.randint(0, 5), dt=rng.randint(1, 4),
                kern=dict(ka=rng.randint(1, 5), dim=dim), arr=arr, env=env)


def static_part(spec):
    """Fields of a TLC case that do not depend on the data set."""
    stride = dict((n, 1) for n in BASE)
    types = dict((n, 'int' if n in INT_BASE else 'double') for n in BASE)
    for n, (ty, st) in spec['slots'].items():
        stride[n] = st
        types[n] = ty
    for n, st in spec['rats'].items():
        stride[n] = st
        types[n] = 'double'
    for n in spec['consts']:
        types[n] = 'double'
    return dict(prog=spec['prog'], body=spec['body'], stride=stride,
                types=types, rat=sorted(spec['rats']),
                idiv=bool(spec.get('idiv')),
                cops=['div', 'floor', 'ovf'] if spec.get('idiv') else [])


# ---------------------------------------------------------------------------
# rendering as Python source
# ---------------------------------------------------------------------------
HEADER = '''"""Generated by checks/c02_probes.py - probe equations of module %(mid)s."""
from math import floor
import numpy
from compyle.api import declare
from pysph.sph.equation import Equation
from pysph.base.reduce_array import serial_reduce_array


def pk_h2(a=1.0, b=1.0):
    return a*b + 2.0*a - b


def pk_hv(x=[1.0, 1.0], n=1):
    i = declare('int')
    r = 0.0
    for i in range(n):
        r += (i + 1)*x[i]
    return r

'''


class Render(object):
    def __init__(self, spec, swap_ds=False):
        self.spec = spec
        self.stride = static_part(spec)['stride']
        self.swap = swap_ds     # selftest: d_<base> <-> s_<base> inside loop
        self.cur = None

    def lit(self, c):
        return '%d.0' % c if c >= 0 else '(%d.0)' % c

    def idx(self, base, n, comp):
        st = self.stride[n]
        if st == 1:
            return base
        return '%s*%d + %d' % (base, st, comp)

    def atom(self, a, use, py=False):
        k = a['k']
        if k == 'c':
            return self.lit(a['i'])
        if k == 'il':
            return '%d' % a['i'] if a['i'] >= 0 else '(%d)' % a['i']
        if k in ('pow', 'powq'):
            return '(%s**%s)' % (self.atom(a['a'][0], use),
                                 self.atom(a['a'][1], use))
        if k == 'mod':
            return '(%s %% %s)' % (self.atom(a['a'][0], use),
                                   self.atom(a['a'][1], use))
        if k == 'fdiv':
            return '(%s // %s)' % (self.atom(a['a'][0], use),
                                   self.atom(a['a'][1], use))
        if k in ('abs', 'max', 'min'):
            return '%s(%s)' % (k, ', '.join(self.atom(v, use)
                                            for v in a['a']))
        if k == 'cmp':
            return '(%s %s %s)' % (self.atom(a['a'][0], use), CMP_SRC[a['n']],
                                   self.atom(a['a'][1], use))
        if k in ('and', 'or'):
            return '(%s %s %s)' % (self.atom(a['a'][0], use), k,
                                   self.atom(a['a'][1], use))
        if k == 'not':
            return '(not %s)' % self.atom(a['a'][0], use)
        if k == 'uneg':
            return '((-%s) %% 1024)' % self.atom(a['a'][0], use)
        if k == 'ovf':
            return '(((self.bi*self.bi)/self.bi)/self.bi)'
        if k == 'idiv':
            return '(%s/%s)' % (self.atom(a['a'][0], use),
                                self.atom(a['a'][1], use))
        if k in ('dp', 'sp'):
            pre = k[0]
            if self.swap and self.cur == 'loop' and a['n'] in BASE:
                pre = 'd' if pre == 's' else 's'      # seeded fault
            use.add('%s_%s' % (pre, a['n']))
            use.add('%s_idx' % pre)
            return '%s_%s[%s]' % (pre, a['n'], self.idx(pre + '_idx', a['n'],
                                                        a['i']))
        if k in ('dc', 'sc'):
            if py:
                return 'dst.%s[%d]' % (a['n'], a['i'])
            use.add('%s_%s' % (k[0], a['n']))
            return '%s_%s[%d]' % (k[0], a['n'], a['i'])
        if k == 'sym':
            use.add(a['n'])
            if a['n'] in VEC_SYMS:
                return '%s[%d]' % (a['n'], a['i'])
            return a['n']
        if k == 'rsq':
            use.add('RIJ')
            return 'floor(RIJ*RIJ + 0.5)'
        if k == 'rij':
            use.add('RIJ')
            return 'RIJ'
        if k == 'at':
            return 'self.%s' % a['n']
        if k == 'atv':
            return 'self.%s[%d]' % (a['n'], a['i'])
        if k in ('t', 'dt'):
            use.add(k)
            return k
        if k == 'mat':
            return 'mt[%d]' % a['i']
        if k == 'nn':
            use.add('N_NBRS')
            return 'N_NBRS'
        if k == 'nsum':
            use.add('NBRS')
            use.add('N_NBRS')
            use.add('s_' + a['n'])
            key = (a['n'], a['i'])
            if key not in self.nsums:
                self.nsums.append(key)
            return 'ns%d' % self.nsums.index(key)
        if k == 'psum':
            return "serial_reduce_array(dst.%s, 'sum')" % a['n']
        if k == 'h2':
            return 'pk_h2(%s, %s)' % (self.atom(a['a'][0], use),
                                      self.atom(a['a'][1], use))
        if k == 'hv':
            if a['n'] != 'mt':
                use.add(a['n'])
            return 'pk_hv(%s, 3)' % a['n']
        if k == 'kw':
            use.update(['SPH_KERNEL', 'XIJ', 'RIJ'])
            return 'SPH_KERNEL.kernel(XIJ, RIJ, %s)' % self.atom(a['a'][0],
                                                                 use)
        raise ValueError(k)

    def expr(self, e, use, py=False):
        ts = []
        for tm in e:
            ts.append('*'.join([self.lit(tm['c'])] +
                               [self.atom(a, use, py) for a in tm['f']]))
        return ' + '.join(ts) if ts else '0.0'

    def stmt(self, s, use, py=False):
        out = []
        for k, l in enumerate(s['lets']):
            out.append('mt[%d] = %s' % (k, self.expr(l, use)))
        if py:
            tgt = 'dst.%s[%d]' % (s['tn'], s['tc'])
            ty = 'double'
        elif s['tk'] == 'dc':
            use.add('d_' + s['tn'])
            tgt = 'd_%s[%d]' % (s['tn'], s['tc'])
            ty = 'double'
        else:
            use.add('d_' + s['tn'])
            use.add('d_idx')
            tgt = 'd_%s[%s]' % (s['tn'], self.idx('d_idx', s['tn'], s['tc']))
            ty = self.spec['slots'].get(s['tn'], ('double', 1))[0]
        e = self.expr(s['e'], use, py)
        if s['op'] == 'nc':
            e = '2.0*%s + %s' % (tgt, e)
        if ty in INT_TYPES:
            e = 'int(%s)' % e
        out.append('%s %s %s' % (tgt, '+=' if s['op'] in ('add', 'radd')
                                 else '=', e))
        return out

    def hook(self, name, stmts):
        if name in ('py_initialize', 'reduce'):
            lines = []
            for s in stmts:
                lines += self.stmt(s, set(), py=True)
            return ['    def %s(self, dst, t, dt):' % name] + \
                ['        ' + l for l in (lines or ['pass'])] + ['']
        use = set()
        self.nsums = []
        self.cur = name
        lines = []
        for s in stmts:
            lines += self.stmt(s, use)
        pre = []
        if any(s['lets'] for s in stmts):
            pre.append("mt = declare('matrix(3)')")
        if self.nsums:
            pre += ["i = declare('int')", "j = declare('long')"]
            for k, (n, comp) in enumerate(self.nsums):
                pre += ['ns%d = 0.0' % k, 'for i in range(N_NBRS):',
                        '    j = NBRS[i]',
                        '    ns%d += s_%s[%s]' % (k, n, self.idx('j', n, comp))]
        order = ['d_idx', 's_idx']
        args = [a for a in order if a in use or a == 'd_idx'
                or (a == 's_idx' and name == 'loop')]
        args += sorted(a for a in use if a not in order)
        return ['    def %s(self, %s):' % (name, ', '.join(args))] + \
            ['        ' + l for l in (pre + lines or ['pass'])] + ['']

    def source(self):
        src = [HEADER % dict(mid=self.spec['mid'])]
        for g in self.spec['prog']:
            for e in g['eqs']:
                b = self.spec['body'][str(e['eid'])]
                src += ['class Pq%d(Equation):' % e['eid'],
                        '    def __init__(self, dest, sources, ca=1.0, ci=1, '
                        'cj=1, ni=-1, nj=-3, bi=1, cv=None):',
                        '        self.ca = ca',
                        '        self.ci = ci',
                        '        self.cj = cj',
                        '        self.ni = ni',
                        '        self.nj = nj',
                        '        self.bi = bi',
                        '        self.cv = numpy.asarray(cv, dtype=float)',
                        '        super(Pq%d, self).__init__(dest, sources)'
                        % e['eid'], '',
                        '    def _get_helpers_(self):',
                        '        return [pk_h2, pk_hv]', '']
                for h in HOOKS:
                    if h in e['hooks']:
                        src += self.hook(h, b[h])
                src.append('')
        return '\n'.join(src)
