"""C13 - the small dense linear-algebra helpers solve what they are given.

Design:   TLC checks LinAlgMC.tla: the operators of LinAlg.tla (Det by
          Bareiss and by Laplace, adjugate, Cramer, elimination without row
          exchange, flat layouts, characteristic polynomial / discriminant of
          symmetric 3x3 matrices) against their defining laws on all 2x2
          matrices with entries in -2..2, all 3x3 with entries in -1..1 and
          all symmetric 3x3 with entries in -2..2.
Binding:  families of integer systems (exhaustive for n <= 2, sampled or
          exhaustive for n = 3, constructed families for n <= 6, each also
          under exact power-of-two row/column scalings) are run through the
          real gj_solve / mat_mult / ... (as Python and transpiled through a
          probe equation) and the real linalg3 eigen helpers; the recorded
          results (scaled integers) are judged by TraceLinAlg.tla, which
          prints one VERDICT [id, failed, known, cls] per case.
Python only generates inputs, drives the code and dispatches on VERDICTs.
"""
import hashlib
import itertools
import json
import os
import random
import shutil
import sys
import threading
import time
from concurrent.futures import ThreadPoolExecutor
from fractions import Fraction

sys.path.insert(0, os.path.dirname(os.path.dirname(os.path.abspath(__file__))))
from mbv import tlc                                   # noqa: E402
from mbv.harness import Check, MachineryError, main   # noqa: E402

R2 = (-2, -1, 0, 1, 2)
DRIVER = 'checks/c13_driver.py'

SIZES = {
    'quick': dict(n3=3000, n3_exhaustive=False, fam=2, scaled=0.35,
                  cy=2000, eig_mats=1500, eig_scales=(0, 26, -26, 7, -13),
                  eig_aux=800, hl=900, xf=400, design='LinAlg.small.cfg'),
    'thorough': dict(n3=200000, n3_exhaustive=True, fam=30, scaled=0.35,
                     cy=40000, eig_mats=None,
                     eig_scales=(0, 26, -26, 7, -13, 1, -1, 20, -20),
                     eig_aux=4000, hl=6000, xf=3000,
                     design='LinAlg.full.cfg'),
}


# ---------------------------------------------------------------------------
# input generation (exact rational arithmetic is used only to size the
# quantisation of a case, never to judge a result)
def exact_solve(A, B):
    n = len(A)
    M = [[Fraction(x) for x in A[i]] + [Fraction(x) for x in B[i]]
         for i in range(n)]
    for k in range(n):
        p = next((r for r in range(k, n) if M[r][k] != 0), None)
        if p is None:
            return None
        M[k], M[p] = M[p], M[k]
        for r in range(n):
            if r != k and M[r][k] != 0:
                f = M[r][k] / M[k][k]
                M[r] = [a - f * b for a, b in zip(M[r], M[k])]
    return [[M[i][n + j] / M[i][i] for j in range(len(B[0]))]
            for i in range(n)]


def matmul(A, X):
    return [[sum(A[i][k] * X[k][j] for k in range(len(X)))
             for j in range(len(X[0]))] for i in range(len(A))]


class Gen(object):
    def __init__(self, rng):
        self.rng = rng
        self.cases = []
        self.skipped = 0

    def add(self, c):
        c['id'] = '%s%d' % (c['kind'], len(self.cases))
        self.cases.append(c)

    def gj(self, fam, A, B, re=None, ce=None, X0=None, form='py', den=1):
        n, nb = len(A), len(B[0])
        re = list(re) if re else [0] * n
        ce = list(ce) if ce else [0] * n
        rowabs = max(max(sum(abs(x) for x in r) for r in A), 1)
        bmax = max(max(abs(x) for x in r) for r in B)
        if X0 is not None:
            mode = 'exact'
            xmax = max(max(abs(x) for x in r) for r in X0)
            q = 20
            while (2 ** q) * (xmax + 1) * 2 >= 2 ** 29:
                q -= 1
            lim = (2 ** q) * (xmax + 1) * 2
        else:
            mode = 'resid'
            X0 = [[0] * nb for i in range(n)]
            X = exact_solve(A, B)
            if X is None:
                q, lim = 20, 2 ** 29 // rowabs
            else:
                xmax = max(max(abs(x) for x in r) for r in X)
                q = 20
                while q >= 6:
                    lim = int(2 * (xmax + 1) * 2 ** q) + 1
                    if lim * rowabs < 2 ** 29 and bmax * 2 ** q < 2 ** 29:
                        break
                    q -= 1
                else:
                    self.skipped += 1
                    return
        self.add(dict(kind='gj', fam=fam, form=form, n=n, nb=nb,
                      A=[list(r) for r in A], B=[list(r) for r in B],
                      re=re, ce=ce, q=q, lim=lim, mode=mode, den=den,
                      X0=[list(r) for r in X0]))

    def hl(self, op, n, a, b, na=0, nmax=None, form='py'):
        self.add(dict(kind='hl', form=form, op=op, n=n, na=na,
                      nmax=nmax if nmax is not None else n,
                      a=list(a), b=list(b)))

    def eig(self, fn, A, s):
        self.add(dict(kind='eig', fn=fn, A=[list(r) for r in A], s=s))

    def xf(self, op, P, d, A):
        self.add(dict(kind='xf', op=op, P=P, d=d, A=A))

    # -- random pieces ----------------------------------------------------
    def mat(self, n, m=None, lo=-2, hi=2):
        m = n if m is None else m
        return [[self.rng.randint(lo, hi) for j in range(m)]
                for i in range(n)]

    def rhs(self, n):
        nb = self.rng.choice((1, 1, 1, 2, 3))
        return self.mat(n, nb)

    def scal(self, n, big=20):
        """Exact power-of-two scalings; the spread between the largest and
        the smallest factor stays <= 2^(2*big) so that a solver with any
        reasonable *relative* singularity threshold must still accept the
        system."""
        r = self.rng
        how = r.random()
        z = [0] * n
        if how < 0.4:
            return [r.randint(-big, big) for i in range(n)], z
        if how < 0.6:
            return [r.choice((-big, 0, big)) for i in range(n)], z
        if how < 0.8:
            return z, [r.randint(-big, big) for i in range(n)]
        h = big // 2
        return ([r.randint(-h, h) for i in range(n)],
                [r.randint(-h, h) for i in range(n)])


def fits32(A, B, re):
    """Input filter: would TLC's 32-bit evaluation of Det (Bareiss, first
    non-zero pivot), PivotedElim (largest scaled pivot) and Adj stay below
    2^29?  Simulated with Python integers."""
    n = len(A)
    lim = 2 ** 29
    if any(abs(x) >= lim for r in B for x in r):
        return False

    def elim(pivoted):
        M = [list(r) for r in A]
        e = list(re)
        prev = 1
        for k in range(n - 1):
            rows = [r for r in range(k, n) if M[r][k] != 0]
            if not rows:
                return True
            if pivoted:
                p = max(rows, key=lambda r: (Fraction(abs(M[r][k]))
                                             * Fraction(2) ** e[r], -r))
            else:
                p = rows[0]
            M[k], M[p] = M[p], M[k]
            e[k], e[p] = e[p], e[k]
            for i in range(k + 1, n):
                for j in range(k + 1, n):
                    t1, t2 = M[k][k] * M[i][j], M[i][k] * M[k][j]
                    if max(abs(t1), abs(t2), abs(t1 - t2)) >= lim:
                        return False
                    M[i][j] = (t1 - t2) // prev
            prev = M[k][k]
        return True

    def det(M):
        if len(M) == 1:
            return M[0][0]
        return sum((-1) ** j * M[0][j] * det(
            [r[:j] + r[j + 1:] for r in M[1:]])
            for j in range(len(M)) if M[0][j])
    if not (elim(False) and elim(True)):
        return False
    for i in range(n):
        for j in range(n):
            mn = [r[:j] + r[j + 1:] for k, r in enumerate(A) if k != i]
            if mn and abs(det(mn)) * n >= lim:
                return False
    return True


def cond_inf(R):
    import numpy
    R = numpy.array(R, dtype=float)
    return float(numpy.linalg.norm(R, numpy.inf)
                 * numpy.linalg.norm(numpy.linalg.inv(R), numpy.inf))


def pivot_order_family(g, count):
    """Well-conditioned systems (cond_inf <= 10 up to a uniform power-of-two
    factor) whose pivot column reads, top to bottom: zero, the large entry
    (+-3), entries of magnitude <= 1, and last a tiny non-zero entry
    2^-18 .. 2^-45.  Only the large entry is an acceptable pivot: taking
    the tiny one loses about tiny^-1 * 2^-53 in accuracy (the entries +-3
    make the multipliers inexact), or falls under the absolute threshold.
    Integer solutions: B = A X0.  In TLC's integers the last row is
    multiplied by 2^k (re[last] = g - k, the other rows re = g); k is
    limited by 32-bit arithmetic (fits32), which is why the accuracy
    variant has n <= 4 and the threshold variant (tiny < 2^-40, reached
    with g < 0) any n."""
    rng = g.rng
    made = 0
    tries = 0
    while made < count and tries < 200 * count:
        tries += 1
        accuracy = rng.random() < 0.6
        n = rng.randint(3, 4) if accuracy else rng.randint(3, 6)
        step2 = n >= 4 and rng.random() < 0.25    # structure met at step 2
        m = n - 1 if step2 else n
        # row r has its dominant entry +-3 in column dom[r]; row 1 in col 0
        cols = list(range(1, m))
        rng.shuffle(cols)
        dom = [cols[0], 0] + cols[1:]
        R = [[0] * m for i in range(m)]
        for r in range(m):
            R[r][dom[r]] = rng.choice((-3, 3))
            others = [c for c in range(1, m) if c != dom[r]]
            for c in rng.sample(others, min(len(others), rng.randint(1, 2))):
                R[r][c] = rng.choice((-1, 1))
        for r in range(2, m - 1):
            if rng.random() < 0.7:
                R[r][0] = rng.choice((-1, 1))
        ks = (23, 22, 21, 20, 19, 18) if accuracy else \
            (20, 18, 16, 14, 12, 10, 8)
        nbs = rng.choice((1, 1, 2, 3))
        for k in ks:
            real = [[Fraction(x) for x in r] for r in R]
            real[-1][0] = Fraction(1, 2 ** k)
            A = [list(r) for r in R]
            A[-1] = [x * 2 ** k for x in R[-1]]
            A[-1][0] = 1
            if accuracy:
                gexp = rng.choice((0, 0, -4, -12))
            else:
                gexp = k - rng.randint(41, 45)
                if gexp < -33:
                    continue
            re = [gexp] * m
            re[-1] = gexp - k
            if step2:
                d = rng.choice((-3, 3))
                A = [[d] + [0] * m] + [[0] + r for r in A]
                real = [[Fraction(d)] + [Fraction(0)] * m] + \
                    [[Fraction(0)] + r for r in real]
                re = [gexp] + re
            try:
                if cond_inf(real) > 10:
                    break
            except Exception:
                break
            # solutions in thirds: X0 / 3 with A X0 divisible by 3, i.e. the
            # columns of X0 are kernel vectors of A modulo 3
            ker = [z for z in itertools.product((0, 1, 2), repeat=n)
                   if any(z) and all(sum(a * b for a, b in zip(r, z)) % 3
                                     == 0 for r in A)]
            if not ker:
                break
            colsP = []
            for j in range(nbs):
                z = rng.choice(ker) if j == 0 or rng.random() < 0.7 \
                    else (0,) * n
                colsP.append([v - 3 * rng.randint(0, 1) for v in z])
            X0 = [[colsP[j][i] for j in range(nbs)] for i in range(n)]
            AP = matmul(A, X0)
            B = [[x // 3 for x in r] for r in AP]
            if exact_solve(A, B) is not None and fits32(A, B, re):
                fam = 'pivot-order-' + ('acc' if accuracy else 'thr')
                g.gj(fam, A, B, re=re, X0=X0, den=3)
                g.gj(fam, A, B, re=re, X0=X0, form='cy', den=3)
                made += 1
                break


def gj_families(g, sz):
    rng = g.rng
    k = sz['fam']
    # n = 1, exhaustive
    for a in R2:
        for b in R2:
            g.gj('n1', [[a]], [[b]])
    # n = 2, exhaustive over A, a fixed set of right-hand sides
    for e in itertools.product(R2, repeat=4):
        A = [[e[0], e[1]], [e[2], e[3]]]
        for b in ([1, 0], [0, 1], [1, 2], [-2, 1]):
            g.gj('n2', A, [[b[0]], [b[1]]])
        g.gj('n2', A, [[1, 0], [0, 1]])
        g.gj('n2', A, [[1, 0, 1], [0, 1, -2]])
    # n = 3
    for i in range(sz['n3']):
        g.gj('n3', g.mat(3), g.rhs(3))
    # zero leading pivots by construction
    for n in (2, 3, 4):
        for p in itertools.permutations(range(n)):
            for rep in range(k):
                A = [[0] * n for i in range(n)]
                for i in range(n):
                    A[i][p[i]] = rng.choice((-3, -2, -1, 1, 2, 3))
                g.gj('perm-diag', A, g.rhs(n))
    for rep in range(300 * k):
        n = rng.choice((2, 3, 3, 4, 4))
        A = g.mat(n)
        how = rng.random()
        if how < 0.4 or n == 2:
            A[0][0] = 0
        elif how < 0.8:
            f = rng.choice((-2, -1, 1, 2))
            A[0][0] = rng.choice((-1, 1))
            A[0][1] = rng.choice((-1, 0, 1))
            A[1][0], A[1][1] = f * A[0][0], f * A[0][1]
        else:
            A[0][0] = 0
            A[1][0] = 0
        g.gj('zero-pivot', A, g.rhs(n))
    # permuted diagonally dominant, integer solutions, n = 2..6
    for rep in range(250 * k):
        n = rng.randint(2, 6)
        A = [[0] * n for i in range(n)]
        for i in range(n):
            A[i][i] = rng.choice((-4, 4))
            for j in rng.sample([j for j in range(n) if j != i],
                                min(n - 1, rng.randint(0, 3))):
                A[i][j] = rng.choice((-1, 1))
        p = list(range(n))
        if rep % 5:
            rng.shuffle(p)
        A = [A[p[i]] for i in range(n)]
        X0 = g.mat(n, rng.choice((1, 1, 2, 3)), -3, 3)
        g.gj('perm-dd', A, matmul(A, X0), X0=X0)
    # singular by construction
    for rep in range(200 * k):
        n = rng.randint(2, 5)
        A = g.mat(n)
        how = rng.randint(0, 4)
        i, j = rng.sample(range(n), 2)
        if how == 0:
            A[i] = list(A[j])
        elif how == 1:
            A[i] = [0] * n
        elif how == 2:
            for r in range(n):
                A[r][i] = 0
        elif how == 3:
            u = [rng.randint(-1, 1) for r in range(n)]
            v = [rng.randint(-2, 2) for r in range(n)]
            A = [[u[r] * v[c] for c in range(n)] for r in range(n)]
        else:
            A[i] = [A[j][c] - A[(j + 1) % n][c] if abs(
                A[j][c] - A[(j + 1) % n][c]) <= 3 else 0 for c in range(n)]
        if rng.random() < 0.5:
            X0 = g.mat(n, 1, -2, 2)
            B = matmul(A, X0)           # consistent right-hand side
        else:
            B = g.rhs(n)
        g.gj('singular', A, B)
    # n = 4 residual mode; n = 4..6 with integer solutions
    for rep in range(400 * k):
        g.gj('n4', g.mat(4), g.rhs(4))
    for rep in range(500 * k):
        n = rng.randint(4, 6)
        A = g.mat(n)
        X0 = g.mat(n, rng.choice((1, 1, 2, 3)), -3, 3)
        g.gj('n456-int', A, matmul(A, X0), X0=X0)
    # a leading pivot that is tiny against the rest of its (equilibrated)
    # row: real row 0 = 2^-k * (a00, .., a0n-2, 2^k m)
    for rep in range(60 * k):
        n = rng.choice((2, 2, 3))
        kk = rng.choice((8, 16, 24))
        A = g.mat(n)
        A[0][0] = rng.choice((-3, -1, 1, 3))
        A[0][n - 1] = rng.choice((-1, 1)) * 2 ** kk
        X0 = g.mat(n, 1, -2, 2)
        g.gj('tiny-pivot', A, matmul(A, X0), re=[-kk] + [0] * (n - 1),
             X0=X0)
    pivot_order_family(g, 100 * k)


def gj_scaled(g, sz, base):
    """Exact power-of-two row/column scalings of already generated cases
    (the solution of the unscaled integer system is unchanged)."""
    rng = g.rng
    base = [c for c in base if not c['fam'].startswith('pivot-order')]
    for c in base:
        if c['fam'] == 'tiny-pivot' or rng.random() > sz['scaled']:
            continue
        re, ce = g.scal(c['n'])
        g.gj(c['fam'] + '+scaled', c['A'], c['B'], re=re, ce=ce,
             X0=c['X0'] if c['mode'] == 'exact' else None, den=c['den'])
    # uniformly tiny / huge systems (badly scaled in the absolute sense)
    for c in rng.sample(base, min(len(base), 120 * sz['fam'])):
        if c['fam'] == 'tiny-pivot':
            continue
        e = rng.choice((-48, -45, -42, -41, 40, 45))
        n = c['n']
        if rng.random() < 0.5:
            re, ce = [e] * n, [0] * n
        else:
            re, ce = [0] * n, [e] * n
        g.gj(c['fam'] + '+extreme', c['A'], c['B'], re=re, ce=ce,
             X0=c['X0'] if c['mode'] == 'exact' else None, den=c['den'])


def helper_cases(g, sz, form):
    rng = g.rng
    for rep in range(sz['hl'] if form == 'py' else sz['hl'] // 3):
        n = rng.randint(1, 6 if rep % 3 else 3)
        op = ('mm', 'mv', 'aug', 'id', 'dot', 'mm', 'aug')[rep % 7]
        lo, hi = (-3, 3) if rep % 2 else (-50, 50)
        if op == 'mm':
            g.hl(op, n, sum(g.mat(n, n, lo, hi), []),
                 sum(g.mat(n, n, lo, hi), []), form=form)
        elif op == 'mv':
            g.hl(op, n, sum(g.mat(n, n, lo, hi), []),
                 sum(g.mat(n, 1, lo, hi), []), form=form)
        elif op == 'dot':
            g.hl(op, n, sum(g.mat(n, 1, lo, hi), []),
                 sum(g.mat(n, 1, lo, hi), []), form=form)
        elif op == 'id':
            g.hl(op, n, [0], [0], form=form)
        else:
            nmax = rng.randint(n, 6)
            na = rng.randint(1, 3)
            g.hl(op, n, sum(g.mat(nmax, nmax, lo, hi), []),
                 sum(g.mat(n, na, lo, hi), []), na=na, nmax=nmax, form=form)


def sym3_all():
    for a, b, c, e, f, h in itertools.product(R2, repeat=6):
        yield [[a, b, c], [b, e, f], [c, f, h]]


def eig_cases(g, sz):
    rng = g.rng
    mats = list(sym3_all())
    special = [m for m in mats
               if sum(1 for x in (m[0][1], m[0][2], m[1][2]) if x) == 0
               or len(set(sum(m, []))) <= 2]
    if sz['eig_mats'] is None:
        chosen = mats
    else:
        chosen = special[:] + rng.sample(mats, sz['eig_mats'])
    scales = sz['eig_scales']
    for i, m in enumerate(chosen):
        if sz['eig_mats'] is None:
            ss = scales
        else:
            ss = (scales[0], scales[1 + i % (len(scales) - 1)])
        for s in ss:
            g.eig('eispack', m, s)
    for m in rng.sample(mats, sz['eig_aux']) + special[:60]:
        s = rng.choice(scales)
        g.eig('values', m, s)
        g.eig('valvec', m, s)


def xform_cases(g, sz):
    rng = g.rng
    for rep in range(sz['xf']):
        op = ('tdi', 'td', 'tr', 'det3')[rep % 4]
        P = g.mat(3, 3, -3, 3)
        d = [rng.randint(-5, 5) for i in range(3)]
        A = g.mat(3, 3, -4, 4)
        if op == 'det3':
            A = rng.choice(SYM3) if rep % 8 else g.mat(3, 3, -9, 9)
            A = [[A[min(i, j)][max(i, j)] for j in range(3)]
                 for i in range(3)]
        g.xf(op, P, d, A)


SYM3 = list(sym3_all())


def gen_cases(tier, rng):
    sz = SIZES[tier]
    g = Gen(rng)
    gj_families(g, sz)
    base = [c for c in g.cases if c['kind'] == 'gj' and c['form'] == 'py']
    gj_scaled(g, sz, base)
    # the transpiled form: a sample of every family through a probe equation
    allgj = [c for c in g.cases if c['kind'] == 'gj' and c['form'] == 'py']
    for c in rng.sample(allgj, min(len(allgj), sz['cy'])):
        c2 = dict(c, form='cy')
        g.add(c2)
    helper_cases(g, sz, 'py')
    helper_cases(g, sz, 'cy')
    eig_cases(g, sz)
    xform_cases(g, sz)
    return g.cases, g.skipped


# ---------------------------------------------------------------------------
def run_cases(chk, cases, nproc=14, mutant=None, tag=''):
    """Drive the real code over `cases` in parallel driver processes;
    returns (traces by id, list of (case, what) for crashed drivers)."""
    sc = chk.scratch
    py = [c for c in cases if c.get('form') != 'cy']
    cy = [c for c in cases if c.get('form') == 'cy']
    chunks = [py[i::nproc] for i in range(nproc)]
    if cy:
        chunks.append(cy)
    chunks = [c for c in chunks if c]
    crashed = []

    def one(arg):
        i, chunk = arg
        out = []
        todo = chunk
        rnd = 0
        while todo:
            fi = os.path.join(sc, '%scases-%d-%d.ndjson' % (tag, i, rnd))
            fo = os.path.join(sc, '%straces-%d-%d.ndjson' % (tag, i, rnd))
            with open(fi, 'w') as fp:
                for x in todo:
                    fp.write(json.dumps(x) + '\n')
            extra = ['--mutant', mutant] if mutant else []
            p = chk.run_py(DRIVER, [fi, fo] + extra, check=False)
            got = []
            if os.path.exists(fo):
                with open(fo) as fp:
                    for l in fp:
                        try:
                            got.append(json.loads(l))
                        except ValueError:
                            break
            out += got
            if p.returncode == 0 and len(got) == len(todo):
                break
            if p.returncode >= 0 and p.returncode != 0:
                raise MachineryError('driver failed rc=%d\n%s' % (
                    p.returncode, ((p.stdout or '')[-1500:] +
                                   (p.stderr or '')[-3000:])))
            if p.returncode == 0:
                raise MachineryError('driver wrote %d of %d traces' % (
                    len(got), len(todo)))
            # killed by a signal: the case after the last trace crashed
            crashed.append((todo[len(got)],
                            'driver died with signal %d' % -p.returncode))
            if todo[0].get('form') == 'cy':
                break       # one compiled batch: results of the rest are lost
            todo = todo[len(got) + 1:]
            rnd += 1
        return out

    with ThreadPoolExecutor(max_workers=len(chunks)) as ex:
        res = list(ex.map(one, enumerate(chunks)))
    traces = {}
    for r in res:
        for t in r:
            traces[t['id']] = t
    return traces, crashed


def validate(chk, traces, tag=''):
    sc = chk.scratch
    ok = [t for t in traces if 'error' not in t]
    # one JVM start costs as much as ~10000 cases
    per_batch = min(40000, max(1500, len(ok) // 28 + 1))
    files = []
    for kind in ('gj', 'hl', 'eig', 'xf'):
        ts = [t for t in ok if t['kind'] == kind]
        # families differ in cost: deal the cases round-robin
        nb = (len(ts) + per_batch - 1) // per_batch
        for i in range(nb):
            f = os.path.join(sc, '%sbatch-%s-%d.ndjson' % (tag, kind, i))
            with open(f, 'w') as fp:
                for t in ts[i::nb]:
                    fp.write(json.dumps(t) + '\n')
            files.append(f)
    try:
        verdicts, st = tlc.validate_batches('TraceLinAlg', 'TraceLinAlg.cfg',
                                            files, parallel=10)
    except tlc.TLCError as ex:
        raise MachineryError(str(ex))
    if len(verdicts) != len(ok):
        raise MachineryError('verdict count %d != traces %d' % (
            len(verdicts), len(ok)))
    return verdicts, st


BULK_B = [[1, 0], [-2, 1], [2, 1]]
BULK_Q = 19
BULK_LIM = 2 * 49 * 2 ** 19      # |x| <= 8 * (1 + 2 + 2) / |det| <= 40


def n3_matrix(index):
    """Same enumeration as checks/c13_driver.py n3_matrix."""
    e = []
    for k in range(9):
        e.append(index % 5 - 2)
        index //= 5
    e.reverse()
    return [e[0:3], e[3:6], e[6:9]]


def bulk_case(index):
    return dict(kind='gj', fam='n3-all', form='py', n=3, nb=len(BULK_B[0]),
                A=n3_matrix(index), B=BULK_B, re=[0, 0, 0], ce=[0, 0, 0],
                q=BULK_Q, lim=BULK_LIM, mode='resid', den=1,
                X0=[[0] * len(BULK_B[0])] * 3,
                id='x%d' % index)


def run_bulk_n3(chk, stats, nproc=10):
    """All 5^9 3x3 systems with entries in -2..2 and one right-hand side:
    the driver expands index ranges, its trace files go to TLC as they are,
    TLC prints the failing cases and per-class counts."""
    sc = chk.scratch
    total = 5 ** 9
    parts = 2 * nproc

    def one(k):
        lo, hi = k * total // parts, (k + 1) * total // parts
        fi = os.path.join(sc, 'bulk-cases-%d.ndjson' % k)
        fo = os.path.join(sc, 'bulk-traces-%d.ndjson' % k)
        with open(fi, 'w') as fp:
            fp.write(json.dumps({'kind': 'bulk-n3', 'from': lo, 'to': hi,
                                 'B': BULK_B, 'q': BULK_Q,
                                 'lim': BULK_LIM}) + '\n')
        chk.run_py(DRIVER, [fi, fo])
        r = tlc.run('TraceLinAlg', 'TraceLinAlg.brief.cfg', workers=1,
                    env_extra={'TRACE_FILE': fo}, jvm=('-Xmx3g',),
                    timeout=3000)
        if not r['ok']:
            raise MachineryError('bulk validation failed:\n' +
                                 r['out'][-3000:])
        v = tlc.parse_prints(r['out'], 'VERDICT')
        sm = tlc.parse_prints(r['out'], 'SUMMARY')
        if len(sm) != 1 or sm[0]['n'] != hi - lo:
            raise MachineryError('bulk summary missing: %r' % sm)
        os.remove(fo)
        return v, sm[0], r
    with ThreadPoolExecutor(max_workers=nproc) as ex:
        res = list(ex.map(one, range(parts)))
    n = 0
    for v, sm, r in res:
        n += sm['n']
        for which in ('held', 'failed'):
            for cl, cnt in sm[which].items():
                st = stats.setdefault('gj/%s' % json.dumps(cl),
                                      dict(cases=0, failed=0))
                st['cases'] += cnt
                if which == 'failed':
                    st['failed'] += cnt
        for x in v:
            hit = [k for k in KNOWN_IDS if k in x['known'] and chk.known(k)]
            if hit:
                chk.known_hit(hit[0])
            else:
                violation(chk, 'gj n3-all: clauses %s fail' % sorted(
                    x['failed']),
                    dict(case=bulk_case(int(x['id'][1:])), verdict=x))
    return n


KNOWN_IDS = ('C13-abs-pivot-tol', 'C13-closed-form-eig')


OUTPUTS = ('ret', 'X', 'XF', 'ok', 'r', 'dh', 'dl', 'vh', 'vl', 'error')


class CaseView(object):
    """cases by id, recovered from the traces (a trace = case + outputs)."""
    def __init__(self, traces):
        self.traces = traces

    def __getitem__(self, i):
        return {k: v for k, v in self.traces[i].items() if k not in OUTPUTS}


def violation(chk, what, obj):
    """At most 25 replay files per run; further violations are counted."""
    if len(chk.violations) < 25:
        chk.violation(what, obj)
    else:
        chk.violations.append((what, chk.violations[-1][1]))


def judge(chk, cases_by_id, traces, crashed, verdicts):
    """Dispatch on the VERDICT records; returns per-class statistics."""
    stats = {}
    for c, what in crashed:
        violation(chk, '%s on case %s' % (what, c['id']), dict(case=c))
    for t in traces.values():
        if 'error' in t:
            violation(chk, 'helper raised %s' % t['error'],
                      dict(case=cases_by_id[t['id']], trace=t))
    for v in verdicts:
        c = cases_by_id[v['id']]
        key = '%s/%s' % (c['kind'], json.dumps(v['cls']))
        s = stats.setdefault(key, dict(cases=0, failed=0))
        s['cases'] += 1
        if not v['failed']:
            continue
        s['failed'] += 1
        if 'bad_case' in v['failed']:
            raise MachineryError('ill-formed case %s' % json.dumps(c))
        hit = [k for k in KNOWN_IDS if k in v['known'] and chk.known(k)]
        if hit:
            for k in hit[:1]:
                chk.known_hit(k)
        else:
            what = '%s %s: clauses %s fail' % (
                c['kind'], c.get('fam') or c.get('fn') or c.get('op'),
                sorted(v['failed']))
            violation(chk, what, dict(case=c, trace=traces[v['id']],
                                      verdict=v))
    return stats


def nontrivial(c):
    k = c['kind']
    if k == 'gj':
        A = c['A']
        return c['n'] >= 2 and any(A[i][j] for i in range(c['n'])
                                   for j in range(c['n']) if i != j)
    if k == 'hl':
        return c['n'] >= 2
    if k == 'eig':
        A = c['A']
        return bool(A[0][1] or A[0][2] or A[1][2]) or \
            len({A[0][0], A[1][1], A[2][2]}) < 3
    return any(c['P'][i][j] for i in range(3) for j in range(3) if i != j)


def case_key(c):
    d = {k: v for k, v in c.items() if k not in ('id', 'fam')}
    return hashlib.sha1(json.dumps(d, sort_keys=True).encode()).digest()[:10]


def selftest(chk):
    """Sensitivity: run mutated copies of linalg.py (in the driver process
    only; /repo is untouched) and check that the verdicts react."""
    rng = random.Random(1)
    cases, _ = gen_cases('quick', rng)
    cases = [c for c in cases if c['kind'] in ('gj', 'hl')
             and c['form'] == 'py']
    by = {c['id']: c for c in cases}
    bad = 0
    for mutant, expect in (('no-exchange', 'violations'),
                           ('stale-big', 'violations'),
                           ('reltol-fix', 'allclean'),
                           ('matmul-transposed', 'violations'),
                           ('backsub-sign', 'violations'),
                           ('aug-stride', 'violations')):
        traces, crashed = run_cases(chk, cases, mutant=mutant,
                                    tag=mutant + '-')
        verdicts, st = validate(chk, list(traces.values()), tag=mutant + '-')
        failed = [v for v in verdicts if v['failed']]
        abst = [v for v in failed if 'C13-abs-pivot-tol' in v['known']]
        other = [v for v in failed if not v['known']]
        nopiv = [v for v in other if v['cls'] == 'needs_row_exchange']
        if expect == 'allclean':
            good = not failed
        elif mutant == 'no-exchange':
            good = bool(nopiv)
        else:
            good = bool(other)
        print('SELFTEST mutant=%s: %d cases, %d failed (%d masked by the '
              'abs-pivot-tol signature, %d unmasked = VIOLATIONs, of which '
              '%d need a row exchange) -> %s' % (
                  mutant, len(verdicts), len(failed), len(abst), len(other),
                  len(nopiv), 'as expected' if good else 'UNEXPECTED'))
        if other[:1]:
            v = other[0]
            print('   e.g. %s %s' % (json.dumps(by[v['id']])[:300],
                                     v['failed']))
        bad += not good
    sys.exit(2 if bad else 0)


def run():
    chk = Check('C13', 'exploration')
    rng = random.Random(chk.seed)
    sz = SIZES[chk.tier]
    if chk.args.selftest:
        return selftest(chk)
    design = {}
    th = None
    if chk.args.replay:
        cases = [json.load(open(chk.args.replay))['case']['case']]
        skipped = 0
    else:
        chk.env      # build before starting threads

        def des():
            design.update(tlc.run('LinAlgMC', sz['design'], workers=8,
                                  timeout=3000))
        th = threading.Thread(target=des)
        th.start()
        cases, skipped = gen_cases(chk.tier, rng)
    # accounting over the inputs, then the list is dropped: a trace repeats
    # every field of its case
    ncases = len(cases)
    keys = set(case_key(c) for c in cases if nontrivial(c))
    dup = set(case_key(c) for c in cases if c['kind'] == 'gj'
              and c['form'] == 'py' and c['n'] == 3 and c['B'] == BULK_B
              and c['q'] == BULK_Q and not any(c['re'] + c['ce'])
              and c['mode'] == 'resid' and nontrivial(c)
              and all(abs(x) <= 2 for r in c['A'] for x in r))
    fams = {}
    for c in cases:
        k = '%s/%s/%s' % (c['kind'], c.get('form', '-'),
                          c.get('fam') or c.get('fn') or c.get('op'))
        fams[k] = fams.get(k, 0) + 1
    t1 = time.time()
    traces, crashed = run_cases(chk, cases)
    del cases
    by_case = CaseView(traces)
    t2 = time.time()
    verdicts, st = validate(chk, list(traces.values()))
    t3 = time.time()
    phases = dict(generate_s=round(t1 - chk.t0, 1), drive_s=round(t2 - t1, 1),
                  tlc_validate_s=round(t3 - t2, 1))
    if th is not None:
        th.join()
        if not design.get('ok'):
            raise MachineryError('design check of LinAlg.tla failed: %s\n%s'
                                 % (design.get('violation'),
                                    design.get('out', '')[-3000:]))
    stats = judge(chk, by_case, traces, crashed, verdicts)
    nbulk = 0
    t4 = time.time()
    if sz['n3_exhaustive'] and not chk.args.replay:
        nbulk = run_bulk_n3(chk, stats)
        phases['bulk_n3_s'] = round(time.time() - t4, 1)
    sing = [traces[v['id']] for v in verdicts if v['cls'] == 'singular']
    observations = dict(
        singular_systems=len(sing),
        singular_reported_nonzero=sum(1 for t in sing if t['ret'] != 0),
        singular_returned_zero=sum(1 for t in sing if t['ret'] == 0),
        note='the property constrains non-singular input only; for singular '
             'input gj_solve returns 0.0 when the last pivot is not exactly '
             '0 after rounding or the last right-hand side is consistent')
    # the exhaustive n = 3 family: all matrices but the 125 diagonal ones are
    # non-trivial; sampled cases that coincide with one of them count once
    ndist = len(keys)
    if nbulk:
        ndist += 5 ** 9 - 125 - len(dup)
    if nbulk:
        fams['gj/py/n3-all'] = nbulk
    vby = {v['id']: v for v in verdicts}

    def sample(pred):
        for c in traces.values():
            if 'kind' in c and pred(c):
                return dict(trace=c, verdict=vby.get(c['id']))
        return None
    samples = [s for s in (
        sample(lambda c: c['kind'] == 'gj' and c['n'] == 3
               and not vby.get(c['id'], {}).get('failed', True)
               and vby[c['id']]['cls'] == 'regular'),
        sample(lambda c: c['kind'] == 'gj'
               and vby.get(c['id'], {}).get('failed')),
        sample(lambda c: c['kind'] == 'gj' and c['form'] == 'cy'
               and c['n'] >= 4),
        sample(lambda c: c['kind'] == 'eig' and c['fn'] == 'eispack'
               and vby.get(c['id'], {}).get('cls', [''])[0] == 'double'
               and c['A'][0][1]),
        sample(lambda c: c['kind'] == 'hl' and c['op'] == 'aug'),
    ) if s]
    chk.cov.update(dict(
        states=design.get('distinct', 0) or st['distinct'],
        transitions=design.get('generated', 0) or st['generated'],
        design_model='LinAlgMC.tla with %s' % sz['design'],
        design_result='all invariants hold' if design.get('ok') else 'n/a',
        traces_validated_against_impl=len(verdicts) + nbulk,
        evaluations=ncases + nbulk,
        distinct_nontrivial=ndist,
        rule='a case is one call of a real helper on integer data (gj_solve: '
             'matrix, right-hand sides, power-of-two row/column scaling, '
             'Python or transpiled form; mat_mult/mat_vec_mult/identity/'
             'augmented_matrix/dot; linalg3 eigen helpers on a symmetric 3x3 '
             'matrix times 2^s; linalg3 transforms); distinct by all inputs; '
             'non-trivial: gj n >= 2 with a non-zero off-diagonal entry, '
             'helpers n >= 2, eigen non-diagonal or repeated diagonal, '
             'transform with non-diagonal P',
        exhaustive_parts='gj n=1 and n=2 over entries -2..2 (all 5 and 625 '
                         'matrices)' + (
                             '; gj n=3 over all 1953125 matrices with two '
                             'right-hand sides' if nbulk else '') + (
                             '; eispack over all 15625 symmetric 3x3 with '
                             'entries -2..2' if sz['eig_mats'] is None
                             else ''),
        exhaustive=False,
        families=fams,
        classes=stats,
        cases_skipped_by_generator=skipped,
        phases=phases,
        observations=observations,
        samples=samples,
    ))
    chk.assumptions += [
        'results enter TLC as scaled integers: gj_solve solutions as '
        'round(x*2^q) (q <= 20, residual tolerance = quantisation bound + 2 '
        'units), eigen results in two 13-bit limbs at 2^-26 (tolerance 8 '
        'units for the EISPACK routine)',
        'accuracy clause (integer or thirds solutions, q = 20): the returned '
        'solution is compared at 2^-40 with tolerance 2 + 16 n^2 |R|max '
        '|R^-1|max 2^-13 |x|max units, R the real scaled matrix, computed '
        'by TLC from the adjugate; it resolves a relative error of 1e-9 on '
        'systems with condition number <= 10',
        'power-of-two scalings are applied and undone exactly by the driver',
        'tiny entries in the pivot column are representable in TLC only as '
        'a whole row times 2^-k (k <= 23 for n = 3, 19 for n = 4, less '
        'beyond: 32-bit integers), combined with a uniform factor 2^g to '
        'reach 2^-45; pivot-order errors are therefore measured for n <= 4 '
        'and detected through the singular return for n <= 6',
        'the transpiled form is exercised through one probe equation '
        'compiled by pysph\'s code generator (CPU/Cython backend)',
    ]
    if not os.environ.get('VERIF_KEEP_SCRATCH'):
        shutil.rmtree(chk.scratch, ignore_errors=True)
    chk.finish()


if __name__ == '__main__':
    main(run)
