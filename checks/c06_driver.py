"""Drives real ParticleArray objects through random sequences of public API
calls with valid arguments and logs, for every call, the operation, its
arguments and the full projection of all arrays afterwards.

usage: c06_driver.py OUT.ndjson SEED NTRACES LENGTH [replay.json]
"""
import json
import pickle
import random
import sys

import numpy as np
from cyarray.api import LongArray
from pysph.base.particle_array import ParticleArray

TYPES = ['double', 'float', 'int', 'long', 'unsigned int']
POOL = ['x', 'u', 'A', 'm', 'k', 'w']
CPOOL = ['c1', 'c2', 'c3']
BUILTIN = ('tag', 'pid', 'gid')


def norm(v):
    v = int(v)
    if v >= 2 ** 31:
        v -= 2 ** 32
    return v


def proj(pa):
    names = list(pa.properties.keys())
    d = dict(type={}, stride={}, dflt={}, len={}, data={}, consts={},
             outs=[], nreal=int(pa.num_real_particles))
    for p in names:
        arr = pa.properties[p]
        d['type'][p] = arr.get_c_type()
        d['stride'][p] = int(pa.stride.get(p, 1))
        if p in pa.default_values:
            d['dflt'][p] = norm(pa.default_values[p])
        d['len'][p] = int(arr.length)
        d['data'][p] = [norm(v) for v in arr.get_npy_array()]
    for c, arr in pa.constants.items():
        d['consts'][c] = [norm(v) for v in arr.get_npy_array()]
    d['outs'] = list(pa.output_property_arrays)
    return d


class Session(object):
    def __init__(self, rng):
        self.rng = rng
        self.counter = 0
        self.arrs = {}
        self.events = []

    def fresh(self, n):
        out = []
        for i in range(n):
            self.counter += 1
            out.append(self.counter)
        return out

    def snapshot(self):
        return {k: proj(v) for k, v in self.arrs.items()}

    def log(self, **ev):
        ev['post'] = self.snapshot()
        self.events.append(ev)

    # -- construction ------------------------------------------------------
    def make(self, name):
        rng = self.rng
        n = rng.choice([0, 0, 1, 2, 3, 4])
        props = {}
        names = rng.sample(POOL, rng.randint(0, 3))
        for p in names:
            stride = rng.choice([1, 1, 2, 3])
            typ = rng.choice(TYPES)
            props[p] = dict(data=np.array(self.fresh(n * stride)), type=typ,
                            stride=stride, default=rng.choice([0, 0, 1, 7]))
        if n > 0 and rng.random() < 0.6:
            props['tag'] = dict(data=np.array(
                [rng.choice([0, 0, 1, 2]) for i in range(n)]), type='int')
        elif n > 0 and not names:
            props['tag'] = dict(data=np.zeros(n, dtype=int), type='int')
        consts = {}
        for c in rng.sample(CPOOL, rng.randint(0, 2)):
            consts[c] = np.array(self.fresh(rng.randint(1, 3)), dtype=float)
        pa = ParticleArray(name=name, constants=consts, **props)
        if rng.random() < 0.4:
            cand = list(pa.properties.keys())
            pa.set_output_arrays(rng.sample(cand, rng.randint(0, len(cand))))
        return pa

    # -- helpers -----------------------------------------------------------
    def n(self, a):
        return self.arrs[a].get_number_of_particles()

    def pick_idx(self, a, distinct=True, maxk=3):
        n = self.n(a)
        k = self.rng.randint(0, min(maxk, n))
        return self.rng.sample(range(n), k)

    def user_props(self, a):
        return [p for p in self.arrs[a].properties if p not in BUILTIN]

    # -- operations --------------------------------------------------------
    def op_add_particles(self, a):
        pa, rng = self.arrs[a], self.rng
        names = list(pa.properties.keys())
        given_names = rng.sample(names, rng.randint(1, len(names)))
        k = rng.randint(0, 3)
        given = {}
        for p in given_names:
            st = pa.stride.get(p, 1)
            if p == 'tag':
                given[p] = [rng.choice([0, 0, 1, 2]) for i in range(k)]
            else:
                given[p] = self.fresh(k * st)
        align = rng.random() < 0.7
        pa.add_particles(align=align,
                         **{p: np.array(v) for p, v in given.items()})
        self.log(op='add_particles', a=a, k=k, given=given, align=align)

    def op_remove_particles(self, a):
        idx = self.pick_idx(a)
        align = self.rng.random() < 0.7
        kind = self.rng.choice(['list', 'np', 'long'])
        arg = idx
        if kind == 'np':
            arg = np.array(idx, dtype=int)
        elif kind == 'long':
            arg = LongArray(len(idx))
            arg.set_data(np.array(idx, dtype=np.int64))
        self.arrs[a].remove_particles(arg, align=align)
        self.log(op='remove_particles', a=a, idx=idx, align=align)

    def op_remove_tagged(self, a):
        tag = self.rng.choice([0, 1, 2])
        align = self.rng.random() < 0.7
        self.arrs[a].remove_tagged_particles(tag, align=align)
        self.log(op='remove_tagged', a=a, tag=tag, align=align)

    def op_extend(self, a):
        k = self.rng.randint(0, 3)
        self.arrs[a].extend(k)
        self.log(op='extend', a=a, k=k)

    def compatible(self, a, b, props):
        pa, pb = self.arrs[a], self.arrs[b]
        for p in props:
            if p in pa.properties and p in pb.properties:
                if pa.stride.get(p, 1) != pb.stride.get(p, 1):
                    return False
                if pa.properties[p].get_c_type() != \
                        pb.properties[p].get_c_type():
                    return False
        return True

    def op_append_parray(self, a):
        b = self.rng.choice([x for x in self.arrs if x != a])
        common = set(self.arrs[a].properties) & set(self.arrs[b].properties)
        if not self.compatible(a, b, common):
            return
        for c in self.arrs[b].properties:
            if c in self.arrs[a].constants:
                return
        align = self.rng.random() < 0.7
        self.arrs[a].append_parray(self.arrs[b], align=align)
        self.log(op='append_parray', a=a, b=b, align=align)

    def op_extract_new(self, a):
        pa = self.arrs[a]
        idx = self.pick_idx(a)
        allp = self.rng.random() < 0.5
        props = None
        if not allp:
            names = list(pa.properties.keys())
            props = self.rng.sample(names, self.rng.randint(1, len(names)))
        align = self.rng.random() < 0.7
        self.arrs['R'] = pa.extract_particles(idx, align=align, props=props)
        self.log(op='extract_new', a=a, idx=idx, all=allp, props=props or [],
                 align=align)

    def op_extract_into(self, a):
        b = self.rng.choice([x for x in ('A', 'B') if x != a])
        pa, pb = self.arrs[a], self.arrs[b]
        common = [p for p in pa.properties if p in pb.properties]
        if not self.compatible(a, b, common):
            return
        allp = set(pa.properties) <= set(pb.properties) and \
            self.rng.random() < 0.5
        props = None
        if not allp:
            props = self.rng.sample(common, self.rng.randint(1, len(common)))
        idx = self.pick_idx(a)
        align = self.rng.random() < 0.7
        r = pa.extract_particles(idx, dest_array=pb, align=align, props=props)
        assert r is pb
        self.log(op='extract_into', a=a, b=b, idx=idx, all=allp,
                 props=props or [], align=align)

    def op_empty_clone(self, a):
        pa = self.arrs[a]
        allp = self.rng.random() < 0.5
        props = None
        if not allp:
            names = list(pa.properties.keys())
            props = self.rng.sample(names, self.rng.randint(0, len(names)))
        self.arrs['R'] = pa.empty_clone(props=props)
        self.log(op='empty_clone', a=a, all=allp, props=props or [])

    def op_add_property(self, a):
        pa, rng = self.arrs[a], self.rng
        free = [p for p in POOL if p not in pa.properties
                and p not in pa.constants]
        if not free:
            return
        name = rng.choice(free)
        typ = rng.choice(TYPES)
        stride = rng.choice([1, 1, 2, 3])
        dflt = rng.choice([0, 0, 1, 7])
        n = self.n(a)
        hasdata = rng.random() < 0.5
        data = []
        if hasdata:
            k = n if n > 0 else rng.choice([0, 1, 2])
            data = self.fresh(k * stride)
        kw = dict(name=name, type=typ, default=dflt, stride=stride)
        if hasdata:
            kw['data'] = np.array(data, dtype=float)
        pa.add_property(**kw)
        self.log(op='add_property', a=a, name=name, type=typ, dflt=dflt,
                 stride=stride, hasdata=hasdata, data=data)

    def op_remove_property(self, a):
        cand = self.user_props(a)
        if not cand:
            return
        name = self.rng.choice(cand)
        self.arrs[a].remove_property(name)
        self.log(op='remove_property', a=a, name=name)

    def op_add_constant(self, a):
        pa = self.arrs[a]
        free = [c for c in CPOOL if c not in pa.constants
                and c not in pa.properties]
        if not free:
            return
        name = self.rng.choice(free)
        data = self.fresh(self.rng.randint(1, 3))
        pa.add_constant(name, np.array(data, dtype=float))
        self.log(op='add_constant', a=a, name=name, data=data)

    def op_ensure_properties(self, a):
        b = self.rng.choice([x for x in self.arrs if x != a])
        pa, pb = self.arrs[a], self.arrs[b]
        names = list(pb.properties.keys())
        allp = self.rng.random() < 0.5
        props = names if allp else self.rng.sample(
            names, self.rng.randint(1, len(names)))
        if any(p in pa.constants for p in props):
            return
        pa.ensure_properties(pb, None if allp else list(props))
        self.log(op='ensure_properties', a=a, b=b, props=list(props),
                 all=allp)

    def op_set_constant(self, a):
        """In-place write to an existing constant, by one of the public
        routes; arrays made from this one (clones, extracts, pickles) or the
        one it was made from must not see it."""
        pa = self.arrs[a]
        if not pa.constants:
            return
        name = self.rng.choice(sorted(pa.constants))
        k = len(pa.constants[name].get_npy_array())
        data = self.fresh(k)
        route = self.rng.choice(['set', 'attr', 'get', 'carray'])
        if route == 'set':
            pa.set(**{name: np.array(data, dtype=float)})
        elif route == 'attr':
            getattr(pa, name)[:] = data
        elif route == 'get':
            pa.get(name)[:] = data
        else:
            pa.constants[name].get_npy_array()[:] = data
        self.log(op='set_constant', a=a, name=name, data=data, route=route)

    def op_resize_fill(self, a):
        pa = self.arrs[a]
        n = self.n(a)
        size = max(0, n + self.rng.choice([-2, -1, 0, 1, 2]))
        pa.resize(size)
        fill = {}
        for p, arr in pa.properties.items():
            st = pa.stride.get(p, 1)
            extra = max(0, size - n)
            if p == 'tag':
                vals = [self.rng.choice([0, 1, 2]) for i in range(extra)]
            else:
                vals = self.fresh(extra * st)
            fill[p] = vals
            if extra:
                arr.get_npy_array()[n * st:n * st + extra * st] = vals
        self.log(op='resize_fill', a=a, size=size, fill=fill)

    def op_set_tag(self, a):
        idx = self.pick_idx(a)
        tag = self.rng.choice([0, 1, 2])
        la = LongArray(len(idx))
        la.set_data(np.array(idx, dtype=np.int64))
        self.arrs[a].set_tag(tag, la)
        self.log(op='set_tag', a=a, tag=tag, idx=idx)

    def op_align(self, a):
        self.arrs[a].align_particles()
        self.log(op='align', a=a)

    def op_pickle(self, a):
        self.arrs['R'] = pickle.loads(pickle.dumps(self.arrs[a]))
        self.log(op='pickle', a=a)

    def op_copy_properties(self, a):
        b = self.rng.choice([x for x in self.arrs if x != a])
        pa, pb = self.arrs[a], self.arrs[b]
        common = [p for p in pb.properties if p in pa.properties]
        if not self.compatible(a, b, common):
            return
        nb, na = self.n(b), self.n(a)
        if nb == 0 or nb > na:
            return
        start = self.rng.randint(0, na - nb)
        pa.copy_properties(pb, start, start + nb)
        self.log(op='copy_properties', a=a, b=b, start=start, end=start + nb)

    def op_set_outputs(self, a):
        pa = self.arrs[a]
        cand = list(pa.properties.keys()) + list(pa.constants.keys())
        names = self.rng.sample(cand, self.rng.randint(0, min(3, len(cand))))
        if self.rng.random() < 0.5:
            pa.set_output_arrays(list(names))
            self.log(op='set_outputs', a=a, names=names)
        else:
            pa.add_output_arrays(list(names))
            self.log(op='add_outputs', a=a, names=names)

    def op_set(self, a):
        pa = self.arrs[a]
        names = list(pa.properties.keys())
        chosen = self.rng.sample(names, self.rng.randint(1, min(2, len(names))))
        n = self.n(a)
        given = {}
        for p in chosen:
            st = pa.stride.get(p, 1)
            if p == 'tag':
                given[p] = [self.rng.choice([0, 1, 2]) for i in range(n)]
            else:
                given[p] = self.fresh(n * st)
        pa.set(**{p: np.array(v) for p, v in given.items()})
        self.log(op='set', a=a, given=given)

    OPS = ['add_particles', 'add_particles', 'remove_particles',
           'remove_tagged', 'extend', 'append_parray', 'extract_new',
           'extract_into', 'empty_clone', 'add_property', 'add_property',
           'remove_property', 'remove_property', 'add_constant',
           'resize_fill', 'set_tag', 'align', 'pickle', 'copy_properties',
           'set_outputs', 'set', 'set_constant', 'set_constant',
           'ensure_properties']

    def run(self, tid, length):
        self.arrs = {'A': self.make('A'), 'B': self.make('B'),
                     'R': ParticleArray(name='R')}
        init = self.snapshot()
        err = None
        for i in range(length):
            op = self.rng.choice(self.OPS)
            a = self.rng.choice(['A', 'A', 'A', 'B', 'B', 'R'])
            try:
                getattr(self, 'op_' + op)(a)
            except Exception as ex:
                err = dict(op=op, a=a, error='%s: %s' % (
                    type(ex).__name__, ex), step=len(self.events))
                break
        tr = dict(id=tid, init=init, events=self.events)
        if err:
            tr['error'] = err
        return tr


def run_isolated(tid, length):
    """Run one trace in a forked child; a crash of the code under test is
    recorded as an error of the operation that was running."""
    import os
    r, w = os.pipe()
    pid = os.fork()
    if pid == 0:
        os.close(r)
        import resource
        import signal
        resource.setrlimit(resource.RLIMIT_AS, (6 << 30, 6 << 30))
        signal.alarm(300)
        wf = os.fdopen(w, 'w')
        s = Session(random.Random(tid))
        orig_log = s.log

        def log(**ev):
            orig_log(**ev)
            wf.write(json.dumps(dict(kind='event', ev=s.events[-1])) + '\n')
            wf.flush()
        s.log = log
        orig_choice = s.rng.choice
        # journal the operation about to run
        s.arrs = {'A': s.make('A'), 'B': s.make('B'),
                  'R': ParticleArray(name='R')}
        wf.write(json.dumps(dict(kind='init', init=s.snapshot())) + '\n')
        wf.flush()
        err = None
        for i in range(length):
            op = s.rng.choice(s.OPS)
            a = s.rng.choice(['A', 'A', 'B'])
            wf.write(json.dumps(dict(kind='about', op=op, a=a)) + '\n')
            wf.flush()
            try:
                getattr(s, 'op_' + op)(a)
            except Exception as ex:
                err = dict(op=op, a=a, error='%s: %s' % (
                    type(ex).__name__, ex), step=len(s.events))
                break
        wf.write(json.dumps(dict(kind='end', error=err)) + '\n')
        wf.flush()
        os._exit(0)
    os.close(w)
    init = None
    events = []
    about = None
    err = None
    ended = False
    with os.fdopen(r) as rf:
        for line in rf:
            if not line.endswith('\n'):
                break
            try:
                d = json.loads(line)
            except ValueError:
                break
            if d['kind'] == 'init':
                init = d['init']
            elif d['kind'] == 'event':
                events.append(d['ev'])
            elif d['kind'] == 'about':
                about = d
            elif d['kind'] == 'end':
                ended = True
                err = d['error']
    _, st = os.waitpid(pid, 0)
    tr = dict(id=tid, init=init or {}, events=events)
    if not ended:
        tr['error'] = dict(op=(about or {}).get('op', 'construction'),
                           a=(about or {}).get('a', ''),
                           error='crash of the process (signal %s)' % (
                               os.WTERMSIG(st) if os.WIFSIGNALED(st) else
                               os.WEXITSTATUS(st)),
                           step=len(events))
    elif err:
        tr['error'] = err
    return tr


def main():
    out, seed, ntr, length = sys.argv[1], int(sys.argv[2]), \
        int(sys.argv[3]), int(sys.argv[4])
    with open(out, 'w') as fp:
        for i in range(ntr):
            tid = '%d:%d:%d' % (seed, i, length)
            fp.write(json.dumps(run_isolated(tid, length)) + '\n')


if __name__ == '__main__':
    main()
