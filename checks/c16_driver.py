"""Drives real inlet/outlet objects of pysph over recorded histories (C16).

usage: c16_driver.py SCENARIOS.ndjson OUT.ndjson

A scenario places particles on a lattice (unit 2^k) in a frame (flow
direction f, transverse t1, t2) attached to the inlet plane, builds the real
objects

  mode 'manager': <family>.SimpleInletOutlet(...).get_inlet_outlet(arrays)
                  after get_stepper(EDACScheme, PECIntegrator), setup_iom,
                  update_dx, add_io_properties, create_ghost (the wiring an
                  Application performs); zone lengths are whatever the
                  manager computes;
  mode 'direct':  <family>.Inlet / <family>.Outlet constructed as in
                  pysph/sph/bc/tests with an explicit zone length and
                  active stages;

and replays ops: ['adv', dv, tv] displaces the particle with identity i by
dv[i % len] lattice units along f (tv: transverse); ['in', stage] /
['out', stage] call the real update(t, dt, stage).  For every call the rows
(identity, s, t1, t2, two copied properties, tag) of the inlet, fluid and
outlet arrays in array order and their num_real_particles, before and after,
are logged in 1/FINE lattice units.  'ghosts': {array: [[s, t1, t2, tag]]}
appends non-local rows (tag 1 Remote, 2 Ghost) behind the Local ones.  A scenario
{'id', 'seq': [scenario, ...]} runs several histories with the same array
names and different geometries interleaved in ONE process (see run()).  After an inlet
call the harness gives every recycled inlet original (its identity now also
occurs in the fluid) a fresh identity, so identities are unique before each
call.  Each scenario runs in a forked child (RLIMIT_AS 8 GB, alarm).
"""
import importlib
import itertools
import json
import os
import sys
import traceback

import numpy as np

FINE = 8
MICRO = 65536      # zone lengths are also logged in 1/MICRO lattice units
FAMILIES = ('donothing', 'mirror', 'hybrid', 'characteristic', 'mod_donothing')


def frame(sc):
    f = np.array(sc['flow'], dtype=float)
    nz = int(np.count_nonzero(f))
    if nz == 1:
        f = np.sign(f)
    else:
        f = f / np.sqrt(np.dot(f, f))
    dim = sc['dim']
    if nz == 1:
        ax = int(np.argmax(np.abs(f)))
        t1 = np.zeros(3)
        t2 = np.zeros(3)
        t1[(ax + 1) % 3] = 1.0
        t2[(ax + 2) % 3] = 1.0
        if dim == 2:       # keep t1 inside the xy plane
            t1 = np.zeros(3)
            t1[1 - ax] = 1.0
            t2 = np.array([0.0, 0.0, 1.0])
    elif dim == 2:
        t1 = np.array([-f[1], f[0], 0.0])
        t2 = np.array([0.0, 0.0, 1.0])
    else:
        e = np.zeros(3)
        e[int(np.argmin(np.abs(f)))] = 1.0
        t1 = np.cross(f, e)
        t1 /= np.sqrt(np.dot(t1, t1))
        t2 = np.cross(f, t1)
    return f, t1, t2, nz


def full(pa, name):
    """The whole property array (attribute access gives the real range)."""
    return pa.get_carray(name).get_npy_array()


class Rig(object):
    def __init__(self, sc):
        from pysph.base.utils import get_particle_array
        from pysph.base.kernels import QuinticSpline
        from pysph.sph.bc.inlet_outlet_manager import InletInfo, OutletInfo
        self.sc = sc
        self.U = 2.0 ** sc['unit_exp']
        self.f, self.t1, self.t2, self.naxes = frame(sc)
        self.origin = np.array(sc['origin'], dtype=float)
        self.nextid = 1
        U = self.U
        dim = sc['dim']
        fam = sc['family']
        Inlet = importlib.import_module('pysph.sph.bc.%s.inlet' % fam).Inlet
        Outlet = importlib.import_module('pysph.sph.bc.%s.outlet' % fam).Outlet

        def arr(name, rows):
            # non-local rows (tag 1 Remote, 2 Ghost) follow the Local ones,
            # as alignment leaves them
            extra = (sc.get('ghosts') or {}).get(name, [])
            tags = [0] * len(rows) + [int(g[3]) for g in extra]
            rows = [tuple(r) for r in rows] + [tuple(g[:3]) for g in extra]
            n = len(rows)
            P = np.zeros((n, 3))
            for k, (s, a, b) in enumerate(rows):
                P[k] = self.origin + U * (s * self.f + a * self.t1 + b * self.t2)
            ids = np.arange(self.nextid, self.nextid + n)
            self.nextid += n
            h = 1.5 * sc['dx'] * U
            pa = get_particle_array(
                name=name, x=P[:, 0].copy(), y=P[:, 1].copy(),
                z=P[:, 2].copy(), m=np.ones(n), h=h * np.ones(n),
                rho=np.ones(n), u=np.ones(n))
            pa.add_property('ident', type='long', data=ids)
            pa.add_property('ca', data=self.val_a(ids))
            pa.add_property('cb', data=self.val_b(ids))
            if n:
                full(pa, 'tag')[:] = tags
            pa.align_particles()
            return pa
        inlet = arr('inlet', sc['inlet'])
        fluid = arr('fluid', sc['fluid'])
        outlet = arr('outlet', sc['outlet'])
        self.pas = dict(inlet=inlet, fluid=fluid, outlet=outlet)
        ref_in = [float(v) for v in self.origin]
        ref_out = [float(v) for v in self.origin + U * sc['X'] * self.f]
        n_in = [float(-v) for v in self.f]
        n_out = [float(v) for v in self.f]
        kernel = QuinticSpline(dim=dim)
        self.expected_active = list(sc['active'])
        if sc['mode'] == 'manager':
            mod = importlib.import_module(
                'pysph.sph.bc.%s.simple_inlet_outlet' % fam)
            ii = InletInfo('inlet', normal=n_in, refpoint=ref_in,
                           has_ghost=bool(sc['ghost']), update_cls=Inlet)
            oi = OutletInfo('outlet', normal=n_out, refpoint=ref_out,
                            has_ghost=bool(sc['ghost']), update_cls=Outlet,
                            props_to_copy=None)
            iom = mod.SimpleInletOutlet(['fluid'], [ii], [oi])
            from pysph.sph.wc.edac import EDACScheme
            from pysph.sph.integrator import PECIntegrator
            scheme = EDACScheme(['fluid'], [], dim=dim, rho0=1.0, c0=10.0,
                                h=1.0, pb=0.0, nu=0.0,
                                inlet_outlet_manager=iom)
            iom.get_stepper(scheme, PECIntegrator)
            iom.setup_iom(dim=dim, kernel=kernel)
            iom.update_dx(sc['dx'] * U)
            if sc['ghost']:
                gi = iom.create_ghost(inlet, inlet=True)
                go = iom.create_ghost(outlet, inlet=False)
                self.pas[gi.name] = gi
                self.pas[go.name] = go
            for pa in self.pas.values():
                iom.add_io_properties(pa)
            self.harmonize()
            oi.props_to_copy = self.props_to_copy(fluid)
            self.inlet_obj, self.outlet_obj = iom.get_inlet_outlet(self.pas)
            self.expected_active = [2]
        else:
            for pa in self.pas.values():
                pa.add_property('ioid')
                pa.add_property('disp')
                pa.add_constant('uref', 0.0)
            ii = InletInfo('inlet', normal=n_in, refpoint=ref_in,
                           has_ghost=False)
            ii.length = sc['Lin'] * U
            oi = OutletInfo('outlet', normal=n_out, refpoint=ref_out,
                            props_to_copy=self.props_to_copy(fluid))
            oi.length = sc['Lout'] * U
            self.inlet_obj = Inlet(inlet, fluid, ii, kernel, dim,
                                   active_stages=list(sc['active']))
            self.outlet_obj = Outlet(outlet, fluid, oi, kernel, dim,
                                     active_stages=list(sc['active']))
        self.code_len = (ii.length, oi.length)
        self.infos = (ii, oi)

    @staticmethod
    def val_a(ids):
        return 1000.0 + 7.0 * np.asarray(ids, dtype=float)

    @staticmethod
    def val_b(ids):
        return 5000.0 + 11.0 * np.asarray(ids, dtype=float)

    def harmonize(self):
        """Every array gets every property (what Scheme.setup_properties
        does for an application)."""
        allp = {}
        for pa in self.pas.values():
            for n, ca in pa.properties.items():
                allp.setdefault(n, (ca.get_c_type(), pa.stride.get(n, 1)))
        for pa in self.pas.values():
            for n, (ct, stride) in allp.items():
                if n not in pa.properties:
                    pa.add_property(n, type=ct, stride=stride)

    def props_to_copy(self, fluid):
        ptc = self.sc['ptc']
        if ptc == 'none':
            return None
        names = sorted(fluid.properties.keys())
        if ptc == 'nob':
            names = [n for n in names if n != 'cb']
        return names

    # -- observation ----------------------------------------------------
    def rows(self, pa):
        U = self.U
        n = pa.get_number_of_particles()
        P = np.stack([pa.get('x', only_real_particles=False),
                      pa.get('y', only_real_particles=False),
                      pa.get('z', only_real_particles=False)], axis=1) \
            if n else np.zeros((0, 3))
        rel = P - self.origin
        ident = pa.get('ident', only_real_particles=False)
        ca = pa.get('ca', only_real_particles=False)
        cb = pa.get('cb', only_real_particles=False)
        tag = pa.get('tag', only_real_particles=False)
        out = []
        for k in range(n):
            out.append(dict(
                id=int(ident[k]),
                s=int(round(float(np.dot(rel[k], self.f)) / U * FINE)),
                t1=int(round(float(np.dot(rel[k], self.t1)) / U * FINE)),
                t2=int(round(float(np.dot(rel[k], self.t2)) / U * FINE)),
                a=int(round(float(ca[k]))), b=int(round(float(cb[k]))),
                tag=int(tag[k])))
        return out

    def state(self):
        return dict(inlet=self.rows(self.pas['inlet']),
                    fluid=self.rows(self.pas['fluid']),
                    outlet=self.rows(self.pas['outlet']),
                    nreal=[int(self.pas[n].num_real_particles)
                           for n in ('inlet', 'fluid', 'outlet')])

    # -- harness actions ------------------------------------------------
    def advect(self, dv, tv):
        U = self.U
        dim = self.sc['dim']
        for name in ('inlet', 'fluid', 'outlet'):
            pa = self.pas[name]
            n = pa.get_number_of_particles()
            if n == 0:
                continue
            ident = pa.get('ident', only_real_particles=False)
            d = np.array([dv[int(i) % len(dv)] for i in ident], dtype=float)
            e1 = np.array([tv[int(i) % len(tv)] for i in ident], dtype=float)
            e2 = np.array([tv[(int(i) + 1) % len(tv)] for i in ident],
                          dtype=float)
            if dim < 2:
                e1[:] = 0.0
            if dim < 3:
                e2[:] = 0.0
            mv = U * (np.outer(d, self.f) + np.outer(e1, self.t1) +
                      np.outer(e2, self.t2))
            full(pa, 'x')[:] += mv[:, 0]
            full(pa, 'y')[:] += mv[:, 1]
            full(pa, 'z')[:] += mv[:, 2]

    def relabel(self):
        inlet, fluid = self.pas['inlet'], self.pas['fluid']
        if inlet.get_number_of_particles() == 0:
            return
        fid = set(int(i) for i in fluid.get('ident',
                                            only_real_particles=False))
        ident = inlet.get('ident', only_real_particles=False)
        for k in range(len(ident)):
            if int(ident[k]) in fid:
                new = self.nextid
                self.nextid += 1
                full(inlet, 'ident')[k] = new
                full(inlet, 'ca')[k] = self.val_a(new)
                full(inlet, 'cb')[k] = self.val_b(new)

    def call(self, kind, stage):
        import pysph.sph.equation as E
        # the default Group names come from a global counter and end up in
        # the generated source; restart it so that every evaluator of the
        # same shape hits the compiled-module cache
        E.group_counter = itertools.count()
        obj = self.inlet_obj if kind == 'in' else self.outlet_obj
        obj.update(0.0, 0.125, stage)


class Replay(object):
    """One history on one rig, replayed op by op (so that several rigs living
    in the same process can be interleaved)."""

    def __init__(self, sc):
        self.sc = sc
        self.pos = 0
        self.calls = []
        self.errtext = None
        self.dead = False
        self.rig = None
        self.failure = None
        try:
            self.rig = Rig(sc)
        except Exception as ex:
            self.dead = True
            self.failure = dict(id=sc['id'],
                                error='%s: %s' % (type(ex).__name__, ex),
                                tb=traceback.format_exc()[-1200:])

    def advance(self, upto):
        rig = self.rig
        ops = self.sc['ops']
        while self.pos < min(upto, len(ops)) and not self.dead:
            op = ops[self.pos]
            self.pos += 1
            if op[0] == 'adv':
                rig.advect(op[1], op[2])
                continue
            kind, stage = op[0], int(op[1])
            before = rig.state()
            try:
                rig.call(kind, stage)
                ok = True
                after = rig.state()
            except Exception as ex:
                ok = False
                after = before
                self.errtext = '%s: %s | %s' % (
                    type(ex).__name__, ex, traceback.format_exc()[-600:])
            self.calls.append(dict(kind=kind, stage=stage, ok=ok,
                                   before=before, after=after))
            if not ok:
                self.dead = True
            elif kind == 'in':
                rig.relabel()

    def record(self):
        if self.failure:
            return self.failure
        sc, rig = self.sc, self.rig
        U = rig.U
        ii, oi = rig.infos
        rec = dict(
            id=sc['id'],
            g=dict(Lin=sc['Lin'] * FINE, X=sc['X'] * FINE,
                   Lout=sc['Lout'] * FINE, copyq=sc['ptc'] != 'nob',
                   active=rig.expected_active),
            code=dict(Lin=int(round(ii.length / U * FINE)),
                      Lout=int(round(oi.length / U * FINE)),
                      LinM=int(round(ii.length / U * MICRO)),
                      LoutM=int(round(oi.length / U * MICRO))),
            mpf=MICRO // FINE,
            code_len_units=[ii.length / U, oi.length / U],
            impl_active=[list(rig.inlet_obj.active_stages),
                         list(rig.outlet_obj.active_stages)],
            naxes=rig.naxes, fine=FINE, calls=self.calls)
        if self.errtext:
            rec['errtext'] = self.errtext
        return rec


def rows_of(pa, U, origin, f, t1, t2):
    n = pa.get_number_of_particles()
    if n == 0:
        return []
    P = np.stack([full(pa, 'x'), full(pa, 'y'), full(pa, 'z')], axis=1)
    rel = P - origin
    ident, ca, cb, tag = (full(pa, q) for q in ('ident', 'ca', 'cb', 'tag'))
    return [dict(id=int(ident[k]),
                 s=int(round(float(np.dot(rel[k], f)) / U * FINE)),
                 t1=int(round(float(np.dot(rel[k], t1)) / U * FINE)),
                 t2=int(round(float(np.dot(rel[k], t2)) / U * FINE)),
                 a=int(round(float(ca[k]))), b=int(round(float(cb[k]))),
                 tag=int(tag[k])) for k in range(n)]


class MultiRig(object):
    """Several inlets and outlets ('lanes': one inlet + one outlet each, own
    flow axis, reference point, zone lengths, dx, array names) on ONE fluid
    array under ONE manager, wired as an Application does."""

    def __init__(self, sc):
        from pysph.base.utils import get_particle_array
        from pysph.base.kernels import QuinticSpline
        from pysph.sph.bc.inlet_outlet_manager import InletInfo, OutletInfo
        from pysph.sph.wc.edac import EDACScheme
        from pysph.sph.integrator import PECIntegrator
        self.sc = sc
        U = self.U = 2.0 ** sc['unit_exp']
        dim = sc['dim']
        fam = sc['family']
        self.nextid = 1
        Inlet = importlib.import_module('pysph.sph.bc.%s.inlet' % fam).Inlet
        Outlet = importlib.import_module('pysph.sph.bc.%s.outlet' % fam).Outlet
        mod = importlib.import_module(
            'pysph.sph.bc.%s.simple_inlet_outlet' % fam)
        h = 1.5 * max(l['dx'] for l in sc['multi']) * U
        self.lanes = []
        for l in sc['multi']:
            f, t1, t2, nz = frame(dict(flow=l['flow'], dim=dim))
            self.lanes.append(dict(sc=l, f=f, t1=t1, t2=t2, naxes=nz,
                                   origin=np.array(l['origin'], dtype=float)))

        def pos(L, rows):
            return [L['origin'] + U * (r[0] * L['f'] + r[1] * L['t1'] +
                                       r[2] * L['t2']) for r in rows]

        def mk(name, P, tags):
            n = len(P)
            P = np.array(P, dtype=float).reshape((n, 3))
            ids = np.arange(self.nextid, self.nextid + n)
            self.nextid += n
            pa = get_particle_array(
                name=name, x=P[:, 0].copy(), y=P[:, 1].copy(),
                z=P[:, 2].copy(), m=np.ones(n), h=h * np.ones(n),
                rho=np.ones(n), u=np.ones(n))
            pa.add_property('ident', type='long', data=ids)
            pa.add_property('ca', data=Rig.val_a(ids))
            pa.add_property('cb', data=Rig.val_b(ids))
            if n:
                full(pa, 'tag')[:] = tags
            pa.align_particles()
            return pa

        def both(L, name):
            loc = L['sc'][name]
            ex = (L['sc'].get('ghosts') or {}).get(name, [])
            return (pos(L, loc), [0] * len(loc),
                    pos(L, [g[:3] for g in ex]), [int(g[3]) for g in ex])
        self.pas = {}
        fl = [both(L, 'fluid') for L in self.lanes]
        self.fluid = mk(sc['fluid_name'],
                        sum((x[0] for x in fl), []) + sum((x[2] for x in fl), []),
                        sum((x[1] for x in fl), []) + sum((x[3] for x in fl), []))
        self.pas[sc['fluid_name']] = self.fluid
        for L in self.lanes:
            for kind in ('inlet', 'outlet'):
                p0, t0, p1, tg1 = both(L, kind)
                L[kind] = mk(L['sc'][kind + '_name'], p0 + p1, t0 + tg1)
                self.pas[L[kind].name] = L[kind]
        kernel = QuinticSpline(dim=dim)
        for L in self.lanes:
            l = L['sc']
            L['ii'] = InletInfo(
                l['inlet_name'], normal=[float(-v) for v in L['f']],
                refpoint=[float(v) for v in L['origin']],
                has_ghost=bool(sc['ghost']), update_cls=Inlet)
            L['oi'] = OutletInfo(
                l['outlet_name'], normal=[float(v) for v in L['f']],
                refpoint=[float(v) for v in
                          L['origin'] + U * l['X'] * L['f']],
                has_ghost=bool(sc['ghost']), update_cls=Outlet,
                props_to_copy=None)
        iinfo = [self.lanes[k]['ii'] for k in sc['in_order']]
        oinfo = [self.lanes[k]['oi'] for k in sc['out_order']]
        iom = mod.SimpleInletOutlet([sc['fluid_name']], iinfo, oinfo)
        scheme = EDACScheme([sc['fluid_name']], [], dim=dim, rho0=1.0,
                            c0=10.0, h=1.0, pb=0.0, nu=0.0,
                            inlet_outlet_manager=iom)
        iom.get_stepper(scheme, PECIntegrator)
        iom.setup_iom(dim=dim, kernel=kernel)
        iom.update_dx(self.lanes[0]['sc']['dx'] * U)
        for L in self.lanes[1:]:
            if L['sc']['dx'] != self.lanes[0]['sc']['dx']:
                L['ii'].dx = L['sc']['dx'] * U      # a zone with its own spacing
                L['oi'].dx = L['sc']['dx'] * U
        if sc['ghost']:
            for L in self.lanes:
                for kind, flag in (('inlet', True), ('outlet', False)):
                    g = iom.create_ghost(L[kind], inlet=flag)
                    self.pas[g.name] = g
        for pa in self.pas.values():
            iom.add_io_properties(pa)
        Rig.harmonize(self)
        for L in self.lanes:
            ptc = L['sc']['ptc']
            names = sorted(self.fluid.properties.keys())
            L['oi'].props_to_copy = None if ptc == 'none' else \
                [n for n in names if not (ptc == 'nob' and n == 'cb')]
        objs = iom.get_inlet_outlet(self.pas)
        for j, k in enumerate(sc['in_order']):
            self.lanes[k]['in_obj'] = objs[j]
        for j, k in enumerate(sc['out_order']):
            self.lanes[k]['out_obj'] = objs[len(iinfo) + j]

    def state(self, L):
        U = self.U
        a = (U, L['origin'], L['f'], L['t1'], L['t2'])
        return dict(inlet=rows_of(L['inlet'], *a),
                    fluid=rows_of(self.fluid, *a),
                    outlet=rows_of(L['outlet'], *a),
                    nreal=[int(L['inlet'].num_real_particles),
                           int(self.fluid.num_real_particles),
                           int(L['outlet'].num_real_particles)])

    def advect(self, dv, tv):
        U = self.U
        dim = self.sc['dim']
        nl = len(self.lanes)

        def move(pa, lane_of):
            n = pa.get_number_of_particles()
            if n == 0:
                return
            ident = full(pa, 'ident')
            mv = np.zeros((n, 3))
            for r, i in enumerate(ident):
                L = self.lanes[lane_of(int(i))]
                e1 = tv[int(i) % len(tv)] if dim >= 2 else 0
                e2 = tv[(int(i) + 1) % len(tv)] if dim >= 3 else 0
                mv[r] = U * (dv[int(i) % len(dv)] * L['f'] + e1 * L['t1'] +
                             e2 * L['t2'])
            full(pa, 'x')[:] += mv[:, 0]
            full(pa, 'y')[:] += mv[:, 1]
            full(pa, 'z')[:] += mv[:, 2]
        for k, L in enumerate(self.lanes):
            move(L['inlet'], lambda i, k=k: k)
            move(L['outlet'], lambda i, k=k: k)
        move(self.fluid, lambda i: i % nl)

    def relabel(self, L):
        inlet = L['inlet']
        if inlet.get_number_of_particles() == 0:
            return
        fid = set(int(i) for i in full(self.fluid, 'ident'))
        ident = full(inlet, 'ident')
        for k in range(len(ident)):
            if int(ident[k]) in fid:
                new = self.nextid
                self.nextid += 1
                ident[k] = new
                full(inlet, 'ca')[k] = Rig.val_a(new)
                full(inlet, 'cb')[k] = Rig.val_b(new)

    def call(self, kind, stage, L):
        import pysph.sph.equation as E
        E.group_counter = itertools.count()
        obj = L['in_obj'] if kind == 'in' else L['out_obj']
        obj.update(0.0, 0.125, stage)


def run_multi(sc):
    """One trace per lane; the calls of the other lanes appear in it as
    kind 'other' (they may change the shared fluid array only)."""
    try:
        rig = MultiRig(sc)
    except Exception as ex:
        return [dict(id=l['id'], error='%s: %s' % (type(ex).__name__, ex),
                     tb=traceback.format_exc()[-1200:]) for l in sc['multi']]
    calls = [[] for _ in rig.lanes]
    errtext = None
    for op in sc['ops']:
        if op[0] == 'adv':
            rig.advect(op[1], op[2])
            continue
        kind, stage, k = op[0], int(op[1]), int(op[2])
        before = [rig.state(L) for L in rig.lanes]
        try:
            rig.call(kind, stage, rig.lanes[k])
            ok = True
            after = [rig.state(L) for L in rig.lanes]
        except Exception as ex:
            ok = False
            after = before
            errtext = '%s: %s | %s' % (type(ex).__name__, ex,
                                      traceback.format_exc()[-600:])
        for j in range(len(rig.lanes)):
            calls[j].append(dict(kind=kind if j == k else 'other',
                                 stage=stage, ok=ok, before=before[j],
                                 after=after[j]))
        if not ok:
            break
        if kind == 'in':
            rig.relabel(rig.lanes[k])
    out = []
    U = rig.U
    for j, L in enumerate(rig.lanes):
        l = L['sc']
        rec = dict(
            id=l['id'],
            g=dict(Lin=l['Lin'] * FINE, X=l['X'] * FINE, Lout=l['Lout'] * FINE,
                   copyq=l['ptc'] != 'nob', active=[2]),
            code=dict(Lin=int(round(L['ii'].length / U * FINE)),
                      Lout=int(round(L['oi'].length / U * FINE)),
                      LinM=int(round(L['ii'].length / U * MICRO)),
                      LoutM=int(round(L['oi'].length / U * MICRO))),
            mpf=MICRO // FINE,
            code_len_units=[L['ii'].length / U, L['oi'].length / U],
            impl_active=[list(L['in_obj'].active_stages),
                         list(L['out_obj'].active_stages)],
            naxes=L['naxes'], fine=FINE, calls=calls[j])
        if errtext:
            rec['errtext'] = errtext
        out.append(rec)
    return out


def run(sc):
    """Returns the list of trace records of a scenario.  A scenario with a
    'seq' key holds several histories with the SAME array names and
    different geometries that share one process: pair k is built after the
    first half of the history of pair k-1 has run, every pair stays alive,
    and the second halves run once all pairs exist - anything an inlet or
    outlet keeps per process / per array name instead of per object shows."""
    if 'multi' in sc:
        return run_multi(sc)
    if 'seq' not in sc:
        rp = Replay(sc)
        rp.advance(len(sc['ops']))
        return [rp.record()]
    reps = []
    for sub in sc['seq']:
        rp = Replay(sub)
        reps.append(rp)
        rp.advance(len(sub['ops']) // 2)
    for rp in reps:
        rp.advance(len(rp.sc['ops']))
    return [rp.record() for rp in reps]


def ids_of(sc):
    if 'multi' in sc:
        return [s['id'] for s in sc['multi']]
    return [s['id'] for s in sc['seq']] if 'seq' in sc else [sc['id']]


SEEDED_FAULTS = {
    # (class, lines of update() to drop): used only by the self-test of the
    # check, on an in-memory copy of the method - /repo is not touched
    'recycle_x_only': ('InletBase', ('inlet_pa.y[all_idx] +=',
                                     'inlet_pa.z[all_idx] +=')),
    'outlet_no_remove': ('OutletBase', ('source_pa.remove_particles(all_idx)',)),
    'outlet_no_delete': ('OutletBase', ('outlet_pa.remove_particles(all_idx)',)),
}


def seed_fault(name):
    import inspect
    import textwrap
    from pysph.sph.bc import inlet_outlet_manager as M
    cname, drop = SEEDED_FAULTS[name]
    cls = getattr(M, cname)
    src = textwrap.dedent(inspect.getsource(cls.update)).splitlines()
    kept = [l for l in src if not any(d in l for d in drop)]
    if len(kept) != len(src) - len(drop):
        raise RuntimeError('seeded fault %s does not apply' % name)
    ns = {}
    exec(compile('\n'.join(kept) + '\n', '<seeded %s>' % name, 'exec'),
         M.__dict__, ns)
    cls.update = ns['update']


def main():
    import resource
    import signal
    import pysph
    import pysph.base.utils            # noqa: F401 (children inherit imports)
    import pysph.base.kernels          # noqa: F401
    import pysph.base.nnps             # noqa: F401
    import pysph.sph.equation          # noqa: F401
    import pysph.sph.wc.edac           # noqa: F401
    import pysph.sph.integrator        # noqa: F401
    import pysph.tools.sph_evaluator   # noqa: F401
    import pysph.sph.bc.inlet_outlet_manager  # noqa: F401
    src = os.environ.get('VERIF_SRC')
    if src and not os.path.abspath(pysph.__file__).startswith(src):
        sys.stderr.write('pysph imported from %s, expected %s\n' % (
            pysph.__file__, src))
        sys.exit(3)
    if os.environ.get('C16_SEEDED_FAULT'):
        seed_fault(os.environ['C16_SEEDED_FAULT'])
    scens = [json.loads(l) for l in open(sys.argv[1])]
    devnull = os.open(os.devnull, os.O_WRONLY)
    with open(sys.argv[2], 'w') as fo:
        for sc in scens:
            r, w = os.pipe()
            pid = os.fork()
            if pid == 0:
                os.close(r)
                os.dup2(devnull, 1)       # NNPS prints warnings on stdout
                resource.setrlimit(resource.RLIMIT_AS, (8 << 30, 8 << 30))
                signal.alarm(int(os.environ.get('C16_CASE_TIMEOUT', '600')))
                try:
                    out = run(sc)
                except Exception as ex:
                    out = [dict(id=i,
                                error='%s: %s' % (type(ex).__name__, ex),
                                tb=traceback.format_exc()[-1200:])
                           for i in ids_of(sc)]
                data = ''.join(json.dumps(rec) + '\n'
                               for rec in out).encode()
                while data:
                    n = os.write(w, data)
                    data = data[n:]
                os._exit(0)
            os.close(w)
            data = b''
            while True:
                b = os.read(r, 1 << 16)
                if not b:
                    break
                data += b
            os.close(r)
            _, st = os.waitpid(pid, 0)
            if os.WIFSIGNALED(st) or not data.endswith(b'\n'):
                for i in ids_of(sc):
                    fo.write(json.dumps(dict(
                        id=i, crash='signal %d' % (
                            os.WTERMSIG(st) if os.WIFSIGNALED(st) else 0)))
                        + '\n')
            else:
                fo.write(data.decode())
            fo.flush()


if __name__ == '__main__':
    main()
