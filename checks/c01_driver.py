"""Replays neighbour-search scenarios into the real NNPS classes (C01) and
exercises spatial re-ordering (C17).

usage: c01_driver.py SCENARIOS.ndjson OUT.ndjson CONFIGS.json [--reorder]

A scenario is a history: a list of steps, each step the complete abstract
state (per array integer lattice positions and integer smoothing lengths,
lattice unit and origin).  For every (config, scenario) one NNPS object is
built on real ParticleArrays for step 0 and then *mutated* to each following
step (moves, h changes, additions, removals through the public ParticleArray
API) followed by update_domain(); update().  After every step all
(dst, src, i) queries are issued the way every in-repository caller does
(set_context then get_nearest_particles) and, with the cache, through
find_all_neighbors().  Each config runs in a forked child: a crash (signal)
is recorded for the scenario being replayed and the child is restarted after
it.
"""
import json
import os
import sys
import traceback

import numpy as np


def classes():
    from pysph.base import nnps
    return dict(
        ll=nnps.LinkedListNNPS, box=nnps.BoxSortNNPS,
        dbox=nnps.DictBoxSortNNPS, sh=nnps.SpatialHashNNPS,
        esh=nnps.ExtendedSpatialHashNNPS, ci=nnps.CellIndexingNNPS,
        zo=nnps.ZOrderNNPS, ezo=nnps.ExtendedZOrderNNPS,
        sth=nnps.StratifiedHashNNPS, sfc=nnps.StratifiedSFCNNPS,
        oct=nnps.OctreeNNPS, coct=nnps.CompressedOctreeNNPS)


def make_arrays(step, sc):
    from pysph.base.utils import get_particle_array
    u, o = sc['unit'], sc['origin']
    pas = []
    for k, a in enumerate(step['arrays']):
        n = len(a['h'])
        x = o + u * np.array(a['x'], dtype=float)
        y = o + u * np.array(a['y'], dtype=float) if sc['dim'] > 1 \
            else np.zeros(n)
        z = o + u * np.array(a['z'], dtype=float) if sc['dim'] > 2 \
            else np.zeros(n)
        h = u * np.array(a['h'], dtype=float)
        pa = get_particle_array(name='a%d' % k, x=x, y=y, z=z, h=h)
        pa.add_property('ident', type='long', data=np.array(a['id']))
        pa.add_property('vec', stride=3, data=np.repeat(
            np.array(a['id'], dtype=float), 3) + np.tile([.25, .5, .75], n))
        # properties declared after a strided one (scalar and strided)
        pa.add_property('tail', data=np.array(a['id'], dtype=float) + .125)
        pa.add_property('pair', stride=2, type='int', data=np.repeat(
            np.array(a['id']), 2) * 2 + np.tile([0, 1], n))
        pas.append(pa)
    return pas


def mutate(pas, prev, cur, sc):
    """Bring the real arrays from abstract step prev to cur by identity."""
    u, o = sc['unit'], sc['origin']
    for pa, a0, a1 in zip(pas, prev['arrays'], cur['arrays']):
        ids0, ids1 = a0['id'], a1['id']
        gone = [i for i in ids0 if i not in ids1]
        if gone:
            pa.remove_tagged_particles(2)
            cur_ids = list(pa.get('ident', only_real_particles=False))
            pa.remove_particles([cur_ids.index(g) for g in gone])
        cur_ids = [int(v) for v in pa.get('ident', only_real_particles=False)]
        new = [i for i in ids1 if i not in ids0]
        if new:
            k = [ids1.index(i) for i in new]
            n = len(k)

            def col(name, on=True):
                if not on:
                    return np.zeros(n)
                return o + u * np.array([a1[name][j] for j in k], dtype=float)
            pa.add_particles(
                x=col('x'), y=col('y', sc['dim'] > 1), z=col('z', sc['dim'] > 2),
                h=u * np.array([a1['h'][j] for j in k], dtype=float),
                ident=np.array(new),
                vec=np.repeat(np.array(new, dtype=float), 3) +
                np.tile([.25, .5, .75], n),
                tail=np.array(new, dtype=float) + .125,
                pair=np.repeat(np.array(new), 2) * 2 + np.tile([0, 1], n))
        cur_ids = [int(v) for v in pa.get('ident', only_real_particles=False)]
        # move / change h of survivors, in the real array's own order
        pos = {i: j for j, i in enumerate(ids1)}
        x = pa.get('x', only_real_particles=False)
        y = pa.get('y', only_real_particles=False)
        z = pa.get('z', only_real_particles=False)
        h = pa.get('h', only_real_particles=False)
        tags = pa.get('tag', only_real_particles=False)
        for r, i in enumerate(cur_ids):
            if tags[r] != 0:
                continue
            j = pos[i]
            x[r] = o + u * a1['x'][j]
            if sc['dim'] > 1:
                y[r] = o + u * a1['y'][j]
            if sc['dim'] > 2:
                z[r] = o + u * a1['z'][j]
            h[r] = u * a1['h'][j]


def project(pas, sc):
    """Abstract state of the real arrays, in the real arrays' order."""
    u, o = sc['unit'], sc['origin']
    out = []
    BAD = 9999     # garbage (non-finite / far outside the lattice): small
    #                enough for TLC's 32-bit squares of differences

    def iq(t):
        t = float(t)
        if t != t or abs(t) >= BAD:
            return BAD
        return int(round(t))
    for pa in pas:
        def q(name, on=True):
            v = pa.get(name, only_real_particles=False)
            if not on:
                return [0] * len(v)
            return [iq((t - o) / u) for t in v]
        out.append(dict(
            x=q('x'), y=q('y', sc['dim'] > 1), z=q('z', sc['dim'] > 2),
            h=[iq(t / u) for t in pa.get('h', only_real_particles=False)],
            id=[iq(t) if abs(int(t)) < (1 << 30) else (1 << 30) - 1
                for t in pa.get('ident', only_real_particles=False)],
            tag=[iq(t) for t in pa.get('tag', only_real_particles=False)]))
    return out


def query_all(nn, pas, cfg, implicit=False):
    """implicit: no set_context by the caller; get_nearest_particles has to
    switch the (source, destination) pair itself."""
    from cyarray.api import UIntArray
    res = []
    nbrs = UIntArray()
    na = len(pas)
    for d in range(na):
        for s in range(na):
            if not implicit or (cfg.get('cache') and cfg.get('fill')):
                nn.set_context(s, d)
            if cfg.get('cache') and cfg.get('fill'):
                nn.cache[d * na + s].find_all_neighbors()
            for i in range(pas[d].get_number_of_particles()):
                nn.get_nearest_particles(s, d, i, nbrs)
                res.append([d, s, i, [min(int(v), (1 << 30) - 1)
                                      for v in nbrs.get_npy_array()]])
    return res


def reorder_all(nn, pas, sc, via_solver=False):
    """via_solver: the whole of Solver.reorder_particles (the real method, on
    an object that has just the two attributes it uses) instead of one
    spatially_order_particles call per array; the update that follows is then
    the solver's own."""
    from cyarray.api import LongArray
    out = []

    def before_of(k, pa):
        before = dict(
            id=[int(t) for t in pa.get('ident', only_real_particles=False)],
            tag=[int(t) for t in pa.get('tag', only_real_particles=False)])
        idx = LongArray()
        nn.get_spatially_ordered_indices(k, idx)
        return before, [max(-(1 << 30), min(int(v), (1 << 30) - 1))
                        for v in idx.get_npy_array()]

    def after_of(k, pa, before, indices):
        vec = pa.get('vec', only_real_particles=False)
        tail = pa.get('tail', only_real_particles=False)
        pair = pa.get('pair', only_real_particles=False)
        ident = pa.get('ident', only_real_particles=False)
        together = all(
            vec[3 * r] == ident[r] + .25 and vec[3 * r + 1] == ident[r] + .5
            and vec[3 * r + 2] == ident[r] + .75 and tail[r] == ident[r] + .125
            and pair[2 * r] == 2 * ident[r] and pair[2 * r + 1] == 2 * ident[r] + 1
            for r in range(len(ident)))
        return dict(a=k, indices=indices, before=before,
                    together=bool(together),
                    nreal=int(pa.num_real_particles))
    if via_solver:
        import types
        from pysph.solver.solver import Solver
        pre = [before_of(k, pa) for k, pa in enumerate(pas)]
        Solver.reorder_particles(types.SimpleNamespace(particles=pas, nnps=nn))
        for k, pa in enumerate(pas):
            out.append(after_of(k, pa, *pre[k]))
        return out
    for k, pa in enumerate(pas):
        before, indices = before_of(k, pa)
        nn.spatially_order_particles(k)
        out.append(after_of(k, pa, before, indices))
    return out


def run_scenario(sc, cfg, reorder):
    from pysph.base.nnps_base import set_number_of_threads
    cls = classes()[cfg['cls']]
    set_number_of_threads(cfg.get('threads', 1))
    steps = sc['steps']
    pas = make_arrays(steps[0], sc)
    kw = dict(cfg.get('kw', {}))
    if sc.get('domain'):
        from pysph.base.nnps import DomainManager
        dm = sc['domain']
        u, o = sc['unit'], sc['origin']
        lo, hi = o + u * dm['lo'], o + u * dm['hi']
        per = dm['periodic'] + [False] * 3
        kw['domain'] = DomainManager(
            xmin=lo, xmax=hi, ymin=lo, ymax=hi, zmin=lo, zmax=hi,
            periodic_in_x=per[0], periodic_in_y=per[1], periodic_in_z=per[2])
    nn = cls(dim=sc['dim'], particles=pas, radius_scale=float(sc['rs']),
             cache=bool(cfg.get('cache')), **kw)
    out = []
    imp = bool(sc.get('implicit_ctx'))
    for k, st in enumerate(steps):
        if k > 0:
            mutate(pas, steps[k - 1], st, sc)
            nn.update_domain()
            nn.update()
        rec = dict(step=k, arrays=project(pas, sc), results=query_all(nn, pas, cfg, imp))
        if reorder:
            via = bool(sc.get('via_solver'))
            rec['reorder'] = reorder_all(nn, pas, sc, via)
            rec['arrays_reordered'] = project(pas, sc)
            if not via:
                nn.update_domain()
                nn.update()
            rec['arrays_after'] = project(pas, sc)
            rec['results_after'] = query_all(nn, pas, cfg, imp)
        out.append(rec)
    return out


def child(scens, cfg, idxs, wfd, reorder):
    with os.fdopen(wfd, 'w') as w:
        for k in idxs:
            sc = scens[k]
            try:
                steps = run_scenario(sc, cfg, reorder)
                rec = dict(sid=sc['id'], cfg=cfg['ci'], steps=steps)
            except NotImplementedError:
                rec = dict(sid=sc['id'], cfg=cfg['ci'], unsupported=True)
            except Exception as ex:
                rec = dict(sid=sc['id'], cfg=cfg['ci'], error='%s: %s' % (
                    type(ex).__name__, ex),
                    tb=traceback.format_exc()[-600:])
            w.write(json.dumps(rec) + '\n')
            w.flush()
    os._exit(0)


def run_child(scens, cfg, idxs, reorder):
    """Run scenarios idxs in a forked child; returns (lines, crashed_signal)."""
    r, wfd = os.pipe()
    pid = os.fork()
    if pid == 0:
        os.close(r)
        import resource, signal
        resource.setrlimit(resource.RLIMIT_AS, (6 << 30, 6 << 30))
        signal.alarm(600)
        try:
            child(scens, cfg, idxs, wfd, reorder)
        finally:
            os._exit(1)
    os.close(wfd)
    lines = []
    with os.fdopen(r) as rf:
        for line in rf:
            if line.endswith('\n'):
                lines.append(line)
    _, status = os.waitpid(pid, 0)
    sig = 0
    if os.WIFSIGNALED(status):
        sig = os.WTERMSIG(status)
    elif os.WIFEXITED(status) and os.WEXITSTATUS(status) != 0:
        sig = -os.WEXITSTATUS(status)
    return lines, sig


def main():
    classes()                        # import pysph before forking
    import pysph.base.utils          # noqa: F401
    scens = [json.loads(l) for l in open(sys.argv[1])]
    outp = sys.argv[2]
    cfgs = json.load(open(sys.argv[3]))
    reorder = '--reorder' in sys.argv
    CH = 40
    with open(outp, 'w') as fo:
        for cfg in cfgs:
            for c0 in range(0, len(scens), CH):
                idxs = list(range(c0, min(len(scens), c0 + CH)))
                lines, sig = run_child(scens, cfg, idxs, reorder)
                if not sig and len(lines) == len(idxs):
                    fo.writelines(lines)
                    continue
                # a crash (or heap corruption noticed later): the chunk is
                # re-run one scenario per process to attribute it exactly
                for k in idxs:
                    l1, s1 = run_child(scens, cfg, [k], reorder)
                    if s1 or not l1:
                        fo.write(json.dumps(dict(
                            sid=scens[k]['id'], cfg=cfg['ci'],
                            crash='signal %d' % s1)) + '\n')
                    else:
                        fo.writelines(l1)


if __name__ == '__main__':
    main()
