"""Builds real problem definitions (particle arrays, equations, steppers) and
runs pysph's set-up chain on them UP TO BUT EXCLUDING execution; records what
happened.

Runs under the build environment (PYTHONPATH = synchronised copy of /repo).

usage
  c20_driver.py run CASES.ndjson TRACES.ndjson
      First output line: the symtab event (the real table of precomputed
      symbols).  Then one trace per case = the case plus `out`.
  c20_driver.py discover OUT.ndjson CAP
      Code -> spec leg: every Equation / IntegratorStep subclass shipped
      under pysph.sph.** is instantiated (constructor arguments from ARGS),
      its explicit names and symbols are read from the REAL class (method
      signatures) and cases are written: arrays holding everything the class
      needs (closure over the real symbol table) - the baseline - and the
      same with one needed name removed from the destination or the source
      (at most CAP names per class and role; 0 = all).  First line: summary
      (classes found, skipped ones with the reason).

A case (spec/Setup.tla; JSON, sets as lists):
  id, type "case", api "compiler" | "evaluator",
  structure "flat" | "group" | "nested" | "iterated" | "multistage",
  arrays   [{name, props [..], consts [..]}]   props = ALL names, consts the
                                               ones that are constants
  eqs      [{name, dest, sources [..], d [..], s [..], syms [..],
             meth        generated probe: method carrying the d names
           | cls, args   shipped class "module:Class", JSON of kwargs}]
  steppers [{array, name, d [..], (cls)}]
  execute  (optional) after an accepted build: compile and run once

The set-up chain (one forked child per case: RLIMIT_AS 6 GB, alarm 120 s;
pysph is imported in the parent before forking):
  api compiler   stage "aeval"    AccelerationEval(arrays, equations, kernel)
                                  [make_acceleration_evals for multistage]
                 stage "compiler" SPHCompiler(a_evals, integrator)
                 stage "codegen"  what SPHCompiler.compile() does before the
                                  C compiler is invoked: _get_code() and
                                  get_code() of the other evaluators' helpers
  api evaluator  stage "evaluator" SPHEvaluator(arrays, equations, dim,
                                  kernel) with its compiler's compile()
                                  stopped at the same point
Nothing that was generated is compiled, loaded or run, unless the case says
`execute` (complete problems only, chosen by the check).

out = {k: "accepted" | "rejected" | "crash" | "timeout" | "harness-error",
       stage, etype, msg, tokens (identifiers occurring in the message), ran}
Probe equations are generated as Python source in a module file under the
working directory (pysph reads method sources with inspect.getsource).
The two mako templates of pysph's code generator are parsed once in the
parent (cache_templates); everything else is the unmodified code.
Environment C20_MODE (self-tests of the check; this process only):
  patched  a private copy of pysph/sph/acceleration_eval.py with the proposed
           repair (PATCH_*) replaces the module
  nocheck  check_equation_array_properties does nothing      (seeded defect)
  noname   its error message does not name the equation      (seeded defect)
  dedup    an equation whose class and dest were checked before is skipped
  laststepper  only the last-given stepper's properties are checked
"""
import ast
import importlib
import importlib.util
import inspect
import json
import os
import pkgutil
import re
import resource
import signal
import sys
import traceback

os.environ.setdefault('OMP_NUM_THREADS', '1')
sys.dont_write_bytecode = True

import numpy as np

import pysph
import pysph.sph
from pysph.base.particle_array import ParticleArray
from pysph.base.kernels import CubicSpline

# -- selftest hooks: act on THIS process only, /repo is not touched ----------
# The proposed repair of check_equation_array_properties (see the report of
# C20): the fail-fast check also follows the table of precomputed symbols.
PATCH_OLD = '''    p_arrays = dict((x.name, x) for x in particle_arrays)
    _src, _dest = get_arrays_used_in_equation(equation)
'''
PATCH_NEW = '''    p_arrays = dict((x.name, x) for x in particle_arrays)
    _src, _dest = get_arrays_used_in_equation(equation)
    if not equation.no_source and hasattr(equation, 'loop'):
        # Arrays read by the precomputed symbols (VIJ, HIJ, ...) that the
        # loop uses, including the symbols those are computed from.
        pre = Group.pre_comp
        todo = [x for x in getfullargspec(equation.loop).args if x in pre]
        seen = set()
        while todo:
            sym = todo.pop()
            if sym not in seen:
                seen.add(sym)
                _src.update(pre[sym].src_arrays)
                _dest.update(pre[sym].dest_arrays)
                todo.extend(x for x in pre[sym].symbols if x in pre)
'''
PATCH_IMPORT_OLD = '''from compyle.config import get_config
'''
PATCH_IMPORT_NEW = '''from inspect import getfullargspec

from compyle.config import get_config
'''


def patched_source():
    import pysph.sph.acceleration_eval as m
    src = open(m.__file__).read()
    if 'todo = [x for x in getfullargspec(equation.loop).args' in src:
        raise SystemExit('C20 patch: the repair is already in %s'
                         % m.__file__)
    for old, new in ((PATCH_OLD, PATCH_NEW),
                     (PATCH_IMPORT_OLD, PATCH_IMPORT_NEW)):
        if src.count(old) != 1:
            raise SystemExit('C20 patch does not apply to %s (pattern not '
                             'found exactly once)' % m.__file__)
        src = src.replace(old, new)
    return src


def install_hooks(workdir):
    mode = os.environ.get('C20_MODE', '')
    if mode == 'patched':
        # a private, patched copy of pysph.sph.acceleration_eval replaces the
        # module before anything else imports names from it
        src = patched_source()
        path = os.path.join(workdir, 'c20_patched_acceleration_eval_%d.py'
                            % os.getpid())
        with open(path, 'w') as fp:
            fp.write(src)
        for k in [k for k in sys.modules
                  if k in ('pysph.sph.acceleration_eval',
                           'pysph.sph.sph_compiler',
                           'pysph.tools.sph_evaluator')]:
            del sys.modules[k]
        spec = importlib.util.spec_from_file_location(
            'pysph.sph.acceleration_eval', path)
        mod = importlib.util.module_from_spec(spec)
        sys.modules['pysph.sph.acceleration_eval'] = mod
        spec.loader.exec_module(mod)
        pysph.sph.acceleration_eval = mod
    elif mode == 'nocheck':
        # seeded defect: the fail-fast check does nothing
        import pysph.sph.acceleration_eval as m
        m.check_equation_array_properties = lambda eq, arrays: None
    elif mode == 'noname':
        # seeded defect: the error does not name the equation
        import pysph.sph.acceleration_eval as m
        orig = m.check_equation_array_properties

        def check(eq, arrays):
            try:
                orig(eq, arrays)
            except RuntimeError as ex:
                raise RuntimeError(str(ex).replace(eq.name, 'an equation'))
        m.check_equation_array_properties = check
    elif mode == 'dedup':
        # seeded defect: an equation whose class and dest were already
        # checked is not checked again
        import pysph.sph.acceleration_eval as m
        orig = m.check_equation_array_properties
        seen = set()

        def check(eq, arrays):
            key = (eq.__class__.__name__, eq.dest, id(arrays))
            if key not in seen:
                seen.add(key)
                orig(eq, arrays)
        m.check_equation_array_properties = check
    elif mode == 'laststepper':
        # seeded defect: only the stepper given last has its properties
        # checked
        import pysph.sph.integrator_cython_helper as m
        orig = m.IntegratorCythonHelper._check_arrays_for_properties

        def check(self, dest, args):
            if dest == list(self.object.steppers)[-1]:
                orig(self, dest, args)
        m.IntegratorCythonHelper._check_arrays_for_properties = check
    elif mode:
        raise SystemExit('unknown C20_MODE %r' % mode)


# -- the real table of precomputed symbols -----------------------------------
def real_symtab():
    """sym -> (d names, s names, other symbols), read from the SOURCE TEXT of
    every entry of precomputed_symbols() (the text that is pasted into the
    generated loop)."""
    from pysph.sph.equation import precomputed_symbols
    pre = precomputed_symbols()
    tab = {}
    for sym, cb in pre.items():
        names = set(n.id for n in ast.walk(ast.parse(cb.code))
                    if isinstance(n, ast.Name))
        tab[sym] = dict(
            sym=sym,
            d=sorted(n[2:] for n in names
                     if n.startswith('d_') and n != 'd_idx'),
            s=sorted(n[2:] for n in names
                     if n.startswith('s_') and n != 's_idx'),
            deps=sorted(n for n in names if n in pre and n != sym))
    return tab


def closure(tab, syms):
    todo = [s for s in syms if s in tab]
    seen = set()
    while todo:
        s = todo.pop()
        if s not in seen:
            seen.add(s)
            todo.extend(tab[s]['deps'])
    return seen


# -- building a case ----------------------------------------------------------
DEFAULTS = ('tag', 'pid', 'gid')
VALUES = dict(h=0.25, rho=1.0, m=1.0)


def build_arrays(case):
    pas = []
    for a in case['arrays']:
        props = set(a['props'])
        consts = set(a.get('consts', ())) & props
        n = 3
        kw = {}
        for p in sorted(props - consts - set(DEFAULTS)):
            if p == 'x':
                kw[p] = np.arange(n) * 0.125
            else:
                kw[p] = np.zeros(n) + VALUES.get(p, 0.5)
        pa = ParticleArray(name=a['name'],
                           constants=dict((c, [1.0]) for c in sorted(consts)),
                           **kw)
        for p in DEFAULTS:
            if p not in props:
                pa.remove_property(p)
        have = set(pa.properties.keys()) | set(pa.constants.keys())
        if have != props:
            raise RuntimeError('harness: array %s has %s, case says %s' % (
                a['name'], sorted(have), sorted(props)))
        pas.append(pa)
    return pas


def is_vector(sym):
    from pysph.sph.equation import Group
    return isinstance(Group.pre_comp[sym].context[sym], (list, tuple))


def probe_eq_source(e, consts):
    """Python source of a probe Equation subclass with the given explicit
    names (method `meth` carries the d names; s names and symbols are
    arguments of `loop`)."""
    d, s, syms = sorted(e['d']), sorted(e['s']), sorted(e['syms'])
    meth = e.get('meth', 'loop')

    def ref(role, n):
        return '%s_%s[0]' % (role, n) if n in consts \
            else '%s_%s[%s_idx]' % (role, n, role)
    out = ['class %s(Equation):' % e['name']]
    dargs = ''.join(', d_%s' % n for n in d)
    writes = ['        %s = %s + tmp' % (ref('d', n), ref('d', n))
              for n in d if n not in consts]
    reads = ['        tmp += %s' % ref('d', n) for n in d if n in consts]
    if meth == 'initialize' and d:
        out += ['    def initialize(self, d_idx%s):' % dargs,
                '        tmp = 0.0'] + reads + writes
    if meth == 'post_loop' and d:
        out += ['    def post_loop(self, d_idx%s):' % dargs,
                '        tmp = 1.0'] + reads + writes
    if meth == 'loop' or s or syms or len(out) == 1:
        args = 'd_idx, s_idx' + (dargs if meth == 'loop' else '') + \
            ''.join(', s_%s' % n for n in s) + ''.join(', %s' % y for y in syms)
        out += ['    def loop(self, %s):' % args, '        tmp = 0.0']
        out += ['        tmp += %s' % ref('s', n) for n in s]
        out += ['        tmp += %s' % (y + '[0]' if is_vector(y) else y)
                for y in syms]
        if meth == 'loop':
            out += reads + writes
    return '\n'.join(out) + '\n'


def probe_step_source(st, consts):
    """A probe IntegratorStep subclass: one method per entry of `meths`
    (initialize, stage1, stage2, ...) with the d names of that method."""
    out = ['class %s(IntegratorStep):' % st['name']]
    for me in st.get('meths') or [dict(m='stage1', d=st['d'])]:
        d = sorted(me['d'])
        args = ''.join(', d_%s' % n for n in d)
        out.append('    def %s(self, d_idx%s, dt):' % (me['m'], args))
        out += ['        d_%s[0] += dt' % n if n in consts else
                '        d_%s[d_idx] += dt' % n for n in d] or ['        pass']
    return '\n'.join(out) + '\n'


def probe_integrator_source(meths):
    """An Integrator whose one_timestep calls every stage that some stepper
    has (initialize first), the way the shipped integrators do."""
    out = ['class ProbeIntegrator(Integrator):',
           '    def one_timestep(self, t, dt):']
    if 'initialize' in meths:
        out.append('        self.initialize()')
    stages = sorted(int(m[5:]) for m in meths if m != 'initialize')
    for k in stages:
        out += ['        self.compute_accelerations()',
                '        self.stage%d()' % k,
                '        self.update_domain()',
                '        self.do_post_stage(dt, %d)' % k]
    if not stages:
        out.append('        self.compute_accelerations()')
    return '\n'.join(out) + '\n'


def stage_methods(obj):
    return [m for m in dir(obj)
            if m == 'initialize' or re.match(r'stage\d+$', m)]


def make_eq(cls, dest, sources, kw):
    kw = dict(kw)
    if kw.pop('__nosources__', False):
        return cls(dest=dest, **kw)
    return cls(dest=dest, sources=list(sources) if sources else None, **kw)


def load_class(spec):
    mod, name = spec.split(':')
    return getattr(importlib.import_module(mod), name)


def build_objects(case, workdir):
    """-> (equation objects in written order, {array: stepper object},
    integrator class or None)."""
    consts = set()
    for a in case['arrays']:
        consts.update(a.get('consts', ()))
    src = ['from pysph.sph.equation import Equation',
           'from pysph.sph.integrator import Integrator',
           'from pysph.sph.integrator_step import IntegratorStep', '']
    seen = set()
    meths = set()
    for e in case['eqs']:
        if 'cls' not in e and e['name'] not in seen:
            seen.add(e['name'])
            src.append(probe_eq_source(e, consts))
    for st in case['steppers']:
        if 'cls' in st:
            meths.update(stage_methods(load_class(st['cls'])))
        else:
            meths.update(me['m'] for me in st.get('meths') or
                         [dict(m='stage1')])
            if st['name'] not in seen:
                seen.add(st['name'])
                src.append(probe_step_source(st, consts))
    if case['steppers']:
        src.append(probe_integrator_source(meths))
    name = 'c20probe_%d_%d' % (os.getpid(), build_objects.n)
    build_objects.n += 1
    path = os.path.join(workdir, name + '.py')
    build_objects.files.append(path)
    with open(path, 'w') as fp:
        fp.write('\n'.join(src))
    spec = importlib.util.spec_from_file_location(name, path)
    mod = importlib.util.module_from_spec(spec)
    sys.modules[name] = mod
    spec.loader.exec_module(mod)
    eqs = []
    for e in case['eqs']:
        sources = list(e['sources']) or None
        if 'cls' in e:
            eqs.append(make_eq(load_class(e['cls']), e['dest'], sources,
                               json.loads(e['args'])))
        else:
            eqs.append(getattr(mod, e['name'])(dest=e['dest'],
                                               sources=sources))
    steppers = {}
    for st in case['steppers']:
        cls = load_class(st['cls']) if 'cls' in st else getattr(mod,
                                                                st['name'])
        steppers[st['array']] = cls()
    return eqs, steppers, getattr(mod, 'ProbeIntegrator', None)


build_objects.n = 0
build_objects.files = []


def wrap(eqs, structure):
    """The equations as written (spec/Setup.tla Stages)."""
    from pysph.sph.equation import Group, MultiStageEquations
    if structure == 'flat':
        return list(eqs)
    if structure == 'group':
        return [Group(equations=[e]) for e in eqs]
    if structure == 'nested':
        return [Group(equations=[Group(equations=[e]) for e in eqs])]
    if structure == 'iterated':
        return [Group(equations=[Group(equations=[e]) for e in eqs],
                      iterate=True, min_iterations=1, max_iterations=2)]
    if structure == 'multistage':
        return MultiStageEquations(
            [[e] if i % 2 == 0 else [Group(equations=[e])]
             for i, e in enumerate(eqs)])
    raise RuntimeError('harness: structure %r' % structure)


class Reached(Exception):
    """The evaluator's compiler generated all code; stop before compiling."""


def codegen(compiler):
    """What SPHCompiler.compile() does before the C compiler is invoked."""
    compiler._get_code()
    for h in compiler.acceleration_eval_helpers[1:]:
        h.get_code()


def tokens_of(msg):
    """The identifiers occurring in the message; for an argument name d_x /
    s_x also x (an error that speaks of 'd_ae' names ae)."""
    toks = set(re.findall(r'(?<![A-Za-z0-9_])[A-Za-z_][A-Za-z0-9_]*', msg))
    toks.update(t[2:] for t in list(toks)
                if t[:2] in ('d_', 's_') and len(t) > 2)
    return sorted(toks)


def rejected(stage, ex):
    msg = str(ex)
    return dict(k='rejected', stage=stage, etype=type(ex).__name__,
                msg=msg[:600], tokens=tokens_of(msg), ran='')


def mutate_arrays(pas, case):
    """The same ParticleArray objects, changed into the arrays of `case`
    (properties / constants removed or added)."""
    by = dict((pa.name, pa) for pa in pas)
    out = []
    for a in case['arrays']:
        pa = by[a['name']]
        want = set(a['props'])
        for n in sorted((set(pa.properties) | set(pa.constants)) - want):
            if n in pa.constants:
                pa.constants.pop(n)
            else:
                pa.remove_property(n)
        for n in sorted(want - set(pa.properties) - set(pa.constants)):
            if n in a.get('consts', ()):
                pa.add_constant(n, [1.0])
            else:
                pa.add_property(n)
        have = set(pa.properties.keys()) | set(pa.constants.keys())
        if have != want:
            raise RuntimeError('harness: array %s has %s, case says %s' % (
                a['name'], sorted(have), sorted(want)))
        out.append(pa)
    return out


def run_chain(case, workdir, pas=None, objs=None):
    """One build.  -> (out, arrays, (equation objects, stepper objects,
    integrator class)) - the last two for the next build of a history."""
    from pysph.sph.equation import MultiStageEquations
    from pysph.sph.acceleration_eval import (AccelerationEval,
                                             make_acceleration_evals)
    from pysph.sph.sph_compiler import SPHCompiler
    if pas is None:
        pas = build_arrays(case)
    if objs is None:
        objs = build_objects(case, workdir)
    eqs, steppers, icls = objs
    program = wrap(eqs, case['structure'])
    kernel = CubicSpline(dim=1)
    integ = icls(**steppers) if steppers else None
    acc = dict(k='accepted', stage='', etype='', msg='', tokens=[], ran='')
    if case['api'] == 'evaluator':
        import pysph.tools.sph_evaluator as se

        # (this is the forked child: the class itself is changed, so that
        # no path inside SPHEvaluator can reach the C compiler)
        def compile_stopped(self):
            codegen(self)
            raise Reached()
        SPHCompiler.compile = compile_stopped
        try:
            se.SPHEvaluator(pas, program, dim=1, kernel=kernel)
        except Reached:
            pass
        except Exception as ex:
            return rejected('evaluator', ex), pas, objs
        return acc, pas, objs
    stage = 'aeval'
    try:
        if isinstance(program, MultiStageEquations):
            evs = make_acceleration_evals(pas, program, kernel)
        else:
            evs = [AccelerationEval(pas, program, kernel)]
        stage = 'compiler'
        comp = SPHCompiler(evs, integ)
        stage = 'codegen'
        codegen(comp)
    except Exception as ex:
        return rejected(stage, ex), pas, objs
    if case.get('execute'):
        # complete problems only (chosen by the check): compile and run once
        from pysph.base.nnps import LinkedListNNPS
        comp.compile()
        nnps = LinkedListNNPS(dim=1, particles=pas, radius_scale=2.0)
        for ev in evs:
            ev.set_nnps(nnps)
        if integ is not None:
            integ.set_nnps(nnps)
        for ev in evs:
            ev.compute(0.0, 0.125)
        if integ is not None:
            integ.step(0.0, 0.125)
        acc['ran'] = 'ok'
    return acc, pas, objs


def run_case(case, workdir):
    """-> out, or for a history (`builds`: the problems built one after the
    other in this process; `reuse`: from the same equation and stepper
    objects; `mutate`: and the same array objects) the list of outs."""
    if 'builds' not in case:
        return run_chain(case, workdir)[0]
    outs = []
    pas = objs = None
    for b in case['builds']:
        if pas is not None and case['mutate']:
            pas = mutate_arrays(pas, b)
        else:
            pas = None
        out, pas, objs = run_chain(b, workdir, pas,
                                   objs if case['reuse'] else None)
        outs.append(out)
    return outs


def run_in_child(case, workdir):
    r, w = os.pipe()
    sys.stdout.flush()
    pid = os.fork()
    if pid == 0:
        code = 0
        try:
            os.close(r)
            resource.setrlimit(resource.RLIMIT_AS, (6 << 30, 6 << 30))
            resource.setrlimit(resource.RLIMIT_CORE, (0, 0))
            signal.alarm(600 if case.get('execute') else 120)
            null = os.open(os.devnull, os.O_WRONLY)
            os.dup2(null, 1)
            os.dup2(null, 2)
            try:
                out = run_case(case, workdir)
            except BaseException:
                out = dict(k='harness-error', stage='', etype='',
                           msg=traceback.format_exc()[-1500:], tokens=[],
                           ran='')
            os.write(w, json.dumps(out).encode())
        except BaseException:
            code = 3
        finally:
            for f in build_objects.files:
                try:
                    os.unlink(f)
                except OSError:
                    pass
            os._exit(code)
    os.close(w)
    chunks = []
    while True:
        b = os.read(r, 65536)
        if not b:
            break
        chunks.append(b)
    os.close(r)
    _, status = os.waitpid(pid, 0)
    data = b''.join(chunks)
    if os.WIFSIGNALED(status):
        sig = os.WTERMSIG(status)
        k = 'timeout' if sig == signal.SIGALRM else 'crash'
        return dict(k=k, stage='', etype='', msg='signal %d' % sig,
                    tokens=[], ran='')
    if not data:
        return dict(k='harness-error', stage='', etype='',
                    msg='child exit %d without a result' %
                    os.WEXITSTATUS(status), tokens=[], ran='')
    return json.loads(data.decode())


def cache_templates():
    """pysph re-parses its two mako templates (acceleration_eval_cython.mako,
    integrator_cython.mako) for every code generation: 2/3 of the cost of a
    case.  The parent parses each once and the helpers' `Template` name is
    bound to a memoising factory, so that the forked children render the
    already parsed templates.  Rendering (where the stepper checks live) is
    untouched."""
    import mako.template
    import pysph.sph.acceleration_eval_cython_helper as h1
    import pysph.sph.integrator_cython_helper as h2
    cache = {}

    def Template(filename=None, **kw):
        key = (filename, tuple(sorted(kw.items())))
        if key not in cache:
            cache[key] = mako.template.Template(filename=filename, **kw)
        return cache[key]
    for h, f in ((h1, 'acceleration_eval_cython.mako'),
                 (h2, 'integrator_cython.mako')):
        h.Template = Template
        Template(filename=os.path.join(os.path.dirname(h.__file__), f))


def preload():
    """Import every module of pysph.sph (before forking)."""
    mods, failed = [], []
    for m in pkgutil.walk_packages(pysph.sph.__path__, 'pysph.sph.'):
        n = m.name
        if '.tests' in n or 'gpu' in n or n.endswith('_mako'):
            continue
        try:
            mods.append(importlib.import_module(n))
        except BaseException as ex:
            failed.append([n, '%s: %s' % (type(ex).__name__, str(ex)[:100])])
    return mods, failed


def main_run(inp, outp):
    workdir = os.path.dirname(os.path.abspath(outp))
    install_hooks(workdir)
    import pysph.sph.acceleration_eval      # noqa: F401  (before forking)
    import pysph.sph.sph_compiler           # noqa: F401
    import pysph.sph.integrator             # noqa: F401
    import pysph.tools.sph_evaluator        # noqa: F401
    import pysph.base.nnps                  # noqa: F401
    cache_templates()
    cases = [json.loads(line) for line in open(inp)]
    if any('cls' in e for c in cases for b in c.get('builds', [c])
           for e in b['eqs'] + b['steppers']):
        preload()
    tab = real_symtab()
    with open(outp, 'w') as fo:
        fo.write(json.dumps(dict(
            type='symtab', id='symtab',
            pysph=os.path.dirname(pysph.__file__),
            mode=os.environ.get('C20_MODE', ''),
            table=[tab[k] for k in sorted(tab)])) + '\n')
        fo.flush()
        for case in cases:
            tr = dict(case)
            out = run_in_child(case, workdir)
            if 'builds' in case and isinstance(out, dict):
                out = [out] * len(case['builds'])  # (crash: no build returned)
            tr['outs' if 'builds' in case else 'out'] = out
            fo.write(json.dumps(tr) + '\n')
            fo.flush()


# -- code -> spec leg: shipped classes ---------------------------------------
ARGS = dict(dim=2, debug=False, tolerance=1e-3, ndes=2, hdx=1.2, k=1.0,
            fkern=1.0, sources=None)
EQ_METHODS = ('initialize', 'initialize_pair', 'loop', 'loop_all',
              'post_loop')


def ctor_args(cls, fill_none=False):
    """Admissible constructor arguments: the required ones (and, on the
    second attempt, those whose default is None) from ARGS, else 1.0."""
    spec = inspect.getfullargspec(cls.__init__)
    args = spec.args[1:]
    defaults = spec.defaults or ()
    nd = len(defaults)
    req = args[:len(args) - nd]
    if fill_none:
        req += [a for a, v in zip(args[len(args) - nd:], defaults)
                if v is None]
    return dict((a, ARGS.get(a, 1.0)) for a in req
                if a not in ('dest', 'sources'))


def array_names(obj, methods):
    d, s = set(), set()
    for m in methods:
        meth = getattr(obj, m, None)
        if meth is None:
            continue
        for a in inspect.getfullargspec(meth).args:
            if a.startswith('d_') and a != 'd_idx':
                d.add(a[2:])
            elif a.startswith('s_') and a != 's_idx':
                s.add(a[2:])
    return d, s


def pick(names, groups, cap):
    """The names to remove in turn (cap 0: all).  `groups`: the origins of
    the needs - one set of names per method of the class, one for the names
    needed only through a symbol.  Every origin is covered by a name of its
    own where it has one (else by any of its names), whatever the cap; then
    up to cap names in all."""
    names = sorted(names)
    if not cap:
        return names
    groups = [sorted(set(g) & set(names)) for g in groups]
    groups = [g for g in groups if g]
    out = []
    for g in groups:
        own = [n for n in g if sum(n in h for h in groups) == 1]
        cand = [n for n in own + g if n not in out]
        if cand and not set(own or g) & set(out):
            out.append(cand[0])
    rest = [n for n in names if n not in out]
    while len(out) < cap and rest:
        out.append(rest.pop(len(rest) // 2))
    return sorted(out)


def bystander(arrays, i, names):
    """Every third case as it is; in the others the problem has one more
    array, pa_o, that nothing is applied to and that owns every name the
    other arrays are asked for as a CONSTANT, listed first or last."""
    if i % 3 == 2:
        return arrays
    full = set(names) - set(DEFAULTS)
    o = dict(name='pa_o', props=sorted(full | set(DEFAULTS)),
             consts=sorted(full))
    return [o] + arrays if i % 3 == 0 else arrays + [o]


def main_discover(outp, cap):
    from pysph.sph.equation import Equation
    from pysph.sph.integrator_step import IntegratorStep
    mods, failed = preload()
    tab = real_symtab()
    eqc, stc = {}, {}
    for mod in mods:
        for k, v in vars(mod).items():
            if inspect.isclass(v) and v.__module__ == mod.__name__:
                if issubclass(v, Equation) and v is not Equation:
                    eqc['%s:%s' % (mod.__name__, k)] = v
                if issubclass(v, IntegratorStep) and v is not IntegratorStep:
                    stc['%s:%s' % (mod.__name__, k)] = v
    structures = ('flat', 'group', 'nested', 'multistage')
    skipped, cases = [], []
    ninst = 0
    for k, key in enumerate(sorted(eqc)):
        cls = eqc[key]
        pair = any(hasattr(cls, m) for m in ('loop', 'loop_all',
                                             'initialize_pair'))
        sources = ['pa_s1'] if pair else []
        try:
            kw = ctor_args(cls)
            spec = inspect.getfullargspec(cls.__init__)
            if 'sources' not in spec.args and spec.varkw is None:
                # (dest only: the class fixes sources=None itself)
                sources = []
                kw['__nosources__'] = True
            try:
                obj = make_eq(cls, 'pa_d', sources, kw)
            except Exception:
                kw.update(ctor_args(cls, fill_none=True))
                obj = make_eq(cls, 'pa_d', sources, kw)
            args = json.dumps(kw)
        except BaseException as ex:
            skipped.append([key, 'constructor: %s: %s' % (
                type(ex).__name__, str(ex)[:100])])
            continue
        ninst += 1
        d, s = array_names(obj, EQ_METHODS)
        per = [array_names(obj, [m]) for m in EQ_METHODS]
        syms = set()
        if hasattr(obj, 'loop'):
            syms = set(a for a in inspect.getfullargspec(obj.loop).args
                       if a in tab)
        cl = closure(tab, syms) if sources else set()
        symd = set(n for y in cl for n in tab[y]['d'])
        syms_ = set(n for y in cl for n in tab[y]['s'])
        need = {'pa_d': d | symd, 'pa_s1': (s | syms_) if sources else set()}
        expl = {'pa_d': d, 'pa_s1': s}
        eq = dict(name=cls.__name__, dest='pa_d', sources=sources,
                  d=sorted(d), s=sorted(s), syms=sorted(syms), cls=key,
                  args=args)

        def mk(removed):
            arrays = []
            for a in ('pa_d', 'pa_s1'):
                props = set(need[a]) | set(DEFAULTS)
                if removed and removed[0] == a:
                    props.discard(removed[1])
                arrays.append(dict(name=a, props=sorted(props), consts=[]))
            return dict(type='case', leg='shipped-eq', cls=key, api='compiler',
                        structure=structures[k % 4],
                        arrays=bystander(arrays, len(cases),
                                         need['pa_d'] | need['pa_s1']),
                        eqs=[eq], steppers=[], removed=list(removed or ()))
        cases.append(mk(None))
        for a, j in (('pa_d', 0), ('pa_s1', 1)):
            groups = [p[j] for p in per] + [need[a] - expl[a]]
            for n in pick(need[a], groups, cap):
                cases.append(mk((a, n)))
    nst = 0
    for key in sorted(stc):
        cls = stc[key]
        try:
            obj = cls()
        except BaseException as ex:
            skipped.append([key, 'constructor: %s: %s' % (
                type(ex).__name__, str(ex)[:100])])
            continue
        nst += 1
        meths = stage_methods(obj)
        d, s = array_names(obj, meths)
        d |= s                     # a stepper's s_ names denote its own array
        per = [set().union(*array_names(obj, [m])) for m in meths]
        probe = dict(name='ProbeB', dest='pa_d', sources=[], d=['m'], s=[],
                     syms=[], meth='initialize')
        st = dict(array='pa_d', name=cls.__name__, d=sorted(d), cls=key)

        def mks(removed, i):
            props = set(d) | {'m'} | set(DEFAULTS)
            if removed:
                props.discard(removed[1])
            return dict(type='case', leg='shipped-stepper', cls=key,
                        api='compiler', structure='flat',
                        arrays=bystander([dict(name='pa_d',
                                               props=sorted(props),
                                               consts=[])], i,
                                         d | {'m'}),
                        eqs=[probe], steppers=[st],
                        removed=list(removed or ()))
        cases.append(mks(None, len(cases)))
        for n in pick(d, per, cap):
            # (alone, and with another array that owns the name)
            cases.append(mks(('pa_d', n), 2))
            cases.append(mks(('pa_d', n), len(cases) % 2))
    with open(outp, 'w') as fo:
        fo.write(json.dumps(dict(
            type='discover', equation_classes=len(eqc), instantiated=ninst,
            stepper_classes=len(stc), steppers_instantiated=nst,
            modules=len(mods), modules_not_importable=failed,
            skipped=skipped)) + '\n')
        for c in cases:
            fo.write(json.dumps(c) + '\n')


if __name__ == '__main__':
    if sys.argv[1] == 'run':
        main_run(sys.argv[2], sys.argv[3])
    elif sys.argv[1] == 'discover':
        main_discover(sys.argv[2], int(sys.argv[3]))
    elif sys.argv[1] == 'patch':
        sys.stdout.write(patched_source())
    else:
        raise SystemExit(__doc__)
