"""C11 - saved output loads back to the same particles and solver data.

Spec:    spec/Output.tla (EXTENDS ParticleArray): Stored(), the clauses of the
         round-trip relation, Failed(case), known-finding signatures.
Design:  spec/OutputMC.tla - mechanism model of dump (meta-data captured
         separately from the stored columns; npz / hdf5 writers) and load
         (array rebuilt by add_property calls in any order, align) checked
         exhaustively against RoundTrip on a small universe; a second
         configuration models the hdf5 reader as implemented and checks that
         every failing clause is explained by a known-finding signature.
Binding: array lists (systematic over type x stride x default x output list,
         plus seeded random lists of 1-3 arrays) are built as real
         ParticleArray objects, dumped and loaded with pysph.solver.utils
         for the complete product {npz, hdf5} x compress x detailed x
         only_real (+ version-1 npz files written with numpy only); the
         projections before dump / after load are validated by TLC
         (spec/TraceOutput.tla), which computes the verdict of every case.
"""
import hashlib
import json
import os
import random
import shutil
import sys
import time
from concurrent.futures import ThreadPoolExecutor

sys.path.insert(0, os.path.dirname(os.path.dirname(os.path.abspath(__file__))))
from mbv import build, tlc                            # noqa: E402
from mbv.harness import Check, MachineryError, main   # noqa: E402

TYPES = ['double', 'float', 'int', 'long', 'unsigned int']
SIGNED = ('double', 'float', 'int', 'long')
POOL = ['x', 'u', 'A', 'm', 'k', 'w', 'rho', 'au']
CPOOL = ['c1', 'c2', 'cm']
ANAMES = ['fluid', 'solid', 'b', 'A1', 'z', 'inlet']
BUILTIN = ['tag', 'pid', 'gid']
NWORK = 16


class Fresh(object):
    """distinct small integers (exact in float32, fit every C type)"""

    def __init__(self):
        self.c = 0

    def __call__(self, n):
        out = list(range(self.c + 1, self.c + n + 1))
        self.c += n
        return out


def all_combos():
    return [[f, c, d, o] for f in ('npz', 'hdf5') for c in (False, True)
            for d in (False, True) for o in (True, False)]


def prop_names(arr):
    out = []
    for n in [p['name'] for p in arr['props']] + \
            [p['name'] for p in arr['late']] + BUILTIN:
        if n not in out:
            out.append(n)
    return out


def v1_combos(arrays, bytes_keys):
    """version-1 files hold no strides: only when every stored column has
    stride 1"""
    out = []
    if any(a.get('exact') for a in arrays):
        # version-1 files have no types (everything loads as double)
        return out
    for d in (False, True):
        ok = True
        for a in arrays:
            st = {p['name']: p['stride'] for p in a['props'] + a['late']}
            cols = a['outs'] if (a['outs'] and not d) else list(st)
            if any(st.get(p, 1) != 1 for p in cols):
                ok = False
        if ok:
            for o in (True, False):
                out.append(['npz1', False, d, o, ''])
            if bytes_keys:
                out.append(['npz1', False, d, True, 'bytes-keys'])
    return out


def mk_array(name, n, tags, props, late=(), consts=None, outs=(),
             default_tag=0, exact=False, set_defaults=None):
    tags = list(tags)
    if exact:
        # real particles first: the constructor's alignment is the identity
        # and the driver can write the exact values row by row
        tags = sorted(tags, key=lambda t: t != 0)
    return dict(name=name, n=n, tags=tags, props=list(props),
                late=list(late), consts=consts or {}, outs=list(outs),
                default_tag=default_tag, exact=exact,
                set_defaults=set_defaults or {})


# ---- solver data ---------------------------------------------------------
def V(k, v=None, **kw):
    return dict(k=k, v=v, **kw)


def gen_sd(rng, k):
    """(flat, rich): what both formats hold (numbers of any size, bools,
    str, homogeneous sequences, numpy scalars / arrays) and, for npz only,
    anything picklable (None, bytes, mixed lists, tuples, nested
    dictionaries with int / bytes / str keys)."""
    base = dict(
        t=V('float', rng.choice(['f:' + (0.1 * rng.randint(0, 999)).hex(),
                                 str(rng.randint(0, 9)), 'f:0x1.0p-3'])),
        dt=V('float', 'f:' + (1e-5 * rng.randint(1, 99)).hex()),
        count=V('int', str(rng.choice([0, k, 99999, 2 ** 31, 2 ** 53 + 1]))))
    flat_pool = [
        ('flag', V('bool', rng.random() < 0.5)),
        ('scheme', V('str', rng.choice(['wcsph', '', 'a b', '0', "b'x'"]))),
        ('big', V('int', str(rng.choice([-5, 2 ** 62 + 1, -2 ** 63])))),
        ('dims', V('list', [V('int', str(i)) for i in
                            range(rng.randint(1, 3))])),
        ('box', V('list', [V('float', 'f:' + (0.1 * i).hex())
                           for i in range(1, 4)])),
        ('names', V('list', [V('str', 'fluid'), V('str', 'b')])),
        ('npi', V('np', str(2 ** 53 + 1), dtype='int64')),
        ('npf', V('np', 'f:' + float.hex(0.1), dtype='float32')),
        ('arr', V('ndarray', ['f:0x1.8p+0', '2'], dtype='float64')),
    ]
    rich_pool = [
        ('none', V('none')),
        ('raw', V('bytes', rng.choice(['6162', '', '00ff']))),
        ('raws', V('list', [V('bytes', '61'), V('bytes', '62')])),
        ('mixed', V('list', [V('int', '1'), V('str', 'a'), V('none')])),
        ('pair', V('tuple', [V('int', '1'), V('str', '1')])),
        ('steps', V('dict', [[V('int', '0'), V('int', '120')],
                             [V('str', '0'), V('int', '7')]])),
        ('nest', V('dict', [[V('str', 'a'), V('dict', [
            [V('int', str(rng.randint(1, 9))), V('bytes', '78')],
            [V('bytes', '6b'), V('list', [V('str', 'v')])]])]])),
        ('bkeys', V('dict', [[V('bytes', '6b'), V('str', 'v')]])),
    ]
    flat = dict(base)
    for key, v in rng.sample(flat_pool, rng.randint(1, 4)):
        flat[key] = v
    rich = dict(flat)
    for key, v in rng.sample(rich_pool, rng.randint(2, 5)):
        rich[key] = v
    return flat, rich


def mk_case(cid, arrays, k=0, bytes_keys=False):
    flat, rich = gen_sd(random.Random('sd:' + cid), k)
    return dict(id=cid, arrays=arrays, sd_flat=flat, sd_rich=rich,
                combos=all_combos() + v1_combos(arrays, bytes_keys))


# values that exercise exactness, per C type (descriptions: int, or
# 'f:<hex>' for a float)
def fh(x):
    return 'f:' + float(x).hex() if x == x and abs(x) != float('inf') \
        else 'f:' + repr(float(x))


def f32(x):
    """x rounded to a C float (so that a default given for a float property
    is the value the property holds)"""
    import struct
    return struct.unpack('f', struct.pack('f', x))[0]


EXACT = {
    'long': [2 ** 53 + 1, 2 ** 63 - 1, -2 ** 63, -(2 ** 53) - 1,
             2 ** 62 + 3],
    'int': [2 ** 31 - 1, -2 ** 31, 16777217, -16777217],
    'unsigned int': [2 ** 32 - 1, 2 ** 31, 2 ** 31 + 1, 16777217],
    'float': [fh(f32(0.1)), 16777216, fh(3.4028234663852886e+38), fh(-1.5),
              fh(f32(1e-45)), 'f:-0.0', fh(f32(1.0 / 3))],
    'double': [fh(0.1), 2 ** 53, fh(1e308), fh(5e-324), 'f:-0.0', 'f:inf',
               fh(-2.5e-7)],
}


def exact_array(name, tags, fr_k, outs=None, default_tag=0):
    """one stride-1 property per C type holding limit values"""
    n = len(tags)
    props = []
    for i, typ in enumerate(TYPES):
        vals = EXACT[typ]
        props.append(dict(name='e' + typ[0] + str(i), type=typ, stride=1,
                          default=vals[(fr_k + 1) % len(vals)],
                          data=[vals[(fr_k + j) % len(vals)]
                                for j in range(n)]))
    arr = mk_array(name, n, tags, props, default_tag=default_tag, exact=True,
                   consts={'cx': dict(data=[EXACT['double'][fr_k % 5],
                                            2 ** 53 + 1], dtype='float64'),
                           'cl': dict(data=[EXACT['long'][fr_k % 5]],
                                      dtype='int64')})
    arr['outs'] = prop_names(arr) if outs is None else outs
    return arr


def gen_exact():
    """arrays of exactly 0, 1, 2 particles, and arrays where only_real leaves
    exactly one, with limit values; built-in properties with their own
    defaults (default_particle_tag 1 / 2, pid / gid defaults)"""
    cases = []
    pats = [[], [0], [0, 0], [0, 2], [2], [0, 1, 2], [1, 0], [0, 0, 0]]
    for k, tags in enumerate(pats):
        for oi, outs in enumerate((None, [], ['el3', 'tag'])):
            arr = exact_array('fluid', tags, k + oi, outs,
                              default_tag=(k + oi) % 3)
            if (k + oi) % 3 == 1:
                arr['late'] = [dict(name='gid', type='unsigned int', stride=1,
                                    default=7 + k),
                               dict(name='pid', type='int', stride=1,
                                    default=-2 - oi)]
            elif (k + oi) % 3 == 2:
                arr['set_defaults'] = dict(gid=2 ** 32 - 2 - k, pid=5 + oi,
                                           tag=(k + 1) % 3)
            cases.append(mk_case('sysx:%d:%d' % (k, oi), [arr], k))
    return cases


def gen_systematic(quick):
    """type x stride x default of one property 'q' next to a double 'x', for
    output lists {empty, q not stored, q and tag stored, everything}."""
    cases = []
    k = 0
    tagpat = [[], [0], [0, 2], [0, 1, 0], [2, 0, 0, 1], [1, 2], [0, 0, 0],
              [2], [0, 2, 1, 0, 0, 2]]
    for typ in TYPES:
        for stride in (1, 2, 3):
            for dflt in (0, 7, -3 if typ in SIGNED else 9):
                for oi, outs in enumerate(([], ['x'], ['q', 'tag'], None)):
                    k += 1
                    if quick and (k % 3) != 0:
                        continue
                    tags = tagpat[k % len(tagpat)]
                    n = len(tags)
                    fr = Fresh()
                    props = [dict(name='x', type='double', stride=1,
                                  default=None, data=fr(n)),
                             dict(name='q', type=typ, stride=stride,
                                  default=dflt, data=fr(n * stride))]
                    arr = mk_array('fluid', n, tags, props,
                                   consts={'c1': dict(data=fr(1 + k % 3),
                                                      dtype='float64')})
                    arr['outs'] = prop_names(arr) if outs is None else outs
                    arr['default_tag'] = (k // 3) % 3
                    cases.append(mk_case('sys:%d' % k, [arr], k,
                                         bytes_keys=(k % 4 == 0)))
    # lists of several arrays with different property sets, empty arrays
    fr = Fresh()
    multi = [
        [mk_array('z', 2, [0, 2], [dict(name='x', type='double', stride=1,
                                        default=None, data=fr(2))]),
         mk_array('a', 0, [], [dict(name='u', type='float', stride=2,
                                    default=5, data=[])],
                  outs=['u']),
         mk_array('m', 3, [1, 0, 0], [dict(name='k', type='int', stride=1,
                                           default=4, data=fr(3)),
                                      dict(name='x', type='long', stride=1,
                                           default=None, data=fr(3))],
                  consts={'c2': dict(data=fr(3), dtype='int64')},
                  outs=['x', 'tag', 'gid'])],
        [mk_array('fluid', 0, [], []), mk_array('solid', 0, [], [],
                                                outs=['tag'])],
        [mk_array('fluid', 4, [2, 2, 1, 2],
                  [dict(name='w', type='unsigned int', stride=3, default=2,
                        data=fr(12))],
                  late=[dict(name='rho', type='float', stride=2, default=6)],
                  outs=['w'])],
    ]
    for i, arrays in enumerate(multi):
        cases.append(mk_case('sysm:%d' % i, arrays, i, bytes_keys=True))
    cases += gen_const_lists()
    cases += gen_exact()
    return cases


def gen_const_lists():
    """Lists of 2-3 arrays where every array has its own constants: disjoint
    names, the same name with different values / lengths / C types, an array
    without constants before, between and after arrays with constants; each
    array also has its own output list (proper subset of its properties)."""
    def arr(name, n, fr, consts, outs, tags=None):
        props = [dict(name='x', type='double', stride=1, default=None,
                      data=fr(n)),
                 dict(name='m', type='float', stride=1, default=3,
                      data=fr(n))]
        return mk_array(name, n, tags if tags is not None else [0] * n, props,
                        consts=consts, outs=outs)

    def c(data, dtype='float64'):
        return dict(data=data, dtype=dtype)
    lists = []
    fr = Fresh()
    # the same name, different values (fluid.rho0 = 1000, solid.rho0 = 2500)
    lists.append([arr('fluid', 2, fr, {'rho0': c([1000]), 'c0': c([10])},
                      ['x']),
                  arr('solid', 3, fr, {'rho0': c([2500]),
                                       'cm': c([4, 2, 1])}, ['m', 'tag']),
                  arr('wall', 1, fr, {}, [])])
    # disjoint names
    lists.append([arr('a', 1, fr, {'c1': c(fr(1))}, ['x', 'm']),
                  arr('b', 2, fr, {'c2': c(fr(2), 'int64')}, ['x'],
                      tags=[0, 2])])
    # array without constants first / in the middle; same name, other length
    # and C type
    lists.append([arr('z', 0, fr, {}, ['x']),
                  arr('m', 2, fr, {'k': c([7, 8, 9])}, []),
                  arr('a', 1, fr, {'k': c([5], 'int64')}, ['m'])])
    lists.append([arr('p', 2, fr, {'k': c([1, 2], 'float32')}, ['x']),
                  arr('q', 2, fr, {}, ['x', 'tag'], tags=[0, 1]),
                  arr('r', 2, fr, {'k': c([1, 3], 'float32'),
                                   'j': c([6])}, ['m'])])
    # identical constants in both arrays (must stay, in both)
    lists.append([arr('u', 1, fr, {'g': c([9, 9])}, ['x']),
                  arr('v', 1, fr, {'g': c([9, 9])}, ['x'])])
    return [mk_case('sysc:%d' % i, arrays, i, bytes_keys=True)
            for i, arrays in enumerate(lists)]


def gen_random(seed, idx):
    cid = 'rnd:%d:%d' % (seed, idx)
    rng = random.Random(cid)
    fr = Fresh()
    arrays = []
    for name in rng.sample(ANAMES, rng.choice([1, 1, 2, 3])):
        n = rng.choice([0, 1, 1, 2, 2, 3, 4, 6])
        mode = rng.random()
        if mode < 0.25:
            tags = [0] * n
        elif mode < 0.33:
            tags = [rng.choice([1, 2]) for i in range(n)]
        else:
            tags = [rng.choice([0, 0, 0, 1, 2]) for i in range(n)]
        cand = list(POOL)
        if rng.random() < 0.2:
            cand += ['pid', 'gid']
        props = []
        exact = False
        for p in rng.sample(cand, rng.randint(0, 4)):
            if p == 'pid':
                typ, stride = 'int', 1
            elif p == 'gid':
                typ, stride = 'unsigned int', 1
            else:
                typ, stride = rng.choice(TYPES), rng.choice([1, 1, 2, 3])
            dchoice = [None, 0, 1, 7] + ([-3] if typ in SIGNED else [])
            data = fr(n * stride)
            dflt = rng.choice(dchoice)
            if rng.random() < 0.15:
                # limit values of the C type instead of small integers
                exact = True
                o = rng.randint(0, 9)
                data = [EXACT[typ][(o + j) % len(EXACT[typ])]
                        for j in range(n * stride)]
                dflt = EXACT[typ][o % len(EXACT[typ])]
            props.append(dict(name=p, type=typ, stride=stride, default=dflt,
                              data=data))
        late = []
        free = [p for p in POOL if p not in [q['name'] for q in props]]
        if rng.random() < 0.3:
            typ = rng.choice(TYPES)
            late.append(dict(name=rng.choice(free), type=typ,
                             stride=rng.choice([1, 2]),
                             default=rng.choice([0, 5, 8])))
        consts = {}
        for c in rng.sample(CPOOL, rng.randint(0, 2)):
            consts[c] = dict(data=fr(rng.randint(1, 3)),
                             dtype=rng.choice(['float64', 'float64', 'int64',
                                               'float32']))
        if rng.random() < 0.25:
            # the built-in properties with their own defaults
            have = [q['name'] for q in props]
            if 'gid' not in have:
                late.append(dict(name='gid', type='unsigned int', stride=1,
                                 default=rng.choice([0, 7, 2 ** 32 - 2])))
            if 'pid' not in have and rng.random() < 0.5:
                late.append(dict(name='pid', type='int', stride=1,
                                 default=rng.choice([3, -1])))
        setd = {}
        if rng.random() < 0.2:
            setd = dict(gid=rng.choice([0, 9]), pid=rng.choice([1, -4]))
            if rng.random() < 0.5:
                setd['tag'] = rng.choice([1, 2])
        arr = mk_array(name, n, tags, props, late, consts,
                       default_tag=rng.choice([0, 0, 0, 1, 2]), exact=exact,
                       set_defaults=setd)
        names = prop_names(arr)
        r = rng.random()
        if r < 0.3:
            arr['outs'] = []
        elif r < 0.45:
            arr['outs'] = names
        else:
            arr['outs'] = rng.sample(names, rng.randint(1, len(names)))
        arrays.append(arr)
    return mk_case(cid, arrays, idx, bytes_keys=rng.random() < 0.3)


SRC_FILES = ('solver/output.py', 'solver/utils.py', 'base/utils.py',
             'base/particle_array.pyx')


def check_sources(outs):
    """The drivers must have imported the sources of the tree under
    verification (build.REPO).  The build cache is keyed by the extension
    sources only, so a concurrent run on another tree with the same
    extensions can re-synchronise the Python files under a running check;
    a verdict about the wrong tree is a machinery failure, not a verdict."""
    want = {}
    for f in SRC_FILES:
        with open(os.path.join(build.REPO, 'pysph', f), 'rb') as fp:
            want[f] = hashlib.sha1(fp.read()).hexdigest()
    for of in outs:
        if not os.path.exists(of + '.src'):
            raise MachineryError('driver left no source record: %s' % of)
        for line in open(of + '.src'):
            rec = json.loads(line)
            for when in ('start', 'end'):
                bad = sorted(f for f in SRC_FILES if rec[when][f] != want[f])
                if bad:
                    raise MachineryError(
                        'the driver did not run the sources of %s (%s differ '
                        'at driver %s): the build cache was re-synchronised '
                        'from another tree while the check ran; re-run '
                        'without concurrent checks on another tree (or with '
                        'a private VERIF_CACHE)' % (build.REPO, bad, when))


def mk_run(rid, dirname, base, ext, counts, auto=False, info=False,
           compress=False, concat_prefix=None, concat_counts=()):
    """A Solver-style run: dump(join(dir, '%s_%05d' % (base, count)) + ext)
    for every count (TLC checks these names against SolverName)."""
    if auto:
        dirname = os.path.join(os.path.dirname(dirname), base + '_output')
    names = [os.path.join(dirname, '%s_%05d' % (base, c)) + ext
             for c in counts]
    return dict(id=rid, solver=True, dir=dirname, base=base, ext=ext,
                counts=list(counts), names=names, auto=auto, info=info,
                compress=compress, concat_prefix=concat_prefix or '',
                concat_counts=list(concat_counts))


def mk_names(rid, names):
    """Direct calls of dump with arbitrary names (no count semantics)."""
    return dict(id=rid, solver=False, dir='', base='', ext='',
                counts=list(range(len(names))), names=list(names), auto=False,
                info=False, compress=False, concat_prefix='',
                concat_counts=[])


RUN_BASES = ['drop', 'drop_dx0.05', 'a.b.c', 'run_00100', 'r2.5_v1.0',
             'x.npz_y', 'case.hdf5.old', 'npz', 'elliptical_drop',
             'w_hdf5', 'dam-break_3d.1', 't_0.1_n_5']
RUN_DIRS = ['', 'out', 'out.v1', 'a.b/c.d', 'o_00001', 'x.npz']
RUN_COUNTS = [[0], [100, 0, 5], [99999, 100000, 7], [1, 10, 100, 1000, 10000],
              [20, 10], [123456, 12345]]
DIRECT = ['plain', 'drop_dx0.05', 'z.npz.bak', 'c.d/e.f', 'runhdf5',
          'trail.', 'n.NPZ', 'a.b_c.d', 'x.y.npz', 'x.y.hdf5', 'd.1/s.npz',
          'count_00100', 'v1.5/r_0.25']
DIRECT_SUFFIX = ['snap_npz', 'a.b_npz', 'a.b_hdf5', 'o.1/c.d_npz']


def gen_runs(seed, quick):
    runs = []
    k = 0
    for base in RUN_BASES:
        for ext in ('', '.npz', '.hdf5'):
            k += 1
            runs.append(mk_run(
                'run:%d' % k, RUN_DIRS[k % len(RUN_DIRS)], base, ext,
                RUN_COUNTS[k % len(RUN_COUNTS)], auto=(k % 3 == 0),
                info=(k % 6 == 0), compress=(k % 4 == 0)))
    rng = random.Random('runs:%d' % seed)
    alpha = ['a', 'b', '.', '_', '0', '5', '1', '-', 'n', 'z']
    for i in range(12 if quick else 150):
        def word(lo, hi):
            while True:
                w = ''.join(rng.choice(alpha)
                            for j in range(rng.randint(lo, hi)))
                if w.strip('.') and not w.startswith('.'):
                    return w
        dirname = '/'.join(word(1, 5) for j in range(rng.randint(0, 2)))
        counts = rng.sample([0, 1, 7, 10, 99, 100, 5000, 99999, 100000,
                             250000], rng.randint(1, 4))
        runs.append(mk_run('runr:%d:%d' % (seed, i), dirname, word(1, 8),
                           rng.choice(['', '', '.npz', '.hdf5']), counts,
                           auto=rng.random() < 0.4, info=rng.random() < 0.3))
    # rank-style names and load_and_concatenate (npz only, as it documents)
    runs.append(mk_run('runc:0', 'out', 'p_0', '.npz', [5, 100, 20000],
                       concat_prefix='p', concat_counts=[-1, 20000]))
    runs.append(mk_run('runc:1', 'o.1', 'q.5_0', '.npz', [12345, 100000],
                       concat_prefix='q.5', concat_counts=[-1, 12345, 100000]))
    runs.append(mk_run('runc:2', 'out', 'p_0', '.npz', [5, 100, 20000],
                       concat_prefix='p', concat_counts=[5, 100]))
    runs.append(mk_run('runc:3', 'out', 's_0', '.npz', [3, 40],
                       concat_prefix='s', concat_counts=[-1]))
    for i, n in enumerate(DIRECT):
        runs.append(mk_names('name:%d' % i, [n]))
    runs.append(mk_names('names:all', DIRECT))
    for i, n in enumerate(DIRECT_SUFFIX):
        runs.append(mk_names('namesfx:%d' % i, [n]))
    return runs


def crash_record(case, ci, rc):
    combo = case['combos'][ci]
    return dict(id='%s/%d' % (case['id'], ci), fmt=combo[0],
                compress=combo[1], detailed=combo[2], only_real=combo[3],
                variant=combo[4] if len(combo) > 4 else '', names=[],
                arrs={}, sd={}, lnames=[], larrs={}, lext={}, lsd={},
                error='crash: driver died with rc=%d' % rc)


def drive(chk, cases, w):
    """Run the driver on a chunk of array lists; a crash (signal) of the
    compiled code costs the case being run, not the run."""
    sc = chk.scratch
    cf = os.path.join(sc, 'cases-%d.ndjson' % w)
    of = os.path.join(sc, 'out-%d.ndjson' % w)
    with open(cf, 'w') as fp:
        for c in cases:
            fp.write(json.dumps(c) + '\n')
    open(of, 'w').close()
    start, combo, crashes = 0, 0, 0
    while True:
        p = chk.run_py('checks/c11_driver.py',
                       [cf, of, str(start), str(combo)], check=False)
        if p.returncode == 0:
            break
        jr = open(of + '.journal').read().strip() \
            if os.path.exists(of + '.journal') else ''
        crashes += 1
        if p.returncode > 0 or not jr or crashes > 20:
            raise MachineryError('driver failed rc=%d\n%s' % (
                p.returncode, (p.stderr or '')[-3000:]))
        cid, ci = jr.rsplit('/', 1)
        k = [c['id'] for c in cases].index(cid)
        with open(of, 'a') as fp:
            fp.write(json.dumps(crash_record(cases[k], int(ci),
                                             p.returncode)) + '\n')
        start, combo = k, int(ci) + 1
    return of


def run():
    chk = Check('C11', 'model_checking')
    try:
        check(chk)
    finally:
        if not os.environ.get('VERIF_KEEP'):
            shutil.rmtree(chk.scratch, ignore_errors=True)


def runs_leg(chk, runs, stats):
    """File-name handling: drive the runs, validate with TLC
    (TraceOutputNames.tla), judge."""
    if not runs:
        return
    sc = chk.scratch
    cf = os.path.join(sc, 'runs.ndjson')
    of = os.path.join(sc, 'runs-out.ndjson')
    with open(cf, 'w') as fp:
        for r in runs:
            fp.write(json.dumps(r) + '\n')
    p = chk.run_py('checks/c11_driver.py', ['--runs', cf, of], check=False)
    if p.returncode != 0:
        raise MachineryError('run driver failed rc=%d\n%s' % (
            p.returncode, (p.stderr or '')[-3000:]))
    check_sources([of])
    traces = {}
    for line in open(of):
        t = json.loads(line)
        traces[t['id']] = t
    if len(traces) != len(runs):
        raise MachineryError('recorded %d runs, expected %d' % (
            len(traces), len(runs)))
    try:
        verdicts, st = tlc.validate_batches(
            'TraceOutputNames', 'TraceOutputNames.cfg', [of], parallel=1)
    except tlc.TLCError as ex:
        raise MachineryError(str(ex))
    if len(verdicts) != len(runs):
        raise MachineryError('run verdicts %d != runs %d' % (
            len(verdicts), len(runs)))
    desc = {r['id']: r for r in runs}
    for v in verdicts:
        t = traces[v['id']]
        d = desc[v['id']]
        if t['error'].startswith('HARNESS') or not v['pre']:
            raise MachineryError('bad generated run %s %s' % (
                v['id'], t['error']))
        stats['runs'] += 1
        stats['dumps'] += v['ndumps']
        for cl in v['failed']:
            stats['clauses'][cl] = stats['clauses'].get(cl, 0) + 1
        what = 'names %s' % d['names'][:4]
        replay = dict(id=v['id'], run=d, failed=sorted(v['failed']),
                      known=sorted(v['known']), error=t['error'])
        if v['unexplained']:
            chk.violation('file names: %s break %s%s' % (
                what, sorted(v['unexplained']),
                ' (%s)' % t['error'] if t['error'] else ''), replay)
        else:
            for fid in v['known']:
                if chk.known(fid):
                    chk.known_hit(fid)
                else:
                    chk.violation('file names: %s break %s (signature of %s,'
                                  ' not an accepted known finding)' % (
                                      what, sorted(v['failed']), fid), replay)
        if stats['sample'] is None and not v['failed'] and v['ndumps'] > 2 \
                and '.' in d['base']:
            stats['sample'] = dict(
                id=v['id'], names_given_to_dump=d['names'],
                files_after_last_dump=[''.join(x) for x in t['listings'][-1]],
                get_files=[''.join(x) for x in t['found']], verdict=v)
    stats['trace_states'] = st['distinct']


def check(chk):
    sc = chk.scratch
    quick = chk.tier == 'quick'
    design = asis = None
    phases = {}
    t0 = time.time()
    names_mc = None
    runs = []
    rstats = dict(runs=0, dumps=0, clauses={}, sample=None, trace_states=0)
    if chk.args.replay:
        obj = json.load(open(chk.args.replay))['case']
        if 'run' in obj:
            runs_leg(chk, [obj['run']], rstats)
            chk.finish()
        cases = [obj['desc']]
    else:
        # the design runs go on in the background while the real code runs
        dpool = ThreadPoolExecutor(max_workers=3)
        fut = dict(
            design=dpool.submit(tlc.run, 'OutputMC', 'OutputMC.cfg',
                                workers=8, timeout=900),
            names_mc=dpool.submit(
                tlc.run, 'OutputNamesMC', 'OutputNamesMC.quick.cfg' if quick
                else 'OutputNamesMC.cfg', workers=8, timeout=900))
        if not quick:
            fut['asis'] = dpool.submit(tlc.run, 'OutputMC',
                                       'OutputMC.asis.cfg', workers=8,
                                       timeout=900)
        cases = gen_systematic(quick)
        nrand = 200 if quick else 4200
        cases += [gen_random(chk.seed, i) for i in range(nrand)]
        runs = gen_runs(chk.seed, quick)
    desc = {c['id']: c for c in cases}
    t0 = time.time()
    chunks = [cases[w::NWORK] for w in range(NWORK)]
    chunks = [(w, c) for w, c in enumerate(chunks) if c]
    with ThreadPoolExecutor(max_workers=NWORK) as ex:
        outs = list(ex.map(lambda wc: drive(chk, wc[1], wc[0]), chunks))
    check_sources(outs)
    phases['drive_real_code_s'] = round(time.time() - t0, 1)
    t0 = time.time()
    runs_leg(chk, runs, rstats)
    phases['file_name_runs_s'] = round(time.time() - t0, 1)
    t0 = time.time()
    traces = {}
    files = []
    per = 200
    cur = []

    def flush():
        if cur:
            f = os.path.join(sc, 'batch-%d.ndjson' % len(files))
            with open(f, 'w') as fp:
                fp.writelines(cur)
            files.append(f)
            del cur[:]
    for of in outs:
        for line in open(of):
            t = json.loads(line)
            if t['id'] in traces:
                raise MachineryError('duplicate case id %s' % t['id'])
            traces[t['id']] = t
            cur.append(line)
            if len(cur) == per:
                flush()
    flush()
    expected = sum(len(c['combos']) for c in cases)
    if len(traces) != expected:
        raise MachineryError('recorded %d cases, expected %d' % (
            len(traces), expected))
    try:
        verdicts, st = tlc.validate_batches(
            'TraceOutput', 'TraceOutput.cfg', files, parallel=14)
    except tlc.TLCError as ex:
        raise MachineryError(str(ex))
    if len(verdicts) != len(traces):
        raise MachineryError('verdicts %d != traces %d' % (
            len(verdicts), len(traces)))

    phases['trace_validation_tlc_s'] = round(time.time() - t0, 1)
    if not chk.args.replay:
        t0 = time.time()
        design = fut['design'].result()
        names_mc = fut['names_mc'].result()
        asis = fut['asis'].result() if 'asis' in fut else None
        for r in (design, asis, names_mc):
            if r is not None and (r.get('error') or r.get('timeout')):
                raise MachineryError('TLC design run failed:\n' +
                                     r['out'][-3000:])
        phases['waited_for_design_tlc_s'] = round(time.time() - t0, 1)
    per_fmt = {}
    per_clause = {}
    distinct = set()
    reorder = 0
    nvalues = 0
    sample = None
    ksample = {}
    for v in verdicts:
        t = traces[v['id']]
        lid, ci = v['id'].rsplit('/', 1)
        d = desc[lid]
        combo = d['combos'][int(ci)]
        if t['error'].startswith('HARNESS') or not v['pre']:
            raise MachineryError('generated input is not dumpable: %s %s' % (
                v['id'], t['error']))
        key = '%s%s' % (t['fmt'], '/' + t['variant'] if t['variant'] else '')
        per_fmt[key] = per_fmt.get(key, 0) + 1
        nvalues += v['nvalues']
        if not v['order']:
            reorder += 1
        if v['nvalues'] > 0:
            distinct.add(hashlib.sha1(json.dumps(
                [t['fmt'], t['variant'], t['compress'], t['detailed'],
                 t['only_real'], t['names'], t['arrs']],
                sort_keys=True).encode()).hexdigest())
        for cl in v['failed']:
            per_clause[cl] = per_clause.get(cl, 0) + 1
        opts = 'fmt=%s%s compress=%s detailed=%s only_real=%s' % (
            t['fmt'], ' ' + t['variant'] if t['variant'] else '',
            t['compress'], t['detailed'], t['only_real'])
        replay = dict(id=v['id'], desc=dict(d, combos=[combo]),
                      failed=sorted(v['failed']), known=sorted(v['known']),
                      error=t['error'])
        if v['unexplained']:
            chk.violation('%s: round trip breaks %s%s' % (
                opts, sorted(v['unexplained']),
                ' (%s)' % t['error'] if t['error'] else ''), replay)
        else:
            for fid in v['known']:
                if chk.known(fid):
                    chk.known_hit(fid)
                    ksample.setdefault(fid, dict(id=v['id'], options=opts))
                else:
                    chk.violation(
                        '%s: round trip breaks %s (the failure has the '
                        'signature of %s, which is not an accepted known '
                        'finding - recorded as fixed: regression)' % (
                            opts, sorted(v['failed']), fid), replay)
            if sample is None and not v['failed'] and v['nvalues'] > 6 \
                    and v['nnotstored'] > 0 and t['fmt'] == 'hdf5':
                sample = dict(id=v['id'], options=opts, arrays=d['arrays'],
                              solver_data=d['sd_flat'], verdict=v)
    for name, r in (('OutputMC.cfg', design), ('OutputMC.asis.cfg', asis),
                    ('OutputNamesMC', names_mc)):
        if r is not None and not r['ok']:
            chk.violation('design model %s: %s violated' % (
                name, r['violation']),
                dict(id='design:' + name, out=r['out'][-4000:]))
    if sample is None:
        v = verdicts[0]
        sample = dict(id=v['id'], verdict=v)
    chk.cov.update(dict(
        states=(design['distinct'] + names_mc['distinct']) if design
        else st['distinct'],
        transitions=(design['generated'] + names_mc['generated']) if design
        else st['generated'],
        names_design_model='OutputNamesMC.tla (dump name logic and get_files '
                           'as Python string operations vs FileOf / '
                           'SolverFile / InCountOrder): %s names and runs' % (
                               names_mc['distinct'] if names_mc else '-'),
        file_name_runs=rstats['runs'],
        file_name_dumps=rstats['dumps'],
        file_name_failed_clause_counts=rstats['clauses'],
        design_model='OutputMC.tla / OutputMC.cfg (writer and reader as '
                     'fixed; invariants StoredAsSpecified, RoundTripHolds, '
                     'NotStoredAreDefault): %s distinct states%s' % (
                         design['distinct'] if design else '-',
                         '; OutputMC.asis.cfg (hdf5 reader before the fixes;'
                         ' invariant AsIsClassified): %d distinct states' %
                         asis['distinct'] if asis else ''),
        phases=phases,
        design_exhaustive=True,
        array_lists=len(cases),
        traces_validated_against_impl=len(verdicts) + rstats['runs'],
        trace_states=st['distinct'] + rstats['trace_states'],
        evaluations=len(verdicts),
        stored_values_compared=nvalues,
        cases_per_format=per_fmt,
        failed_clause_counts=per_clause,
        arrays_returned_in_other_order=reorder,
        distinct_nontrivial=len(distinct),
        rule='a case is one dump+load of a list of real ParticleArrays for '
             'one (format, compress, detailed, only_real); distinct by the '
             'hash of (options, projected arrays before the dump); '
             'non-trivial when the file stores at least one particle value',
        samples=[sample] + ([rstats['sample']] if rstats['sample'] else []),
        known_finding_samples=ksample,
    ))
    chk.assumptions += [
        'values: small integers, and per C type limit values (long up to '
        '2^63-1 and around 2^53, int / unsigned int limits, float32 and '
        'double non-integers, -0.0, inf) compared as exact texts; arrays '
        'holding limit values are generated aligned and their values are '
        'written into the property arrays after construction, so the state '
        'that is dumped does not depend on conversions of the constructor; '
        'defaults of float properties are float32-representable',
        'solver data: t, dt, count plus extra entries. For hdf5 (and files '
        'with Python-2 bytes keys) only what HDF5 attributes hold faithfully '
        '- numbers of any size, bools, str, homogeneous sequences, numpy '
        'scalars / arrays (a list comes back as an array: compared by '
        'elements); for npz anything picklable (None, bytes, mixed lists, '
        'tuples, nested dictionaries with int / bytes / str keys). Outside '
        'the statement, by decision: with hdf5 a bytes value comes back as '
        'str and None / dict / mixed lists make h5py raise TypeError in dump',
        'values of properties that were not stored are not demanded (the '
        'hdf5 loader fills a tag column that was not stored with Local even '
        'when default_particle_tag is another tag - seen in the design '
        'model)',
        'arrays given to dump are aligned (real particles first) and their '
        'output list names properties only (a constant in the output list '
        'makes get_property_arrays raise KeyError for both formats; not '
        'counted against the property)',
        'the order of the arrays in the dictionary returned by load and the '
        'order of the properties are not part of the property',
        'version-1 files: stride-1 stored columns only (the v1 layout has '
        'no meta-data); only names, stored values, particle counts and '
        'solver data are demanded',
        'mpi_comm=None (single process)',
        'file names: h5py importable (names without format extension go to '
        'hdf5); names are relative paths of ASCII letters, digits, ".", '
        '"_", "-" whose last component has a stem; no glob meta-characters; '
        'one run per directory; load_and_concatenate is only exercised on '
        'explicit .npz names (it does not look for hdf5 files)',
    ]
    chk.finish()


if __name__ == '__main__':
    main(run)
