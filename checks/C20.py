"""C20 - incomplete problems are rejected at set-up, never compiled and run.

Design:   TLC runs SetupMC.tla: the checks of pysph's set-up chain
          (group_equations, all_equations, check_equation_array_properties,
          the stepper checks of IntegratorCythonHelper) as a small state
          machine over EVERY case of a universe of problem definitions
          (equation shape x symbols x sources x group structure x api x one
          removed name / misspelt array; several instances of one equation
          class on one destination; integrators over several arrays in
          several orders; constants among the needed names with the list of
          arrays in every order; steppers with 3 and 4 stages; histories of
          two builds in one process).  The complete run uses the mechanism
          the code
          follows ("closure": explicit names and the closure of the symbol
          table, since the repair of C20-symbol-requirements-unchecked): the
          bare contract must hold on every case.  Side runs measure that the
          universe is sensitive: with the mechanism before the repair
          ("explicit": method signatures only), with no property check
          ("none") and with each seeded defect of SetupMC.tla ("dedup",
          "laststepper", "constleak", "stage12", "memo") TLC must find, by
          itself, a case violating the contract.
Binding:  (spec -> code) TLC prints every case; checks/c20_driver.py builds
          the real ParticleArrays, generated probe Equation / IntegratorStep
          classes, Groups, MultiStageEquations and runs AccelerationEval,
          SPHCompiler, code generation, SPHEvaluator on them, never executing
          generated code.  (code -> spec) every shipped Equation and
          IntegratorStep subclass: explicit names and symbols read from the
          real class, arrays complete / lacking one needed name.  The table
          of precomputed symbols is dumped from the code and compared with
          its transcription by TLC (MODEL-DRIFT when different).
          TraceSetup.tla decides every recorded outcome (VERDICT records);
          Python only dispatches on them.  Only findings of status "known"
          in known_findings.json can explain a failure.
Selftest: --selftest (1) while the repair is not in the tree: runs
          everything against a private patched copy of
          pysph.sph.acceleration_eval (driver processes only): no failure,
          no known-finding hit expected; (2) seeds four defects in the
          driver processes (no check, equation not named, (class, dest)
          checked once, only the last stepper checked): violations expected;
          (3) corrupts recorded outcomes: the verdicts must change.
"""
import json
import os
import shutil
import sys
import time
from concurrent.futures import ThreadPoolExecutor

sys.path.insert(0, os.path.dirname(os.path.dirname(os.path.abspath(__file__))))
from mbv import tlc                                   # noqa: E402
from mbv.harness import Check, MachineryError, main   # noqa: E402

# design universes per tier (constants of SetupMC.tla; value sets by name)
_Q = dict(SymSets='SymsQ', Shapes='ShapesQ', SrcOpts='SrcQ', Pairs='PairsQ',
          Wide='FALSE', Combo='FALSE',
          DupShapes='DupShapesQ', DupSyms='DupSymsQ', DupOpts='DupOptsQ',
          DupPairs='DupPairsQ',
          StepStructs='StepStructsQ', StepOrders='StepOrdersQ',
          ConstOrders='ConstOrdersQ', ConstPairs='ConstPairsQ',
          StageOpts='StageOptsQ', StageOrders='StageOrdersQ',
          HistSyms='HistSymsQ', HistPairs='HistPairsQ')
UNIVERSES = {
    'quick': [_Q],
    'thorough': [dict(_Q, SymSets='SymsT', Pairs='PairsT', Wide='TRUE',
                      DupSyms='DupSymsT', DupOpts='DupOptsT',
                      DupPairs='DupPairsT', StepStructs='StepStructsT',
                      StepOrders='StepOrdersT', ConstPairs='ConstPairsT',
                      StageOrders='StageOrdersT', HistSyms='HistSymsT',
                      HistPairs='HistPairsT'),
                 dict(_Q, SymSets='SymsC', Shapes='ShapesT', Pairs='PairsC',
                      Combo='TRUE')],
}
SETS = ('SymSets', 'Shapes', 'SrcOpts', 'Pairs', 'DupShapes', 'DupSyms',
        'DupOpts', 'DupPairs', 'StepStructs', 'StepOrders', 'ConstOrders',
        'ConstPairs', 'StageOpts', 'StageOrders', 'HistSyms', 'HistPairs')
SHIPPED_CAP = {'quick': 2, 'thorough': 0}      # names per class and role
NEXEC = {'quick': 0, 'thorough': 3}            # complete problems compiled
INPUT_KEYS = ('api', 'structure', 'arrays', 'eqs', 'steppers')
DRIVER = 'checks/c20_driver.py'
FINDING = 'C20-symbol-requirements-unchecked'
# mechanism variants of SetupMC.tla that must violate the bare contract:
# the code before the repair of FINDING, and seeded defects
DEFECT_VARIANTS = ('explicit', 'none', 'dedup', 'laststepper', 'constleak',
                   'stage12', 'memo')


def write_cfg(path, u, variant, known, invariants, emit):
    with open(path, 'w') as fp:
        fp.write('SPECIFICATION Spec\nCONSTANTS\n')
        for k in SETS:
            fp.write('  %s <- %s\n' % (k, u[k]))
        fp.write('  Combo = %s\n  Wide = %s\n' % (u['Combo'], u['Wide']))
        fp.write('  Variant = "%s"\n' % variant)
        fp.write('  K <- %s\n' % ('KAll' if known else 'KNone'))
        fp.write('  Emit = %s\n' % ('TRUE' if emit else 'FALSE'))
        for i in invariants:
            fp.write('INVARIANT %s\n' % i)
        fp.write('CHECK_DEADLOCK FALSE\n')


def run_tlc(cfg, workers):
    for attempt in (0, 1):
        r = tlc.run('SetupMC', cfg, workers=workers, timeout=1500,
                    jvm=('-Xmx4g',))
        if not (r.get('error') or r.get('timeout')):
            return r
    raise MachineryError('TLC design run failed:\n' + r['out'][-3000:])


def design(chk):
    """Design runs.  -> (cases printed by TLC, info for the evidence).

    The complete run uses the mechanism the code is recorded to follow:
    while FINDING has status "known" the explicit-names mechanism, whose
    departures from the contract must all be that finding; once it is fixed
    the repaired mechanism ("closure"), for which the bare contract must
    hold.  Side runs: each variant of DEFECT_VARIANTS must make TLC find a
    case violating the bare contract (the universe is sensitive to it)."""
    sc = chk.scratch
    known = bool(chk.known(FINDING))
    variant = 'explicit' if known else 'closure'
    cases, seen = [], set()
    info = dict(states=0, transitions=0, universes=[], variant=variant,
                sensitivity={})
    for ui, u in enumerate(UNIVERSES[chk.tier]):
        def cfg(tag, *a):
            p = os.path.join(sc, 'mc-%d-%s.cfg' % (ui, tag))
            write_cfg(p, u, *a)
            return p
        side = [(v, cfg(v, v, False, ['Contract'], False))
                for v in DEFECT_VARIANTS]
        c_full = cfg('full', variant, known,
                     ['Functional', 'ContractOrKnown' if known
                      else 'Contract'], True)
        with ThreadPoolExecutor(max_workers=7) as ex:
            fs = [(v, ex.submit(run_tlc, c, 2)) for v, c in side]
            full = run_tlc(c_full, 6)
            found = [(v, f.result()) for v, f in fs]
        if not full['ok']:
            raise MachineryError(
                'design model (mechanism %s): %s violated - a departure '
                'from the contract that no known finding explains\n%s' % (
                    variant, full['violation'], full['out'][-2500:]))
        for v, r in found:
            if r['violation'] != 'Contract':
                raise MachineryError(
                    'universe %d is not sensitive to the defect %r (TLC '
                    'found no case violating the contract)\n%s' % (
                        ui, v, r['out'][-1500:]))
            if v not in info['sensitivity']:
                st = tlc.counterexample(r['out'])
                info['sensitivity'][v] = st[-1]['text'][:2500] if st else ''
        got = tlc.parse_prints(full['out'], 'CASE')
        new = 0
        for hst in got:
            # TLC prints histories [builds, reuse, mutate]; a history of one
            # build is an ordinary case
            key = json.dumps(hst, sort_keys=True)
            if key in seen:
                continue
            seen.add(key)
            c = hst['builds'][0] if len(hst['builds']) == 1 else hst
            c.update(id='u%d-%d' % (ui, new), type='case', leg='universe')
            new += 1
            cases.append(c)
        info['states'] += full['distinct']
        info['transitions'] += full['generated']
        info['universes'].append(dict(constants=u, cases=len(got), new=new,
                                      states=full['distinct']))
    return cases, info


def discover(chk, cap):
    out = os.path.join(chk.scratch, 'discover.ndjson')
    chk.run_py(DRIVER, ['discover', out, str(cap)], timeout=600,
               env_extra={'OMP_NUM_THREADS': '1'})
    with open(out) as fp:
        lines = [json.loads(x) for x in fp]
    head, cases = lines[0], lines[1:]
    for i, c in enumerate(cases):
        c['id'] = 's%d' % i
    return head, cases


def drive(chk, cases, tag, mode='', nproc=16):
    """Run the real set-up chain over `cases` in nproc driver processes (one
    forked child per case inside each).  -> (symtab event, traces)."""
    sc = chk.scratch
    nch = max(1, min(nproc, len(cases)))

    def one(i):
        todo = cases[i::nch]
        fi = os.path.join(sc, '%s-cases-%d.ndjson' % (tag, i))
        fo = os.path.join(sc, '%s-traces-%d.ndjson' % (tag, i))
        with open(fi, 'w') as fp:
            for c in todo:
                fp.write(json.dumps(c) + '\n')
        env = {'OMP_NUM_THREADS': '1', 'C20_MODE': mode}
        p = chk.run_py(DRIVER, ['run', fi, fo], check=False, env_extra=env,
                       timeout=3000)
        got = []
        if os.path.exists(fo):
            with open(fo) as fp:
                for line in fp:
                    try:
                        got.append(json.loads(line))
                    except ValueError:
                        break
        if p.returncode != 0 or len(got) != len(todo) + 1:
            raise MachineryError('driver failed rc=%d (%d of %d cases)\n%s'
                                 % (p.returncode, len(got) - 1, len(todo),
                                    (p.stderr or '')[-3000:]))
        return got[0], got[1:]

    with ThreadPoolExecutor(max_workers=nproc) as ex:
        parts = list(ex.map(one, range(nch)))
    sym = parts[0][0]
    src = chk.env['VERIF_SRC']
    for s, _ in parts:
        if s['table'] != sym['table']:
            raise MachineryError('drivers disagree on the symbol table')
        if not s['pysph'].startswith(src):
            raise MachineryError('driver imported pysph from %s, not from '
                                 'the build environment %s' % (s['pysph'],
                                                               src))
    traces = []
    for _, ts in parts:
        for t in ts:
            if 'builds' not in t:
                traces.append(t)
                continue
            # a history: one trace per build (the contract speaks of each
            # build on its own); the whole history goes into a replay
            hst = dict((k, t[k]) for k in ('builds', 'reuse', 'mutate'))
            for k, (b, o) in enumerate(zip(t['builds'], t['outs'])):
                r = dict(b)
                r.update(id='%s.%d' % (t['id'], k), type='case',
                         leg='history', known_ids=t['known_ids'], out=o,
                         hist=dict(k=k, n=len(t['builds']),
                                   reuse=t['reuse'], mutate=t['mutate']),
                         history=hst)
                traces.append(r)
    for t in traces:
        if t['out']['k'] == 'harness-error':
            raise MachineryError('driver could not build case %s:\n%s' % (
                t['id'], t['out']['msg']))
    return sym, traces


def validate(chk, sym, traces, tag, nbatch=10):
    sc = chk.scratch
    per = max(50, (len(traces) + nbatch - 1) // nbatch)
    files = []
    for i in range(0, len(traces), per):
        f = os.path.join(sc, '%s-batch-%d.ndjson' % (tag, i // per))
        with open(f, 'w') as fp:
            fp.write(json.dumps(sym) + '\n')
            for t in traces[i:i + per]:
                fp.write(json.dumps(dict((k, v) for k, v in t.items()
                                         if k != 'history')) + '\n')
        files.append(f)
    try:
        verdicts, st = tlc.validate_batches('TraceSetup', 'TraceSetup.cfg',
                                            files, parallel=10)
    except tlc.TLCError as ex:
        raise MachineryError(str(ex))
    symv = [v for v in verdicts if v['type'] == 'symtab']
    casev = [v for v in verdicts if v['type'] == 'case']
    if len(casev) != len(traces) or len(symv) != len(files):
        raise MachineryError('verdict count %d != traces %d' % (
            len(casev), len(traces)))
    return symv, casev, st


def inputs_of(t):
    return {k: t[k] for k in INPUT_KEYS}


def describe(t):
    o = t['out']
    what = o['k']
    if o['k'] == 'rejected':
        what = 'rejected at %s: %s: %s' % (o['stage'], o['etype'],
                                            o['msg'][:200])
    elif o['msg']:
        what += ' (%s)' % o['msg'][:200]
    return what


def judge(chk, by_tr, symv, casev):
    for v in symv[:1]:
        if v['tabdiff']:
            chk.note_drift('Setup.SymTab', 'precomputed symbols %s differ '
                           'between pysph.sph.equation.precomputed_symbols() '
                           'and the transcription (verdicts use the real '
                           'table)' % sorted(v['tabdiff']))
    nfail = 0
    for v in casev:
        tr = by_tr[v['id']]
        if not v['failed']:
            if not v['mech']:
                chk.note_drift('Setup', 'case %s: %s - neither mechanism '
                               'variant predicts this' % (v['id'],
                                                          describe(tr)))
            continue
        nfail += 1
        if v['known'] and all(chk.known(k) for k in v['known']):
            for k in v['known']:
                chk.known_hit(k)
            continue
        who = tr.get('cls') or ','.join(
            '%s(%s<-%s d=%s s=%s syms=%s)' % (
                e['name'], e['dest'], e['sources'], e['d'], e['s'],
                e['syms']) for e in tr['eqs'])
        if tr['steppers']:
            who += ' steppers ' + ','.join(
                '%s=%s(d=%s)' % (x['array'], x['name'], x['d'])
                for x in tr['steppers'])
        allp = set(p for a in tr['arrays'] for p in a['props'])
        lacks = ['%s lacks %s' % (a['name'], sorted(allp - set(a['props'])))
                 for a in tr['arrays'] if allp - set(a['props'])]
        chk.violation(
            'clauses %s fail (expected %s): %s [%s/%s] arrays %s -> %s' % (
                sorted(v['failed']), v['expected'], who, tr['api'],
                tr['structure'],
                (['%s lacks %s' % (tr['removed'][0], tr['removed'][1])]
                 if tr.get('removed') else lacks) +
                (['build %d of %d in one process, %s objects' % (
                    tr['hist']['k'] + 1, tr['hist']['n'],
                    'the same' if tr['hist']['reuse'] else 'fresh')]
                 if tr.get('hist') else []), describe(tr)),
            dict(case=inputs_of(tr), id=v['id'], execute=tr.get('execute'),
                 hist=tr.get('hist'), history=tr.get('history'),
                 out=tr['out'], verdict=v))
    return nfail


def complete(c):
    """A universe case without any fault (input selection for `execute`)."""
    names = set(a['name'] for a in c['arrays'])
    full = max(len(a['props']) for a in c['arrays'])
    return (all(len(a['props']) == full for a in c['arrays']) and
            all(e['dest'] in names and set(e['sources']) <= names
                for e in c['eqs']) and
            all(s['array'] in names for s in c['steppers']))


def mark_execute(cases, n):
    """Mark n complete universe problems (different apis / structures) for
    compilation and one run."""
    chosen = []
    for c in cases:
        if len(chosen) >= n:
            break
        if c['leg'] != 'universe' or 'builds' in c or \
                c['api'] != 'compiler' or not complete(c):
            continue
        a = next(e for e in c['eqs'] if e['name'] == 'ProbeA')
        key = (c['structure'], bool(c['steppers']))
        if not a['syms'] or not a['d'] or not a['sources'] or \
                key in [k for k, _ in chosen]:
            continue
        chosen.append((key, c))
    for _, c in chosen:
        c['execute'] = True
    return len(chosen)


def corrupt(t):
    """Flip a recorded outcome (binding self-test)."""
    t = json.loads(json.dumps(t))
    if t['out']['k'] == 'accepted':
        t['out'].update(k='rejected', stage='aeval', etype='RuntimeError',
                        msg='(corrupted)', tokens=[])
    else:
        t['out'].update(k='accepted', stage='', etype='', msg='', tokens=[])
    return t


def selftest(chk, cases, known_ids):
    ok = True
    # (1) the proposed repair, on a private copy loaded by the drivers
    if chk.known(FINDING):
        sym, traces = drive(chk, cases, 'p', mode='patched')
        symv, casev, _ = validate(chk, sym, traces, 'pv')
        bad = [v for v in casev if v['failed']]
        onlyc = sum(1 for v in casev if v['mech'] == ['closure'])
        nom = sum(1 for v in casev if 'closure' not in v['mech'])
        print('C20 selftest (1) patched acceleration_eval: %d cases, %d '
              'with failed clauses, %d predicted only by the repaired '
              'mechanism, %d not predicted by it' % (len(casev), len(bad),
                                                     onlyc, nom))
        by = {t['id']: t for t in traces}
        for v in bad[:5]:
            print('  FAILED %s %s: %s' % (v['id'], v['failed'],
                                          describe(by[v['id']])))
            ok = False
    else:
        print('C20 selftest (1) skipped: %s is not of status "known" (the '
              'repair is in the tree)' % FINDING)
    # (2) seeded defects in the driver processes
    sub = [c for c in cases if c['leg'] == 'universe']
    for mode, clause in (('nocheck', 'RejectIncomplete'),
                         ('noname', 'NamesEquation'),
                         ('dedup', 'RejectIncomplete'),
                         ('laststepper', 'RejectIncomplete')):
        sym, traces = drive(chk, sub, 'm' + mode, mode=mode)
        symv, casev, _ = validate(chk, sym, traces, 'mv' + mode)
        caught = [v for v in casev if clause in v['failed'] and
                  not v['known']]
        print('C20 selftest (2) seeded %s: %d cases, %d reported as '
              'VIOLATION (%s, not explained)' % (mode, len(casev),
                                                 len(caught), clause))
        ok = ok and bool(caught)
    # (3) corrupted records: every verdict must change
    sym, traces = drive(chk, sub[:400], 'c')
    symv, v0, _ = validate(chk, sym, traces, 'cv0')
    symv, v1, _ = validate(chk, sym, [corrupt(t) for t in traces], 'cv1')
    a = {v['id']: v for v in v0}
    changed = sum(1 for v in v1 if sorted(v['failed']) !=
                  sorted(a[v['id']]['failed']))
    ex = next(v for v in v1 if sorted(v['failed']) !=
              sorted(a[v['id']]['failed']))
    print('C20 selftest (3) %d recorded outcomes flipped: %d verdicts '
          'changed, e.g. %s: failed %s -> %s' % (
              len(v1), changed, ex['id'], a[ex['id']]['failed'],
              ex['failed']))
    ok = ok and changed == len(v1)
    if not ok:
        raise MachineryError('selftest failed')
    print('C20 selftest: ok')
    sys.exit(0)


def run():
    chk = Check('C20', 'model_checking')
    try:
        check(chk)
    finally:
        if not os.environ.get('VERIF_KEEP_SCRATCH'):
            shutil.rmtree(chk.scratch, ignore_errors=True)


def check(chk):
    phase = {}
    t0 = time.time()
    info, head = None, None
    if chk.args.replay:
        obj = json.load(open(chk.args.replay))['case']
        c = dict(obj.get('history') or obj['case'])
        c.update(id=obj.get('id', 'replay').split('.')[0], type='case',
                 leg='replay')
        if obj.get('execute'):
            c['execute'] = True
        cases = [c]
        nuni = nship = 0
    else:
        with ThreadPoolExecutor(max_workers=2) as ex:
            fd = ex.submit(discover, chk, SHIPPED_CAP[chk.tier])
            cases, info = design(chk)
            head, shipped = fd.result()
        nuni, nship = len(cases), len(shipped)
        mark_execute(cases, NEXEC[chk.tier])
        cases += shipped
    known_ids = sorted(f['id'] for f in chk.findings
                       if f['status'] == 'known')
    for c in cases:
        c['known_ids'] = known_ids
    phase['design_tlc_and_discovery'] = round(time.time() - t0, 1)
    t0 = time.time()
    if chk.args.selftest:
        return selftest(chk, cases, known_ids)
    # long-running cases (execute) first
    cases.sort(key=lambda c: not c.get('execute'))
    # C20_MODE=nocheck|noname|patched: the drivers seed a defect / load the
    # patched copy (demonstrations; the evidence file is left alone)
    mode = os.environ.get('C20_MODE', '')
    if mode:
        print('C20: drivers run with C20_MODE=%s' % mode)
        for c in cases:
            c.pop('execute', None)
    sym, traces = drive(chk, cases, 't', mode=mode)
    phase['real_code'] = round(time.time() - t0, 1)
    t0 = time.time()
    by_tr = {t['id']: t for t in traces}
    symv, casev, st = validate(chk, sym, traces, 'v')
    nfail = judge(chk, by_tr, symv, casev)
    phase['trace_validation'] = round(time.time() - t0, 1)
    for t in traces:
        if t.get('execute') and t['out']['k'] == 'accepted' and \
                t['out']['ran'] != 'ok':
            raise MachineryError('complete probe problem %s was not run'
                                 % t['id'])

    by_v = {v['id']: v for v in casev}
    keys = set()
    kinds, mech, expd = {}, {}, {}
    for t in traces:
        v = by_v[t['id']]
        k = t['out']['k'] + ('@' + t['out']['stage']
                             if t['out']['stage'] else '')
        kinds[k] = kinds.get(k, 0) + 1
        m = '+'.join(sorted(v['mech'])) or 'neither'
        mech[m] = mech.get(m, 0) + 1
        expd[v['expected']] = expd.get(v['expected'], 0) + 1
        if v['expected'] == 'rejected':
            keys.add(json.dumps([inputs_of(t), t.get('hist')],
                                sort_keys=True))

    def sample(pred):
        t = next((t for t in traces if pred(t, by_v[t['id']])), None)
        if t is None:
            return []
        return [dict(inputs=inputs_of(t), out=t['out'],
                     verdict=by_v[t['id']])]
    samples = (
        sample(lambda t, v: v['expected'] == 'rejected' and not v['failed']
               and t['leg'] == 'universe' and t['out']['stage'] == 'aeval')
        + sample(lambda t, v: v['failed'] and t['leg'] == 'universe')
        + sample(lambda t, v: v['failed'] and t['leg'] == 'shipped-eq')
        + sample(lambda t, v: t['leg'] == 'shipped-stepper' and
                 v['expected'] == 'rejected'))
    if not samples:
        samples = sample(lambda t, v: True)
    info = info or dict(states=0, transitions=0)
    follows = ('explicit' if mech.get('explicit') and
               not mech.get('closure') else
               'closure' if mech.get('closure') and not mech.get('explicit')
               else 'undetermined')
    chk.cov.update(dict(
        states=info['states'] or st['distinct'],
        transitions=info['transitions'] or st['generated'],
        design_model='SetupMC.tla; universes: %s' % json.dumps(
            info.get('universes', [])),
        design_result=(
            'complete run with the mechanism "%s" (%s): Functional and %s '
            'hold on every case.  Side runs, each against the bare contract: '
            'the mechanism before the repair of %s ("explicit": argument '
            'names only), no property check ("none"), equations of an '
            'already checked class and dest skipped ("dedup"), only the '
            'last stepper checked ("laststepper"), constants of arrays '
            'listed earlier counted for later ones ("constleak"), stepper '
            'methods after stage2 unchecked ("stage12"), an equation object '
            'checked once not checked in a later build ("memo") - TLC finds '
            'a violating case for each (design_sensitivity)' % (
                info.get('variant'),
                'explicit names plus the closure of the symbol table; the '
                'code since the repair' if info.get('variant') == 'closure'
                else 'explicit argument names only; the code as it is',
                'the bare Contract' if info.get('variant') == 'closure'
                else 'ContractOrKnown', FINDING)),
        design_sensitivity=info.get('sensitivity', {}),
        symbol_table=dict(
            symbols=symv[0]['nsyms'], differing=symv[0]['tabdiff'],
            bound='table read from the source text of precomputed_symbols() '
                  'by the driver, compared with Setup!SymTab by TLC in every '
                  'batch; verdicts are computed with the recorded table'),
        code_follows_mechanism=follows,
        mechanism_match=mech,
        known_ids_that_may_mask=known_ids,
        traces_validated_against_impl=len(casev),
        universe_cases=nuni,
        shipped_cases=nship,
        shipped=dict((k, v) for k, v in (head or {}).items()
                     if k != 'type'),
        shipped_cap_per_class_and_role=(None if chk.args.replay else
                                        SHIPPED_CAP[chk.tier] or 'all'),
        compiled_and_run=sum(1 for t in traces
                             if t['out'].get('ran') == 'ok'),
        evaluations=len(traces),
        outcome_kinds=kinds,
        expected=expd,
        failing_cases=nfail,
        phase_s=phase,
        distinct_nontrivial=len(keys),
        rule='a case is one problem definition (particle arrays with the '
             'names of their properties and constants; equations with '
             'class, dest, sources, explicit d_/s_ names, precomputed '
             'symbols; steppers with their methods; group structure; api; '
             'for a history its position in it) put through the '
             'real set-up chain up to code generation; universe cases are '
             'printed by TLC (every case of the design model), shipped-'
             'class cases are derived from the real classes; distinct by '
             'those inputs; non-trivial when the problem is incomplete or '
             'names a non-existent array (TLC: expected = rejected)',
        exhaustive=True,
        samples=samples,
    ))
    chk.assumptions += [
        'the set-up chain is AccelerationEval / make_acceleration_evals, '
        'SPHCompiler(...), then what SPHCompiler.compile() does before the C '
        'compiler runs (_get_code(), get_code() of further helpers); '
        'SPHEvaluator is run with its compiler stopped at the same point; '
        'nothing generated is compiled or executed for an incomplete problem',
        'cython backend, CubicSpline(dim=1), a generated integrator whose '
        'one_timestep calls initialize and every stageN some stepper has; '
        'precomputed '
        'symbols count only as arguments of `loop` (as documented); for an '
        'equation without sources the symbols are not demanded (either '
        'outcome allowed)',
        'the error must name the class of an equation that has a problem '
        'and one missing name (or the non-existent array); a stepper is '
        'identified by its class or by the array it is given for; naming '
        'the array a property is missing from is recorded but not demanded; '
        'message words are compared as identifiers, d_x / s_x also count as '
        'x',
        'a history is two builds in one process (complete then incomplete '
        'or the reverse; same equation/stepper objects with the same or new '
        'array objects, or fresh objects); every build is judged on its own',
        'shipped classes: constructor arguments from a table of admissible '
        'values (else 1.0); arrays hold exactly the needed names plus '
        'tag/pid/gid, all as double properties; in two cases of three a '
        'further array pa_o that nothing is applied to owns all those names '
        'as constants (listed first / last); the names removed cover every '
        'method of the class and the symbol-only needs',
    ]
    evp = os.path.join(os.path.dirname(os.path.dirname(
        os.path.abspath(__file__))), 'evidence', 'C20.json')
    keep = open(evp).read() if mode and os.path.exists(evp) else None
    try:
        chk.finish()
    finally:
        if keep is not None:
            with open(evp, 'w') as fp:
                fp.write(keep)


if __name__ == '__main__':
    main(run)
