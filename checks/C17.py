"""C17 - spatial re-ordering is a pure permutation of whole particles.

Spec:    NNPS.tla (IsPermutation, SameBag of whole records, RealsFirst,
         QueryFail after the following update).
Binding: C01's scenarios (plus periodic domains, which create ghost-tagged
         rows, and strided/typed extra properties) are replayed into every
         class implementing get_spatially_ordered_indices; the index list, the
         arrays before/after spatially_order_particles and the neighbour
         lists after the next update are decided by TLC (TraceNNPS.tla).
         Every other scenario goes through Solver.reorder_particles (all
         arrays, followed by the update the solver itself performs).
"""
import json
import os
import random
import sys

sys.path.insert(0, os.path.dirname(os.path.dirname(os.path.abspath(__file__))))
sys.path.insert(0, os.path.dirname(os.path.abspath(__file__)))
from mbv import tlc                                   # noqa: E402
from mbv.harness import Check, MachineryError, main   # noqa: E402
import nnps_common as nc                              # noqa: E402

EXPLAINS = {
    'C17-reorder-ghosts-among-reals': {'reals-not-first'},
}


def run():
    chk = Check('C17', 'model_checking')
    rng = random.Random(chk.seed + 17)
    quick = chk.tier == 'quick'
    cfgs = nc.all_configs(reorder=True)
    if chk.args.replay:
        obj = json.load(open(chk.args.replay))['case']
        scens = [obj['scenario']]
        cfgs = [c for c in cfgs if c['ci'] == obj['cfg']['ci']]
        design = None
    else:
        design = tlc.run('NNPS', 'NNPS.hist.cfg', workers=4, timeout=1200)
        if design.get('error') or design.get('timeout'):
            raise MachineryError('TLC design failed:\n' + design['out'][-2000:])
        small = list(nc.small_scenarios(1, 5, 2, 1)) + \
            list(nc.small_scenarios(2, 2, 2, 1))
        rng.shuffle(small)
        if quick:
            scens = small[:150] + list(nc.random_scenarios(
                rng, 120, domain=True))
            cfgs = [c for c in cfgs
                    if (not c['kw'] and not c.get('cache'))
                    or (c['ci'] + chk.seed) % 3 == 0]
        else:
            scens = small[:800] + list(nc.random_scenarios(
                rng, 700, domain=True, nmax=32))
    if not chk.args.replay:
        # every other scenario is re-ordered by the real
        # Solver.reorder_particles (all arrays, then the solver's own update)
        # and queried without any further update
        for k, s in enumerate(scens):
            s['via_solver'] = bool(k % 2)
            s['implicit_ctx'] = bool((k // 2) % 2)
    nvia = sum(1 for s in scens if s.get('via_solver'))
    by_id = {s['id']: s for s in scens}
    not_run = []
    if not chk.args.replay and chk.known('C01-ezo-threaded-cache'):
        # records of this configuration are skipped below while C01's finding
        # is open (the corrupted memory says nothing about re-ordering), and
        # the corruption can also hang the child until its alarm: with the
        # finding open the configuration is not run at all
        not_run = [c for c in cfgs
                   if c['cls'] == 'ezo' and c.get('threads', 1) > 1]
        cfgs = [c for c in cfgs if c not in not_run]
    outs =nc.run_driver(chk, scens, cfgs, reorder=True, tag='c17')
    files, n = nc.batches(chk, outs, by_id, cfgs, per=200, tag='c17')
    try:
        verdicts, st = tlc.validate_batches('TraceNNPS', 'TraceNNPS.cfg',
                                            files, parallel=12)
    except tlc.TLCError as ex:
        raise MachineryError(str(ex))
    if len(verdicts) != n:
        raise MachineryError('verdicts %d != records %d' % (len(verdicts), n))
    cfg_by = {c['ci']: c for c in cfgs}
    per_cls = {}
    nontrivial = set()
    nghost = 0
    for v in verdicts:
        c = cfg_by[v['cfg']]
        s = by_id[v['sid']]
        pc = per_cls.setdefault(c['cls'], dict(ok=0, known=0, bad=0, skipped=0))
        if 'unsupported' in v['reorder']:
            pc['skipped'] += 1
            continue
        if c['cls'] == 'ezo' and c.get('threads', 1) > 1 and \
                chk.known('C01-ezo-threaded-cache'):
            # filling this class's cache from several threads corrupts
            # memory (C01's finding): nothing observed afterwards in that
            # process says anything about re-ordering
            pc['skipped'] += 1
            continue
        if s.get('domain'):
            nghost += 1
        if sum(len(a['h']) for a in s['steps'][0]['arrays']) >= 3:
            nontrivial.add((v['sid'], c['cls']))
        bad = set(v['reorder'])
        # queries before the re-ordering are C01's business; here only what
        # re-ordering is responsible for
        after = set(v['after'])
        if v['failed'] and set(v['failed']) <= {'crash', 'exception'}:
            # the scenario could not be run at all: C01 reports it
            hits = [k for k in v['known'] if k.startswith('C01')]
            if hits:
                pc['skipped'] += 1
                continue
            bad |= set(v['failed'])
        known_after = [k for k in v.get('known_after', [])]
        if after and known_after:
            after = set()     # the Z-order query defects are C01 findings
        if after and set(v['failed']) >= after:
            after = set()     # already wrong before re-ordering: not C17's
        explained = set()
        hits = []
        if 'reals-not-first' in bad and s.get('domain') and \
                chk.known('C17-reorder-ghosts-among-reals'):
            explained |= EXPLAINS['C17-reorder-ghosts-among-reals']
            hits.append('C17-reorder-ghosts-among-reals')
        rest = (bad - explained) | {'after:' + a for a in after}
        if rest:
            pc['bad'] += 1
            chk.violation('%s %s: %s on scenario %s' % (
                c['cls'], c['kw'], sorted(rest), v['sid']),
                dict(scenario=s, cfg=c, verdict=v))
        elif hits:
            pc['known'] += 1
            for k in hits:
                chk.known_hit(k)
        else:
            pc['ok'] += 1
    ex = scens[min(len(scens) - 1, 160)]
    chk.cov.update(dict(
        states=(design or st)['distinct'] if design else st['distinct'],
        transitions=(design or st)['generated'] if design else st['generated'],
        traces_validated_against_impl=len(verdicts),
        scenarios=len(scens), configurations=len(cfgs), per_class=per_cls,
        records_with_ghost_particles=nghost,
        scenarios_via_solver_reorder_particles=nvia,
        evaluations=len(verdicts), distinct_nontrivial=len(nontrivial),
        configurations_not_run_open_finding_C01_ezo_threaded_cache=len(not_run),
        rule='a case is one scenario replayed into one re-ordering-capable '
             'NNPS configuration: indices, arrays before/after and neighbour '
             'lists after the next update; non-trivial with >= 3 particles',
        samples=[dict(id=ex['id'], dim=ex['dim'], domain=ex.get('domain'),
                      first_step=ex['steps'][0])],
    ))
    chk.assumptions += [
        'ghost-tagged rows are created by a periodic DomainManager; every '
        'particle carries an identity and a strided property holding '
        '(id+.25, id+.5, id+.75) so that split records are visible',
    ]
    chk.finish()


if __name__ == '__main__':
    main(run)
