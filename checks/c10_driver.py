"""Runs the real pysph Solver.solve() on given configurations and records the
observable log (dump_output calls, integrator.step arguments, callbacks).

Runs under the build environment (PYTHONPATH = synchronised copy of /repo).
Input: ndjson of cases; output: ndjson of traces (see spec/TraceSolver.tla).
Nothing inside the solver is read except through the documented observation
points; `lim`/`nom` (the step size in force) are computed by the driver from
its own inputs (nominal dt, proposals returned so far, documented damping).
"""
import json
import math
import sys

import numpy

import pysph.solver.solver as solver_mod
from pysph.solver.solver import Solver


class FakeIntegrator(object):
    def __init__(self, rec):
        self.rec = rec

    def initial_acceleration(self, t, dt):
        pass

    def set_post_stage_callback(self, cb):
        pass

    def step(self, t, dt):
        self.rec.step(t, dt)

    def compute_time_step(self, dt, cfl):
        return self.rec.propose(dt, cfl)


class Recorder(object):
    def __init__(self, case):
        self.case = case
        self.q = case['q']
        self.log = []
        self.nsteps = 0
        self.ncalls = 0
        self.cur_nom = case['dt0']
        self.solver = None

    def quant(self, x):
        v = x / self.q
        r = int(round(v))
        if abs(r) >= (1 << 30):
            raise OverflowError('value out of 32-bit range: %r' % x)
        return r

    def damp(self, c):
        n = self.case['ndamp']
        if n > 0 and c < n:
            frac = (c + 1) / float(n)
            return 0.5 * (math.sin(math.pi * (-0.5 + frac)) + 1.0)
        return 1.0

    def nom_by_step(self, n):
        """The nominal step in force for step n: the last proposal the
        integrator has for steps 0..n (a function of the state of the
        simulation, not of how often the solver asked)."""
        nom = self.case['dt0']
        if self.case['adaptive']:
            for p in self.case['props'][:n + 1]:
                if p:
                    nom = p
        return nom

    def event(self, ev, t, dt, count):
        nom = self.cur_nom
        if ev in ('pre', 'step'):
            nom = self.nom_by_step(self.nsteps)
        lim = nom * self.damp(self.nsteps)
        self.log.append(dict(ev=ev, t=self.quant(t), dt=self.quant(dt),
                             count=int(count), lim=self.quant(lim),
                             nom=self.quant(nom), pos=bool(dt > 0)))

    def step(self, t, dt):
        if len(self.log) > 20000:
            raise RuntimeError('no termination after %d events' % len(self.log))
        self.event('step', t, dt, self.nsteps)

    def pre(self, s):
        self.event('pre', s.t, s.dt, self.nsteps)

    def post(self, s):
        self.event('post', s.t, s.dt, self.nsteps)
        self.nsteps += 1

    def propose(self, dt, cfl):
        # what the integrator allows depends on the step about to be taken
        props = self.case['props']
        k = self.nsteps
        self.ncalls += 1
        p = props[k] if k < len(props) else 0
        if p:
            self.cur_nom = p
            return p
        return None

    def dump(self, fname, particles, solver_data, **kw):
        self.event('dump', solver_data['t'], solver_data['dt'],
                   solver_data['count'])


def run_case(case):
    rec = Recorder(case)
    integ = FakeIntegrator(rec)
    extend = case.get('extend')
    s = Solver(dim=1, integrator=integ, kernel=None,
               n_damp=case['ndamp'], tf=extend if extend else case['tf'],
               dt=case['dt0'],
               adaptive_timestep=bool(case['adaptive']),
               output_at_times=list(case['outs']))
    s.particles = []
    s.set_print_freq(case['pfreq'])
    resume = case.get('resume')
    s.set_max_steps(resume if resume else case['maxsteps'])
    s.add_pre_step_callback(rec.pre)
    s.add_post_step_callback(rec.post)
    old = solver_mod.dump
    solver_mod.dump = rec.dump
    err = None
    mark = t1 = c1 = None
    try:
        s.solve(show_progress=False)
        if resume:
            # max_steps stopped the run (or tf was reached): raise the limit
            # and call solve() again on the same solver
            mark, t1, c1 = len(rec.log), s.t, s.count
            s.set_max_steps(case['maxsteps'])
            s.solve(show_progress=False)
        elif extend:
            # the run reached its final time; the final time is moved on and
            # solve() is called again (requested times beyond the first
            # final time are still to be honoured)
            mark, t1, c1 = len(rec.log), s.t, s.count
            s.set_final_time(case['tf'])
            s.solve(show_progress=False)
    except Exception as ex:  # the property says solve() terminates
        err = '%s: %s' % (type(ex).__name__, ex)
        if extend and mark is not None and 'no termination' in err:
            # after the final time was reached the solver goes on with the
            # clipped last step as its nominal one; when that step is tiny
            # the continued run needs more events than the driver records:
            # only the first call is judged
            err = None
            rec.log = rec.log[:mark]
            mark = None
            case = dict(case, tf=extend)
    finally:
        solver_mod.dump = old
    tr = dict(id=case['id'], exact=bool(case.get('exact', False)),
              e=int(case.get('e', 0)),
              tf=rec.quant(case['tf']), dt0=rec.quant(case['dt0']),
              pfreq=case['pfreq'], outs=[rec.quant(x) for x in case['outs']],
              ndamp=case['ndamp'], adaptive=bool(case['adaptive']),
              props=[rec.quant(x) for x in case['props']],
              maxsteps=case['maxsteps'], t0=0, c0=0, norec=False,
              log=rec.log)
    if err:
        tr['error'] = err
        return [tr]
    if mark is None:
        return [tr]
    tr2 = dict(tr, id=case['id'] + '+r', exact=False, t0=rec.quant(t1),
               c0=int(c1), norec=bool(extend), log=rec.log[mark:])
    if resume:
        tr.update(maxsteps=resume, log=rec.log[:mark])
    else:
        tr.update(tf=rec.quant(extend), log=rec.log[:mark])
    return [tr, tr2]


def main():
    inp, outp = sys.argv[1], sys.argv[2]
    with open(inp) as fi, open(outp, 'w') as fo:
        for line in fi:
            case = json.loads(line)
            try:
                trs = run_case(case)
            except OverflowError as ex:
                trs = [dict(id=case['id'], skipped=str(ex))]
            for tr in trs:
                fo.write(json.dumps(tr) + '\n')


if __name__ == '__main__':
    main()
