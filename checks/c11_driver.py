"""C11 driver: builds real ParticleArray lists from case descriptions, dumps
them with pysph.solver.utils.dump in a scratch directory, loads the file back
with pysph.solver.utils.load and records, one JSON line per (array list,
format, compress, detailed, only_real), the projection of the real arrays
before the dump and of the arrays returned by load, plus the solver data
before/after.  Version-1 npz files are written with numpy only from the
projection (layout read from NumpyOutput._load) and loaded the same way.

usage: c11_driver.py CASES.ndjson OUT.ndjson [START [COMBO]]
  CASES: one array-list description per line (see checks/C11.py gen_*)
  START, COMBO: index of the first description to run and of its first
         option combination (used to resume after a crash)
OUT is appended to; a journal OUT.journal holds the id of the case being run.
"""
import json
import os
import sys
import warnings

import numpy as np

warnings.simplefilter('ignore')

from pysph.base.particle_array import ParticleArray   # noqa: E402
from pysph.solver.utils import dump, load             # noqa: E402

NPT = {'double': np.float64, 'float': np.float32, 'int': np.int32,
       'long': np.int64, 'unsigned int': np.uint32}
SCALE = 1024          # solver times are k/1024: logged as the integer k
BAD = -777777         # value that is not an integer / not representable
MISSING = -888888     # no default recorded for a property


def norm(v):
    try:
        f = float(v)
        i = int(f)
    except (TypeError, ValueError, OverflowError):
        return BAD
    if f != i:
        return BAD
    if i >= 2 ** 31:           # unsigned int default UINT_MAX -> -1
        i -= 2 ** 32
    if not (-2 ** 31 <= i < 2 ** 31):
        return BAD
    return i


def proj(pa):
    """Abstract state of a real ParticleArray (as in c06_driver.proj, plus
    the C type of the constants)."""
    d = dict(type={}, stride={}, dflt={}, len={}, data={}, consts={},
             ctype={}, outs=[], nreal=int(pa.num_real_particles))
    for p, arr in pa.properties.items():
        d['type'][p] = arr.get_c_type()
        d['stride'][p] = int(pa.stride.get(p, 1))
        d['dflt'][p] = norm(pa.default_values[p]) \
            if p in pa.default_values else MISSING
        d['len'][p] = int(arr.length)
        d['data'][p] = [norm(v) for v in arr.get_npy_array()]
    for c, arr in pa.constants.items():
        d['consts'][c] = [norm(v) for v in arr.get_npy_array()]
        d['ctype'][c] = arr.get_c_type()
    d['outs'] = [str(x) for x in pa.output_property_arrays]
    return d


def build(desc):
    """A real ParticleArray from its description."""
    props = {}
    for p in desc['props']:
        kw = dict(type=p['type'], stride=p['stride'],
                  data=np.array(p['data'], dtype=NPT[p['type']]))
        if p['default'] is not None:
            kw['default'] = p['default']
        props[p['name']] = kw
    if desc['n'] > 0 or desc['tags']:
        props['tag'] = dict(data=np.array(desc['tags'], dtype=np.int32),
                            type='int')
    consts = {c: np.array(v['data'], dtype=v['dtype'])
              for c, v in desc['consts'].items()}
    pa = ParticleArray(name=desc['name'], constants=consts, **props)
    for p in desc.get('late', []):
        # a property added after construction without data: default-filled
        pa.add_property(p['name'], type=p['type'], stride=p['stride'],
                        default=p['default'])
    pa.set_output_arrays(list(desc['outs']))
    return pa


def sd_real(sd):
    return dict(t=sd['t'] / float(SCALE), dt=sd['dt'] / float(SCALE),
                count=int(sd['count']))


def sd_proj(sd):
    out = {}
    for k, v in sd.items():
        k = k.decode() if isinstance(k, bytes) else str(k)
        if k in ('t', 'dt'):
            out[k] = norm(float(v) * SCALE)
        else:
            out[k] = norm(v)
    return out


def stored_v1(a, detailed, only_real):
    """The columns a version-1 dump holds, from the abstract state: all
    properties if detailed or the output list is empty, else the output list;
    the first nreal rows if only_real."""
    cols = list(a['type']) if detailed or not a['outs'] else list(a['outs'])
    n = a['nreal'] if only_real else a['len']['tag']
    out = {}
    for p in cols:
        vals = a['data'][p][:n * a['stride'][p]]
        if a['type'][p] == 'unsigned int':      # undo the int32 normalisation
            vals = [v & 0xFFFFFFFF for v in vals]
        out[p] = np.array(vals, dtype=NPT[a['type'][p]])
    return out


def write_v1(fname, names, arrs, sd, detailed, only_real, bytes_keys):
    def key(s):
        return s.encode() if bytes_keys else s
    arrays = {}
    for nm in names:
        arrays[key(nm)] = {key(p): v for p, v in
                           stored_v1(arrs[nm], detailed, only_real).items()}
    sdata = {key(k): v for k, v in sd_real(sd).items()}
    np.savez(fname, version=1, arrays=arrays, solver_data=sdata)


def run_case(case, out, jr, scratch, first_combo=0):
    for ci, combo in enumerate(case['combos']):
        if ci < first_combo:
            continue
        fmt, compress, detailed, only_real = combo[:4]
        variant = combo[4] if len(combo) > 4 else ''
        cid = '%s/%d' % (case['id'], ci)
        jr.seek(0)
        jr.truncate()
        jr.write(cid)
        jr.flush()
        rec = dict(id=cid, fmt=fmt, compress=bool(compress),
                   detailed=bool(detailed), only_real=bool(only_real),
                   variant=variant, names=[], arrs={}, sd=dict(case['sd']),
                   lnames=[], larrs={}, lsd={}, error='')
        ext = 'hdf5' if fmt == 'hdf5' else 'npz'
        fname = os.path.join(scratch, 'c11_%d_%d.%s' % (os.getpid(), ci, ext))
        stage = 'build'
        try:
            pas = [build(d) for d in case['arrays']]
            rec['names'] = [pa.name for pa in pas]
            rec['arrs'] = {pa.name: proj(pa) for pa in pas}
            stage = 'write_v1' if fmt == 'npz1' else 'dump'
            if fmt == 'npz1':
                write_v1(fname, rec['names'], rec['arrs'], case['sd'],
                         detailed, only_real, variant == 'bytes-keys')
            else:
                dump(fname, pas, sd_real(case['sd']),
                     detailed_output=bool(detailed),
                     only_real=bool(only_real), mpi_comm=None,
                     compress=bool(compress))
                if not os.path.isfile(fname):
                    raise RuntimeError('dump wrote no file %s' %
                                       os.path.basename(fname))
            stage = 'load'
            data = load(fname)
            stage = 'project'
            rec['lnames'] = [str(k) for k in data['arrays'].keys()]
            rec['larrs'] = {str(k): proj(v)
                            for k, v in data['arrays'].items()}
            rec['lsd'] = sd_proj(data['solver_data'])
        except Exception as ex:
            rec['error'] = '%s: %s: %s' % (stage, type(ex).__name__, ex)
            if stage in ('build', 'write_v1', 'project'):
                rec['error'] = 'HARNESS ' + rec['error']
        finally:
            if os.path.exists(fname):
                os.remove(fname)
        out.write(json.dumps(rec) + '\n')
        out.flush()


SRC_FILES = ('solver/output.py', 'solver/utils.py', 'base/utils.py',
             'base/particle_array.pyx')


def source_hashes():
    """sha1 of the pysph sources this process imported (the build cache can
    be re-synchronised from another tree by a concurrent run; the check
    compares these with the tree it was asked to verify)."""
    import hashlib
    import pysph
    root = os.path.dirname(pysph.__file__)
    out = {}
    for f in SRC_FILES:
        with open(os.path.join(root, f), 'rb') as fp:
            out[f] = hashlib.sha1(fp.read()).hexdigest()
    return out


def main():
    cases_f, out_f = sys.argv[1], sys.argv[2]
    h0 = source_hashes()
    start = int(sys.argv[3]) if len(sys.argv) > 3 else 0
    combo = int(sys.argv[4]) if len(sys.argv) > 4 else 0
    scratch = os.path.dirname(os.path.abspath(out_f))
    cases = [json.loads(l) for l in open(cases_f)]
    with open(out_f, 'a') as out, open(out_f + '.journal', 'w') as jr:
        for k, case in enumerate(cases[start:]):
            run_case(case, out, jr, scratch, combo if k == 0 else 0)
        jr.seek(0)
        jr.truncate()
    with open(out_f + '.src', 'a') as fp:
        fp.write(json.dumps(dict(start=h0, end=source_hashes())) + '\n')


if __name__ == '__main__':
    main()
