"""C11 driver: builds real ParticleArray lists from case descriptions, dumps
them with pysph.solver.utils.dump in a scratch directory, loads the file back
with pysph.solver.utils.load and records, one JSON line per (array list,
format, compress, detailed, only_real), the projection of the real arrays
before the dump and of the arrays returned by load, plus the solver data
before/after.  Version-1 npz files are written with numpy only from the
projection (layout read from NumpyOutput._load) and loaded the same way.

usage: c11_driver.py --runs RUNS.ndjson OUT.ndjson   (file-name handling: runs
       of several dumps into one directory, see run_run)
       c11_driver.py CASES.ndjson OUT.ndjson [START [COMBO]]
  CASES: one array-list description per line (see checks/C11.py gen_*)
  START, COMBO: index of the first description to run and of its first
         option combination (used to resume after a crash)
OUT is appended to; a journal OUT.journal holds the id of the case being run.
"""
import json
import os
import sys
import warnings

import numpy as np

warnings.simplefilter('ignore')

from pysph.base.particle_array import ParticleArray   # noqa: E402
from pysph.solver.utils import dump, load             # noqa: E402

NPT = {'double': np.float64, 'float': np.float32, 'int': np.int32,
       'long': np.int64, 'unsigned int': np.uint32}
MISSING = 'missing'   # no default recorded for a property


def enc(v):
    """Exact, type-independent text of a number: decimal digits for an
    integral value of any C type (so 2**53+1 and UINT_MAX are themselves),
    float.hex() of the double for anything else (a float32 converts exactly).
    TLC compares these strings; its own integers are 32-bit."""
    if isinstance(v, (bool, np.bool_)):
        return str(int(v))
    if isinstance(v, (int, np.integer)):
        return str(int(v))
    try:
        f = float(v)
    except (TypeError, ValueError):
        return 'bad:%r' % (v,)
    if f != f:
        return 'nan'
    if f in (float('inf'), float('-inf')):
        return 'inf' if f > 0 else '-inf'
    if f == int(f):
        if f == 0 and np.signbit(f):
            return '-0.0'
        return str(int(f))
    return f.hex()


def dec(s):
    """A number from a description / from enc(): int, or 'f:<hex|inf|nan>'
    / hex text for floats."""
    if isinstance(s, (int, float)):
        return s
    if s.startswith('f:'):
        s = s[2:]
    if s in ('nan', 'inf', '-inf'):
        return float(s)
    if s == '-0.0':
        return -0.0
    if 'x' in s:
        return float.fromhex(s)
    return int(s)


def small(v):
    """tags stay TLC integers (ParticleArray.tla compares them with Local)"""
    i = int(v)
    return i if float(v) == i and abs(i) < 2 ** 31 else -777777


def proj(pa):
    """Abstract state of a real ParticleArray: as c06_driver.proj, but every
    value except the tags is the exact text enc(v); plus the C type of the
    constants."""
    d = dict(type={}, stride={}, dflt={}, len={}, data={}, consts={},
             ctype={}, outs=[], nreal=int(pa.num_real_particles))
    for p, arr in pa.properties.items():
        e = small if p == 'tag' else enc
        d['type'][p] = arr.get_c_type()
        d['stride'][p] = int(pa.stride.get(p, 1))
        d['dflt'][p] = e(pa.default_values[p]) \
            if p in pa.default_values else (-888888 if p == 'tag' else MISSING)
        d['len'][p] = int(arr.length)
        d['data'][p] = [e(v) for v in arr.get_npy_array()]
    for c, arr in pa.constants.items():
        d['consts'][c] = [enc(v) for v in arr.get_npy_array()]
        d['ctype'][c] = arr.get_c_type()
    d['outs'] = [str(x) for x in pa.output_property_arrays]
    return d


def last_row(pa):
    """The values of the last particle, per property (after extend(1) on a
    loaded array: what a particle appended to it gets)."""
    out = {}
    for p, arr in pa.properties.items():
        st = int(pa.stride.get(p, 1))
        e = small if p == 'tag' else enc
        out[p] = [e(v) for v in arr.get_npy_array()[-st:]]
    return out


def build(desc):
    """A real ParticleArray from its description."""
    props = {}
    for p in desc['props']:
        kw = dict(type=p['type'], stride=p['stride'],
                  data=np.array([dec(v) for v in p['data']],
                                dtype=NPT[p['type']]))
        if p['default'] is not None:
            kw['default'] = dec(p['default'])
        props[p['name']] = kw
    if desc['n'] > 0 or desc['tags']:
        props['tag'] = dict(data=np.array(desc['tags'], dtype=np.int32),
                            type='int')
    consts = {c: np.array([dec(x) for x in v['data']], dtype=v['dtype'])
              for c, v in desc['consts'].items()}
    pa = ParticleArray(name=desc['name'], constants=consts,
                       default_particle_tag=int(desc.get('default_tag', 0)),
                       **props)
    for p in desc.get('late', []):
        # a property added after construction without data: default-filled;
        # for pid / gid (they exist already) this sets their default
        pa.add_property(p['name'], type=p['type'], stride=p['stride'],
                        default=dec(p['default']))
    for name, v in desc.get('set_defaults', {}).items():
        # the default in force, set without going through add_property
        pa.default_values[name] = dec(v)
    if desc.get('exact'):
        # the state to be dumped must hold exactly the described values,
        # whatever conversions the constructor applies: write them into the
        # property arrays (the tags of such arrays are generated aligned, so
        # the constructor did not permute the rows)
        for p in desc['props']:
            pa.properties[p['name']].get_npy_array()[:] = np.array(
                [dec(v) for v in p['data']], dtype=NPT[p['type']])
    pa.set_output_arrays(list(desc['outs']))
    return pa


# ---- solver data: typed descriptions -> Python objects -> exact text ------
def sd_obj(d):
    k = d['k']
    if k == 'int':
        return int(d['v'])
    if k == 'float':
        return dec(d['v'])
    if k == 'bool':
        return bool(d['v'])
    if k == 'str':
        return d['v']
    if k == 'bytes':
        return bytes.fromhex(d['v'])
    if k == 'none':
        return None
    if k == 'np':
        return np.dtype(d['dtype']).type(dec(d['v']))
    if k == 'ndarray':
        return np.array([dec(x) for x in d['v']], dtype=d['dtype'])
    if k == 'list':
        return [sd_obj(x) for x in d['v']]
    if k == 'tuple':
        return tuple(sd_obj(x) for x in d['v'])
    if k == 'dict':
        return {sd_obj(a): sd_obj(b) for a, b in d['v']}
    raise ValueError(k)


def sd_enc(v):
    """Exact text of a solver-data value.  Numbers by value (hdf5 returns
    numpy scalars), sequences by their elements (hdf5 returns arrays for
    lists), but str / bytes / bool / None and dictionary keys keep their
    kind."""
    if v is None:
        return 'none'
    if isinstance(v, (bool, np.bool_)):
        return 't:%d' % int(v)
    if isinstance(v, (bytes, np.bytes_)):
        return 'b:' + bytes(v).hex()
    if isinstance(v, str):
        return 's:' + v
    if isinstance(v, dict):
        return '{' + ';'.join(sorted('%s=>%s' % (sd_enc(a), sd_enc(b))
                                     for a, b in v.items())) + '}'
    if isinstance(v, (list, tuple)):
        return '[' + ','.join(sd_enc(x) for x in v) + ']'
    if isinstance(v, np.ndarray):
        return '[' + ','.join(sd_enc(x) for x in v.ravel().tolist()) + ']' \
            if v.dtype == object else \
            '[' + ','.join(sd_enc(x) for x in v.ravel()) + ']'
    if isinstance(v, (int, float, np.integer, np.floating)):
        return 'n:' + enc(v)
    return 'bad:%s:%r' % (type(v).__name__, v)


def sd_real(sd):
    return {k: sd_obj(v) for k, v in sd.items()}


def sd_proj(sd):
    return {sd_enc(k): sd_enc(v) for k, v in sd.items()}


def pick_sd(case, fmt, variant):
    """hdf5 attributes (and files written by Python 2: bytes keys) hold
    numbers, bools, str and homogeneous sequences; npz holds anything"""
    flat = fmt == 'hdf5' or variant == 'bytes-keys'
    return case['sd_flat'] if flat else case['sd_rich']


def stored_v1(a, detailed, only_real):
    """The columns a version-1 dump holds, from the abstract state: all
    properties if detailed or the output list is empty, else the output list;
    the first nreal rows if only_real."""
    cols = list(a['type']) if detailed or not a['outs'] else list(a['outs'])
    n = a['nreal'] if only_real else a['len']['tag']
    out = {}
    for p in cols:
        vals = [dec(v) for v in a['data'][p][:n * a['stride'][p]]]
        out[p] = np.array(vals, dtype=NPT[a['type'][p]])
    return out


def write_v1(fname, names, arrs, sd, detailed, only_real, bytes_keys):
    def key(s):
        return s.encode() if bytes_keys else s
    arrays = {}
    for nm in names:
        arrays[key(nm)] = {key(p): v for p, v in
                           stored_v1(arrs[nm], detailed, only_real).items()}
    sdata = {key(k): v for k, v in sd.items()}
    np.savez(fname, version=1, arrays=arrays, solver_data=sdata)


def run_case(case, out, jr, scratch, first_combo=0):
    for ci, combo in enumerate(case['combos']):
        if ci < first_combo:
            continue
        fmt, compress, detailed, only_real = combo[:4]
        variant = combo[4] if len(combo) > 4 else ''
        cid = '%s/%d' % (case['id'], ci)
        jr.seek(0)
        jr.truncate()
        jr.write(cid)
        jr.flush()
        rec = dict(id=cid, fmt=fmt, compress=bool(compress),
                   detailed=bool(detailed), only_real=bool(only_real),
                   variant=variant, names=[], arrs={}, sd={},
                   lnames=[], larrs={}, lext={}, lsd={}, error='')
        ext = 'hdf5' if fmt == 'hdf5' else 'npz'
        fname = os.path.join(scratch, 'c11_%d_%d.%s' % (os.getpid(), ci, ext))
        stage = 'build'
        try:
            pas = [build(d) for d in case['arrays']]
            sdata = sd_real(pick_sd(case, fmt, variant))
            rec['sd'] = sd_proj(sdata)
            rec['names'] = [pa.name for pa in pas]
            rec['arrs'] = {pa.name: proj(pa) for pa in pas}
            stage = 'write_v1' if fmt == 'npz1' else 'dump'
            if fmt == 'npz1':
                write_v1(fname, rec['names'], rec['arrs'], sdata,
                         detailed, only_real, variant == 'bytes-keys')
            else:
                dump(fname, pas, sdata,
                     detailed_output=bool(detailed),
                     only_real=bool(only_real), mpi_comm=None,
                     compress=bool(compress))
                if not os.path.isfile(fname):
                    raise RuntimeError('dump wrote no file %s' %
                                       os.path.basename(fname))
            stage = 'load'
            data = load(fname)
            stage = 'project'
            rec['lnames'] = [str(k) for k in data['arrays'].keys()]
            rec['larrs'] = {str(k): proj(v)
                            for k, v in data['arrays'].items()}
            rec['lsd'] = sd_proj(data['solver_data'])
            stage = 'extend'
            for k, v in data['arrays'].items():
                v.extend(1)
                rec['lext'][str(k)] = last_row(v)
        except Exception as ex:
            rec['error'] = '%s: %s: %s' % (stage, type(ex).__name__, ex)
            if stage in ('build', 'write_v1', 'project'):
                rec['error'] = 'HARNESS ' + rec['error']
        finally:
            if os.path.exists(fname):
                os.remove(fname)
        out.write(json.dumps(rec) + '\n')
        out.flush()


SRC_FILES = ('solver/output.py', 'solver/utils.py', 'base/utils.py',
             'base/particle_array.pyx')


def source_hashes():
    """sha1 of the pysph sources this process imported (the build cache can
    be re-synchronised from another tree by a concurrent run; the check
    compares these with the tree it was asked to verify)."""
    import hashlib
    import pysph
    root = os.path.dirname(pysph.__file__)
    out = {}
    for f in SRC_FILES:
        with open(os.path.join(root, f), 'rb') as fp:
            out[f] = hashlib.sha1(fp.read()).hexdigest()
    return out


# ---- runs: the file-name handling of dump / load / get_files ---------------
def listing(root, skip):
    out = []
    for d, dn, fn in os.walk(root):
        for f in fn:
            rel = os.path.relpath(os.path.join(d, f), root)
            if rel not in skip:
                out.append(rel)
    return sorted(out)


def magic(path):
    with open(path, 'rb') as fp:
        b = fp.read(8)
    if b[:2] == b'PK':
        return 'npz'
    if b[:4] == b'\x89HDF':
        return 'hdf5'
    return 'other'


def rel(path, root):
    path = os.path.abspath(path)
    root = os.path.abspath(root)
    return path[len(root) + 1:] if path.startswith(root + os.sep) else path


def run_run(case, out, root):
    """One run: several dumps into one directory under `root`, then load of
    every file present, get_files, load_and_concatenate.  Every recorded
    string is a list of characters; paths are relative to root."""
    import shutil
    from pysph import has_h5py
    from pysph.solver.utils import get_files, load_and_concatenate
    ch = list
    rec = dict(id=case['id'], h5=bool(has_h5py()), solver=case['solver'],
               dir=ch(case['dir']), base=ch(case['base']), ext=ch(case['ext']),
               counts=case['counts'], names=[ch(n) for n in case['names']],
               listings=[], loaded=[], found=[], auto=bool(case['auto']),
               found_auto=[], concat=[], error='')
    os.makedirs(root)
    skip = set()
    stage = 'setup'
    try:
        d = os.path.join(root, case['dir']) if case['dir'] else root
        os.makedirs(d, exist_ok=True)
        if case.get('info'):
            inf = os.path.join(d, case['base'] + '.info')
            open(inf, 'w').write('{}')
            skip.add(rel(inf, root))
        for name, count in zip(case['names'], case['counts']):
            stage = 'setup'
            full = os.path.join(root, name)
            os.makedirs(os.path.dirname(full), exist_ok=True)
            pa = ParticleArray(name='f', x=dict(data=np.array(
                [float(count % 1024), 1.0])))
            stage = 'dump(%s)' % name
            dump(full, [pa], dict(t=0.0, dt=1.0, count=int(count)),
                 detailed_output=False, only_real=True, mpi_comm=None,
                 compress=bool(case.get('compress')))
            rec['listings'].append([ch(f) for f in listing(root, skip)])
        stage = 'load'
        for f in listing(root, skip):
            ent = dict(path=ch(f), ok=False, count=-1,
                       magic=magic(os.path.join(root, f)))
            try:
                data = load(os.path.join(root, f))
                ent['count'] = small(data['solver_data']['count'])
                ent['ok'] = True
            except Exception:
                pass
            rec['loaded'].append(ent)
        if case['solver']:
            stage = 'get_files'
            rec['found'] = [ch(rel(f, root))
                            for f in get_files(d, case['base'])]
            if case['auto']:
                rec['found_auto'] = [ch(rel(f, root)) for f in get_files(d)]
        for c in case.get('concat_counts', []):
            ent = dict(count=c, ok=False, got=-1)
            try:
                data = load_and_concatenate(
                    case['concat_prefix'], nprocs=1, directory=d,
                    count=None if c < 0 else c)
                ent['got'] = small(data['solver_data']['count'])
                ent['ok'] = True
            except Exception:
                pass
            rec['concat'].append(ent)
    except Exception as ex:
        rec['error'] = '%s: %s: %s' % (stage, type(ex).__name__, ex)
        if stage == 'setup':
            rec['error'] = 'HARNESS ' + rec['error']
    finally:
        shutil.rmtree(root, ignore_errors=True)
    out.write(json.dumps(rec) + '\n')
    out.flush()


def main_runs(cases_f, out_f):
    h0 = source_hashes()
    scratch = os.path.dirname(os.path.abspath(out_f))
    with open(out_f, 'w') as out:
        for k, line in enumerate(open(cases_f)):
            run_run(json.loads(line), out,
                    os.path.join(scratch, 'run_%d_%d' % (os.getpid(), k)))
    with open(out_f + '.src', 'a') as fp:
        fp.write(json.dumps(dict(start=h0, end=source_hashes())) + '\n')


def main():
    if sys.argv[1] == '--runs':
        return main_runs(sys.argv[2], sys.argv[3])
    cases_f, out_f = sys.argv[1], sys.argv[2]
    h0 = source_hashes()
    start = int(sys.argv[3]) if len(sys.argv) > 3 else 0
    combo = int(sys.argv[4]) if len(sys.argv) > 4 else 0
    scratch = os.path.dirname(os.path.abspath(out_f))
    cases = [json.loads(l) for l in open(cases_f)]
    with open(out_f, 'a') as out, open(out_f + '.journal', 'w') as jr:
        for k, case in enumerate(cases[start:]):
            run_case(case, out, jr, scratch, combo if k == 0 else 0)
        jr.seek(0)
        jr.truncate()
    with open(out_f + '.src', 'a') as fp:
        fp.write(json.dumps(dict(start=h0, end=source_hashes())) + '\n')


if __name__ == '__main__':
    main()
