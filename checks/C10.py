"""C10 - the solver loop reaches tf exactly and honours the output schedule.

Design:   TLC checks Solver.tla (mechanism M => property layer P) for every
          input of a small instance, plus termination under fairness.
Binding:  the same inputs (and random non-commensurate ones) are run through
          the real Solver.solve(); the recorded logs are validated by
          TraceSolver.tla: P on the real log (verdict) and log equality with
          M on exact runs (drift).
"""
import itertools
import json
import os
import random
import sys
from concurrent.futures import ThreadPoolExecutor

sys.path.insert(0, os.path.dirname(os.path.dirname(os.path.abspath(__file__))))
from mbv import tlc                                   # noqa: E402
from mbv.harness import Check, MachineryError, main   # noqa: E402

TICK = 2.0 ** -4
QEXACT = 2.0 ** -14
BIG = 1000000

BOUNDS = {
    'quick': dict(MaxTf=6, MaxDt=4, MaxPf=2, MaxOuts=2, NDamps=[0, 1, 2],
                  PropVals=[0, 2, 3], MaxProps=2, MaxStepsVals=[2, 100]),
    'thorough': dict(MaxTf=8, MaxDt=4, MaxPf=2, MaxOuts=2, NDamps=[0, 1, 2],
                     PropVals=[0, 2, 3], MaxProps=2, MaxStepsVals=[2, 100]),
}


def write_cfg(path, b, masked=True):
    def s(x):
        return '{' + ', '.join(map(str, x)) + '}'
    inv = ['TypeOK', 'M_Terminates', 'M_Monotone', 'M_StepBounded',
           'M_Contiguous', 'M_DumpStart', 'M_DumpEnd', 'M_DumpPfreq',
           'M_NeverPast' + ('_masked' if masked else ''),
           'M_DumpAtTimes' + ('_masked' if masked else ''),
           'M_RecordedDt', 'M_Callbacks']
    with open(path, 'w') as fp:
        fp.write('SPECIFICATION Spec\nCONSTANTS\n')
        for k in ('MaxTf', 'MaxDt', 'MaxPf', 'MaxOuts', 'MaxProps'):
            fp.write('  %s = %d\n' % (k, b[k]))
        for k in ('NDamps', 'PropVals', 'MaxStepsVals'):
            fp.write('  %s = %s\n' % (k, s(b[k])))
        for i in inv:
            fp.write('INVARIANT %s\n' % i)
        fp.write('PROPERTY Termination\nCHECK_DEADLOCK FALSE\n')


def exact_cases(b):
    """The input space of Solver.tla's Init, as configurations of the real
    solver (1 tick = 2^-4)."""
    n = 0
    for tf in range(1, b['MaxTf'] + 1):
        subsets = [()]
        for k in range(1, b['MaxOuts'] + 1):
            subsets += list(itertools.combinations(range(0, tf + 1), k))
        for ndamp in b['NDamps']:
            for dt0 in range(1, b['MaxDt'] + 1):
                if ndamp == 2 and dt0 % 2:
                    continue
                plist = [(False, ())]
                for k in range(0, b['MaxProps'] + 1):
                    for p in itertools.product(b['PropVals'], repeat=k):
                        if ndamp == 2 and any(x % 2 for x in p):
                            continue
                        plist.append((True, p))
                for pf in range(1, b['MaxPf'] + 1):
                    for outs in subsets:
                        for ad, p in plist:
                            for ms in b['MaxStepsVals']:
                                n += 1
                                yield dict(
                                    id='x%d' % n, exact=True, e=0, q=QEXACT,
                                    tf=tf * TICK, dt0=dt0 * TICK, pfreq=pf,
                                    outs=[o * TICK for o in outs], ndamp=ndamp,
                                    adaptive=ad, props=[x * TICK for x in p],
                                    maxsteps=ms)


def random_cases(rng, n):
    """Non-commensurate configurations; times logged in units of tf*2^-28."""
    for i in range(n):
        tf = rng.choice([1.0, 0.3, 2.5, rng.uniform(0.1, 10.0), 1e-3, 7.0])
        kind = rng.random()
        if kind < 0.3:
            dt0 = tf / rng.randint(2, 40)
        elif kind < 0.6:
            dt0 = tf * rng.uniform(0.01, 0.6)
        else:
            dt0 = rng.choice([0.1, 0.01, 0.03, 1e-4 * 7]) * tf
        dt0 = max(dt0, tf / 400.0)
        nouts = rng.choice([0, 1, 1, 2, 3, 5])
        outs = set()
        for k in range(nouts):
            r = rng.random()
            if r < 0.3:
                outs.add(dt0 * rng.randint(1, 12))        # on a step time
            elif r < 0.5 and outs:
                outs.add(rng.choice(sorted(outs)) + dt0 * rng.uniform(0.01, 0.5))
            elif r < 0.6:
                outs.add(tf)
            elif r < 0.7:
                outs.add(dt0 * rng.uniform(0.05, 0.95))   # inside first step
            else:
                outs.add(rng.uniform(0, tf))
        outs = sorted(o for o in outs if 0 <= o <= tf)
        ad = rng.random() < 0.5
        props = []
        if ad:
            for k in range(rng.randint(0, 30)):
                props.append(0 if rng.random() < 0.2
                             else max(dt0 * rng.uniform(0.3, 2.0), tf / 400.0))
        c = dict(id='r%d' % i, exact=False, e=2, q=tf * 2.0 ** -28,
                 tf=tf, dt0=dt0, pfreq=rng.choice([1, 2, 3, 7, 100]),
                 outs=outs, ndamp=rng.choice([0, 0, 1, 2, 3, 5, 10]),
                 adaptive=ad, props=props,
                 maxsteps=rng.choice([BIG, BIG, BIG, 3, 10]))
        if rng.random() < 0.3:
            # max_steps stops the run, the limit is raised, solve() again
            c['resume'] = rng.randint(1, 12)
            c['maxsteps'] = rng.choice([BIG, c['resume'] + rng.randint(0, 9)])
        elif rng.random() < 0.2 and c['maxsteps'] == BIG:
            # the run ends at an earlier final time, which is then moved on
            c['extend'] = tf * rng.choice([0.25, 0.5, rng.uniform(0.1, 0.9)])
        yield c


def long_cases(rng, n):
    """Long runs (hundreds of steps) with requested times on multiples of
    the step: round-off in t accumulates over many iterations."""
    for i in range(n):
        tf = rng.choice([1.0, 30.0, 100.0, 10.0, 3.0])
        nst = rng.choice([300, 500, 800, 1000, 1500])
        dt0 = rng.choice([0.1, 0.01, 0.001, tf / nst])
        if tf / dt0 > 1600:
            dt0 = tf / 1600
        if tf / dt0 < 200:
            dt0 = tf / 250.0
        ns = int(tf / dt0)
        ks = sorted(set(rng.randint(ns // 4, ns - 1) for k in range(
            rng.choice([3, 6, 12]))))
        outs = [dt0 * k for k in ks]
        yield dict(id='L%d' % i, exact=False, e=2, q=tf * 2.0 ** -28, tf=tf,
                   dt0=dt0, pfreq=rng.choice([1000, 100, 7]), outs=outs,
                   ndamp=rng.choice([0, 0, 5, 50]), adaptive=False, props=[],
                   maxsteps=BIG)


def run_cases(chk, cases, nproc=16):
    """Drive the real solver over `cases`; returns list of traces."""
    sc = chk.scratch
    chunks = [cases[i::nproc] for i in range(nproc)]
    chunks = [c for c in chunks if c]
    files = []
    for i, c in enumerate(chunks):
        fi = os.path.join(sc, 'cases-%d.ndjson' % i)
        with open(fi, 'w') as fp:
            for x in c:
                fp.write(json.dumps(x) + '\n')
        files.append((fi, os.path.join(sc, 'traces-%d.ndjson' % i)))
    with ThreadPoolExecutor(max_workers=nproc) as ex:
        list(ex.map(lambda io: chk.run_py('checks/c10_driver.py', list(io)),
                    files))
    traces = []
    for fi, fo in files:
        with open(fo) as fp:
            traces += [json.loads(l) for l in fp]
    return traces


def validate(chk, traces, per_batch=400):
    traces = sorted(traces, key=lambda t: len(t.get('log', [])))
    sc = chk.scratch
    errs = [t for t in traces if 'error' in t]
    ok = [t for t in traces if 'error' not in t and 'skipped' not in t]
    files = []
    for i in range(0, len(ok), per_batch):
        f = os.path.join(sc, 'batch-%d.ndjson' % (i // per_batch))
        with open(f, 'w') as fp:
            for t in ok[i:i + per_batch]:
                fp.write(json.dumps(t) + '\n')
        files.append(f)
    try:
        verdicts, st = tlc.validate_batches('TraceSolver', 'TraceSolver.cfg',
                                            files, parallel=12)
    except tlc.TLCError as ex:
        raise MachineryError(str(ex))
    if len(verdicts) != len(ok):
        raise MachineryError('verdict count %d != traces %d' % (
            len(verdicts), len(ok)))
    return verdicts, errs, st


def nontrivial(t):
    evs = [e['ev'] for e in t['log']]
    nsteps = evs.count('step')
    cut = any(e['ev'] == 'step' and e['dt'] < e['lim'] for e in t['log'])
    return nsteps >= 2 and (cut or t['adaptive'] or t['ndamp'] > 0)


def judge(chk, cases_by_id, traces_by_id, verdicts, errs):
    for t in errs:
        chk.violation('solve() raised: %s' % t['error'],
                      dict(case=cases_by_id[t['id']], trace=t))
    ndrift = 0
    for r in verdicts:
        v = r['v']
        tid = v['id']
        tr = traces_by_id[tid]
        cases_by_id.setdefault(tid, cases_by_id.get(tid.split('+')[0]))
        if v['failed_masked']:
            chk.violation('clauses %s fail on the recorded log' % (
                sorted(v['failed_masked']),),
                dict(case=cases_by_id[tid], trace=tr, verdict=r))
        elif v['failed']:
            if chk.known('C10-first-step') and v['known']:
                chk.known_hit('C10-first-step')
            else:
                chk.violation('clauses %s fail on the recorded log' % (
                    sorted(v['failed']),),
                    dict(case=cases_by_id[tid], trace=tr, verdict=r))
        if tr['exact'] and not r['done']:
            ndrift += 1
            chk.note_drift('Solver', 'trace %s event %d: real log %s' % (
                tid, r['m'] + 1,
                json.dumps(tr['log'][r['m']:r['m'] + 1])))
    return ndrift


def run():
    chk = Check('C10', 'model_checking')
    rng = random.Random(chk.seed)
    if chk.args.replay:
        obj = json.load(open(chk.args.replay))['case']
        cases = [obj['case']]
    b = BOUNDS[chk.tier]
    design = None
    if not chk.args.replay:
        cfg = os.path.join(chk.scratch, 'Solver.design.cfg')
        write_cfg(cfg, b)
        design = tlc.run('Solver', cfg, workers=16, coverage=False,
                         timeout=3000)
        if not design['ok']:
            if design.get('error') or design.get('timeout'):
                raise MachineryError('TLC design run failed:\n' +
                                     design['out'][-3000:])
            # The mechanism model violates the property layer: decided
            # against the real code by the traces below, not here.
            chk.cov['design_counterexample'] = design['violation']
        allx = list(exact_cases(b))
        if chk.tier == 'quick':
            rng.shuffle(allx)
            cases = allx[:6000]
            for c in cases[::5]:
                if c['maxsteps'] > 2:
                    c['resume'] = 1 + (int(c['id'][1:]) % 3)
            cases += list(random_cases(rng, 1500))
            cases += list(long_cases(rng, 48))
        else:
            for c in allx[::3]:
                if c['maxsteps'] > 2:
                    c['resume'] = 1 + (int(c['id'][1:]) % 3)
            cases = allx + list(random_cases(rng, 20000)) + \
                list(long_cases(rng, 600))
    traces = run_cases(chk, cases)
    by_case = {c['id']: c for c in cases}
    by_tr = {t['id']: t for t in traces}
    verdicts, errs, st = validate(chk, traces)
    ndrift = judge(chk, by_case, by_tr, verdicts, errs)
    good = [t for t in traces if 'log' in t]
    keys = set()
    for t in good:
        if nontrivial(t):
            keys.add(json.dumps([t[k] for k in (
                'tf', 'dt0', 'pfreq', 'outs', 'ndamp', 'adaptive', 'props',
                'maxsteps')]))
    sample = next((t for t in good if nontrivial(t) and t['outs']), good[0])
    chk.cov.update(dict(
        states=(design or {}).get('distinct', 0) or st['distinct'],
        transitions=(design or {}).get('generated', 0) or st['generated'],
        design_model='Solver.tla %s' % json.dumps(b),
        design_result=('no invariant violated, Termination holds'
                       if design and design['ok'] else
                       str(design and design['violation'])),
        traces_validated_against_impl=len(verdicts),
        trace_states=st['distinct'],
        exact_traces=sum(1 for t in good if t['exact']),
        quantised_traces=sum(1 for t in good if not t['exact']),
        mechanism_drift=ndrift,
        continued_runs=sum(1 for t in good if t.get('c0') or
                           t['id'].endswith('+r')),
        evaluations=len(traces),
        distinct_nontrivial=len(keys),
        rule='a case is one solver configuration (tf, dt, pfreq, output '
             'times, n_damp, adaptive proposals, max_steps) run through the '
             'real Solver.solve(); distinct by those inputs; non-trivial when '
             'the run takes >= 2 steps and has a shortened step, adaptive '
             'proposals or damping',
        exhaustive=(chk.tier == 'thorough'),
        samples=[dict(inputs={k: sample[k] for k in (
            'tf', 'dt0', 'pfreq', 'outs', 'ndamp', 'adaptive', 'props',
            'maxsteps')}, log=sample['log'][:12])],
    ))
    chk.assumptions += [
        'fake integrator: step() records (t, dt); compute_time_step returns '
        'the proposal chosen for the step about to be taken (the step size '
        'in force is a function of the step, not of how often the solver '
        'asked); no particles',
        'continued runs: max_steps stops solve(), the limit is raised and '
        'solve() is called again on the same object (or the run ends at an '
        'earlier final time, set_final_time moves it on, solve() again); '
        'each call is judged as a run from (t0, c0)',
        'exact runs: 1 tick = 2^-4 so float arithmetic is exact and the '
        "solver's epsilon tests reduce to integer comparisons",
        'quantised runs: unit tf*2^-28, slack e=2 units in the clauses that '
        'say "to rounding"',
    ]
    chk.finish()


if __name__ == '__main__':
    main(run)
