"""C03 - groups run in the documented order, over the documented particles.

Design:  AccelEval.tla - an executor shaped like the generated code; on every
         program of a small grammar its log obeys the iteration rule, the
         condition rule, index ranges and phase order (AccelEvalMC.tla).
Binding: random group trees are rendered as *logging probe equations* written
         in pysph's own DSL, compiled by the real code generator and run (no
         OpenMP: total order observable); every hook / callable invocation is
         recorded and TLC decides whether the log is a behaviour the
         documented order allows (TraceAccelEval.tla: equal to the executor's
         log up to the order of neighbours), and that converged() was asked
         exactly as often as documented.
"""
import json
import os
import random
import sys
from concurrent.futures import ThreadPoolExecutor

sys.path.insert(0, os.path.dirname(os.path.dirname(os.path.abspath(__file__))))
from mbv import tlc                                   # noqa: E402
from mbv.harness import Check, MachineryError, main   # noqa: E402

HOOKS = ['py_initialize', 'initialize', 'initialize_pair', 'loop_all', 'loop',
         'post_loop', 'reduce']
PAIR = {'initialize_pair', 'loop_all', 'loop'}


def gen_program(rng, pid):
    na = rng.choice([1, 2, 2, 3])
    eid = [0]
    gid = [1000]

    def gen_eqs():
        eqs = []
        for k in range(rng.randint(1, 3)):
            hooks = [h for h in HOOKS if rng.random() < 0.45]
            if not hooks:
                hooks = [rng.choice(HOOKS)]
            nsrc = rng.choice([1, 1, 2]) if set(hooks) & PAIR else \
                rng.choice([0, 1])
            srcs = rng.sample(range(na), min(nsrc, na))
            eid[0] += 1
            eqs.append(dict(eid=eid[0], dest=rng.randrange(na), srcs=srcs,
                            hooks=hooks))
        return eqs

    def gen_group(top=True):
        gid[0] += 1
        mode = rng.choice(['none', 'none', 'start', 'stop', 'both', 'sprop',
                           'pprop', 'props'])
        g = dict(gid=gid[0], real=rng.random() < 0.6, start=0, stop=-1,
                 sprop=False, pprop=False, iterate=False, minit=0, maxit=1,
                 hascond=rng.random() < 0.35, haspre=rng.random() < 0.4,
                 haspost=rng.random() < 0.4, upd=rng.random() < 0.3,
                 sub=[], eqs=[],
                 name=rng.choice(['', '', 'grp', 'grp', 'other']))
        if mode in ('start', 'both'):
            g['start'] = rng.choice([0, 1, 2])
        if mode in ('stop', 'both'):
            g['stop'] = rng.choice([0, 1, 2])   # arrays have >= 2 particles
            g['start'] = min(g['start'], g['stop'])
        if mode in ('sprop', 'props'):
            g['sprop'] = True
        if mode in ('pprop', 'props'):
            g['pprop'] = True
        if top and rng.random() < 0.4:
            g['iterate'] = True
            g['maxit'] = rng.randint(1, 4)
            g['minit'] = rng.randint(0, g['maxit'])
        if top and rng.random() < 0.3:
            g['sub'] = [gen_group(False) for k in range(rng.randint(1, 3))]
        else:
            g['eqs'] = gen_eqs()
        return g
    prog = [gen_group() for k in range(rng.randint(1, 4))]

    def gen_run(rid):
        arr = []
        for a in range(na):
            nreal = rng.randint(0, 4)
            nall = max(2, nreal + rng.randint(0, 2))
            nreal = min(nreal, nall)
            stv = rng.randint(0, 2)
            spv = rng.randint(stv, nall)
            arr.append(dict(nreal=nreal, nall=nall, stv=stv, spv=spv,
                            pos=[rng.randint(0, 5) for i in range(nall)]))
        gids = []
        eids = []
        for g in prog:
            gids.append(g['gid'])
            for sg in g['sub']:
                gids.append(sg['gid'])
                eids += [e['eid'] for e in sg['eqs']]
            eids += [e['eid'] for e in g['eqs']]
        env = dict(
            cond={str(k): [rng.random() < 0.7 for i in range(16)] for k in gids},
            conv={str(k): [rng.random() < 0.55 for i in range(16)]
                  for k in eids})
        return dict(rid=rid, arr=arr, env=env)
    return dict(pid=pid, prog=prog, runs=[gen_run(r) for r in range(12)])


def run():
    chk = Check('C03', 'model_checking')
    rng = random.Random(chk.seed + 3)
    quick = chk.tier == 'quick'
    sc = chk.scratch
    design = None
    if chk.args.replay:
        obj = json.load(open(chk.args.replay))['case']
        progs = [obj['program']]
    else:
        chk.env
        pool = ThreadPoolExecutor(max_workers=1)
        dfut = pool.submit(tlc.run, 'AccelEvalMC', 'AccelEvalMC.cfg',
                           workers=8, timeout=3000)
        progs = [gen_program(rng, 'p%d' % i)
                 for i in range(16 if quick else 160)]
    nproc = 16
    jobs = []
    for i in range(nproc):
        part = progs[i::nproc]
        if not part:
            continue
        fi = os.path.join(sc, 'progs%d.ndjson' % i)
        with open(fi, 'w') as fp:
            for p in part:
                fp.write(json.dumps(p) + '\n')
        jobs.append([fi, os.path.join(sc, 'out%d.ndjson' % i),
                     os.path.join(sc, 'work%d' % i)])
    with ThreadPoolExecutor(max_workers=nproc) as ex:
        home = chk.private_home()    # random programs: nothing to cache
        list(ex.map(lambda j: chk.run_py('checks/c03_driver.py', j,
                                         timeout=7000,
                                         env_extra={'HOME': home}), jobs))
    recs = []
    for j in jobs:
        recs += open(j[1]).readlines()
    files = []
    for i in range(0, len(recs), 40):
        f = os.path.join(sc, 'batch%d.ndjson' % (i // 40))
        open(f, 'w').writelines(recs[i:i + 40])
        files.append(f)
    try:
        verdicts, st = tlc.validate_batches('TraceAccelEval',
                                            'TraceAccelEval.cfg', files,
                                            parallel=12)
    except tlc.TLCError as ex:
        raise MachineryError(str(ex))
    if len(verdicts) != len(recs):
        raise MachineryError('verdicts %d != records %d' % (
            len(verdicts), len(recs)))
    by_pid = {p['pid']: p for p in progs}
    raw = {}
    for l in recs:
        r = json.loads(l)
        raw[r['id']] = r
    nev = 0
    feats = {}
    nontrivial = set()
    for v in verdicts:
        r = raw[v['id']]
        p = by_pid[v['id'].split('/')[0]]
        nev += v['n']
        if v['n'] >= 20:
            nontrivial.add(v['id'])
        if 'error' in r or 'crash' in r:
            chk.violation('program %s: %s' % (p['pid'], r.get(
                'error', 'crash of the compiled evaluator')),
                dict(program=p, error=r.get('error'), tb=r.get('tb')))
            continue
        if not v['ok'] or not v['vcok']:
            what = 'hook order differs at canonical event %d: got %s, ' \
                'documented %s' % (v['diff'], v['real'], v['want']) \
                if not v['ok'] else 'converged() call counts %s' % r['vc']
            chk.violation('run %s: %s' % (v['id'], what),
                          dict(program=p, run=v['id'], verdict=v))
    for p in progs:
        for g in p['prog']:
            for k in ('iterate', 'hascond', 'haspre', 'haspost', 'upd', 'sprop',
                      'pprop'):
                if g[k]:
                    feats[k] = feats.get(k, 0) + 1
            if g['sub']:
                feats['subgroups'] = feats.get('subgroups', 0) + 1
            if not g['real']:
                feats['real=False'] = feats.get('real=False', 0) + 1
    if not chk.args.replay:
        design = dfut.result()
        if design.get('error') or design.get('timeout'):
            raise MachineryError('TLC design failed:\n' + design['out'][-2000:])
        if not design['ok']:
            chk.violation('design model AccelEvalMC: %s' % design['violation'],
                          dict(program=None, out=design['out'][-3000:]))
    sample = progs[0]
    chk.cov.update(dict(
        states=(design or st)['distinct'], transitions=(design or st)['generated'],
        traces_validated_against_impl=len(verdicts),
        compiled_programs=len(progs), hook_events_checked=nev,
        feature_counts=feats,
        evaluations=len(verdicts), distinct_nontrivial=len(nontrivial),
        rule='a case is one compute() of a compiled random group tree on one '
             'data set / condition / convergence script; non-trivial when the '
             'recorded log has >= 20 events',
        samples=[dict(program=sample['prog'], run=sample['runs'][0])],
    ))
    chk.assumptions += [
        'run without OpenMP so the total order of hook invocations is '
        'observable; the order of neighbours inside one destination '
        "particle's loop is not constrained",
        'probe equations log through destination constants shared by all '
        'arrays; Python-level callables log into the same buffer',
        '1-D lattice with h and radius_scale chosen so that no pair lies '
        'exactly at the cut-off',
        'programs with min_iterations > max_iterations or max_iterations < 1 '
        'are not generated (the documentation gives them no meaning)',
    ]
    chk.finish()


if __name__ == '__main__':
    main(run)
