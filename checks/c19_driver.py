"""Runs the real Integrator.compute_time_step and Solver._compute_timestep on
given configurations of particle arrays and records what they return.

Runs under the build environment (PYTHONPATH = synchronised copy of /repo).
Input: ndjson of cases; output: ndjson of traces (see spec/TraceTimeStep.tla;
a trace is the case itself plus `res`, `sres`, `msg`).

A line with a key `asks` is a HISTORY (see below); otherwise it is a case.

A case (spec/TimeStep.tla): id, cfl [n, d], dt [n, d], fixed_h, late,
arrays = [{has: {adapt, cfl, force, visc}, real: [particle], ghost:
[particle]}], particle = {h, adapt, cfl, force, visc} with exact rationals
[n, d].  Optional properties are added to an array only when `has` says so.

Protocol (what the solver really does, no more and no less):
  set-up   arrays -> NNPS constructor (domain.update(), update()) ->
           integrator.set_acceleration_evals -> integrator.set_fixed_h
           (Solver.setup does it after the NNPS exists)
  one step as EulerIntegrator.one_timestep: compute_accelerations
           (nnps.update()), stage (moves particles / changes h: with `late`
           the case's values are written here, over the set-up values),
           update_domain (nnps.update_domain(): this is where the h carray's
           minimum is refreshed)
  ask      Solver._get_timestep -> _compute_timestep ->
           integrator.compute_time_step(undamped dt, cfl)
The driver never calls update_min_max itself.  No code is generated: the
acceleration evaluator is only used for its `particle_arrays`.

A history (id, cfl, dt, fixed_h, ndamp, init = arrays, asks = [{ops, arrays,
count}]) is run on ONE set of objects through the real Solver.solve():
  * Solver(n_damp=ndamp, dt, adaptive_timestep=True, cfl), output disabled,
    max_steps = number of asks - 1, tf far away;
  * the real Integrator object; only its `step` (which needs the compiled
    integrator) and `initial_acceleration` are replaced on the instance:
    `step` applies the ops of the next ask to the real ParticleArrays
    (add_particles / remove_particles / writing h - what stages, inlets and
    outlets do) and then follows the solver protocol nnps.update_domain(),
    nnps.update();
  * solve() itself calls _get_timestep -> _compute_timestep ->
    integrator.compute_time_step at count 0, 1, 2, ...; the three return
    values are recorded through wrappers set on the instances (res, kept,
    step).
After every step the driver reads the real arrays back and compares them
with the `arrays` of the ask (its own book-keeping must be right).
"""
import json
import math
import os
import sys
from fractions import Fraction

# the arrays are tiny; OpenMP thread teams only burn CPU (x100 slower)
os.environ.setdefault('OMP_NUM_THREADS', '1')

import numpy

from pysph.base.utils import get_particle_array
from pysph.base.nnps import LinkedListNNPS
from pysph.sph.integrator import EulerIntegrator
from pysph.sph.integrator_step import EulerStep
from pysph.solver.solver import Solver

PROPS = (('adapt', 'dt_adapt'), ('cfl', 'dt_cfl'), ('force', 'dt_force'),
         ('visc', 'dt_visc'))
LIM = 8191
# The particles lie on the x axis; the NNPS is nevertheless built with dim=3:
# on the pinned tree LinkedListNNPS with dim < 3 binned a single point (all
# extents < 1e-12 are padded by +-0.5 in ALL three directions, flatten()
# ignored `dim`) beyond the end of its head array as soon as 2*hmax < 1 - a
# heap overwrite of the neighbour search (C01 territory, repaired in /repo
# since) that must not disturb this check.
NNPS_DIM = 3


def seed_defect(name):
    """Self-test of the binding (C19.py --selftest, or C19_SEED_DEFECT=name):
    re-introduce a repaired defect in THIS process only, by replacing the
    method on the imported class.  /repo is not touched."""
    import numpy as np
    from pysph.sph.integrator import Integrator
    if name == 'hmin1':
        def compute_h_minimum(self):
            hmin = 1.0                         # the old start value
            for pa in self.acceleration_evals[0].particle_arrays:
                if pa.get_number_of_particles() == 0:
                    continue
                h = pa.get_carray('h')
                if h.minimum < hmin:
                    hmin = h.minimum
            self.h_minimum = hmin
        Integrator.compute_h_minimum = compute_h_minimum
    elif name == 'empty':
        def compute_h_minimum(self):
            hmin = np.inf
            for pa in self.acceleration_evals[0].particle_arrays:
                h = pa.get_carray('h')         # empty arrays not skipped
                if h.minimum < hmin:
                    hmin = h.minimum
            self.h_minimum = hmin
        Integrator.compute_h_minimum = compute_h_minimum
    elif name == 'adaptinf':
        orig = Integrator._get_explicit_dt_adapt

        def _get_explicit_dt_adapt(self):
            r = orig(self)
            if r is None and self._has_dt_adapt and not any(
                    pa.get_number_of_particles(real=True) > 0
                    for pa in self.acceleration_evals[0].particle_arrays
                    if 'dt_adapt' in pa.properties):
                return np.inf                  # the old `dt_min > 0.0` test
            return r
        Integrator._get_explicit_dt_adapt = _get_explicit_dt_adapt
    elif name == 'doubledamp':
        # the fall-back keeps self.dt (already damped) instead of the
        # undamped fixed step
        def _compute_timestep(self):
            undamped_dt = self._get_undamped_timestep()
            dt = self.integrator.compute_time_step(undamped_dt, self.cfl)
            if dt is None:
                dt = self.dt
            return dt
        Solver._compute_timestep = _compute_timestep
    elif name == 'cachenonempty':
        # the set of non-empty arrays is remembered from the first call
        def compute_h_minimum(self):
            arrays = self.acceleration_evals[0].particle_arrays
            if getattr(self, '_nonempty', None) is None:
                self._nonempty = [pa for pa in arrays
                                  if pa.get_number_of_particles() > 0]
            hmin = np.inf
            for pa in self._nonempty:
                h = pa.get_carray('h')
                if h.minimum < hmin:
                    hmin = h.minimum
            self.h_minimum = hmin
        Integrator.compute_h_minimum = compute_h_minimum
    elif name == 'breakempty':
        # an empty array ends the search for hmin
        def compute_h_minimum(self):
            hmin = np.inf
            for pa in self.acceleration_evals[0].particle_arrays:
                if pa.get_number_of_particles() == 0:
                    break
                h = pa.get_carray('h')
                if h.minimum < hmin:
                    hmin = h.minimum
            self.h_minimum = hmin
        Integrator.compute_h_minimum = compute_h_minimum
    elif name == 'prevdt':
        # after a step shortened for an output time the saved step is taken
        # as the next step without consulting the criteria
        orig_get = Solver._get_timestep

        def _get_timestep(self):
            if abs(self.tf - self.t) >= self._epsilon and \
                    self._prev_dt is not None:
                self.dt = self._prev_dt
                self._prev_dt = None
                return self.dt
            return orig_get(self)
        Solver._get_timestep = _get_timestep
    elif name == 'askearly':
        # the first proposal is made before initial_acceleration
        import inspect
        import textwrap
        import pysph.solver.solver as sm
        src = textwrap.dedent(inspect.getsource(Solver.solve))
        a = 'self.integrator.initial_acceleration(self.t, self.dt)'
        b = 'self.dt = self._get_timestep()'
        i, j = src.index(a), src.index(b)
        if not i < j:
            raise SystemExit('solve() does not look as expected')
        src = src[:i] + b + src[i + len(a):j] + a + src[j + len(b):]
        ns = {}
        exec(compile(src, '<seeded solve>', 'exec'), sm.__dict__, ns)
        Solver.solve = ns['solve']
    else:
        raise SystemExit('unknown defect %r' % name)


class ArraysOnly(object):
    """Stands for the AccelerationEval: compute_time_step reads nothing but
    `.particle_arrays` from it."""

    def __init__(self, arrays):
        self.particle_arrays = arrays


def fl(q):
    return float(Fraction(q[0], q[1]))


def encode(x):
    """Result -> {k, v}: v is the float converted exactly to a fraction and
    reduced to numerator, denominator <= LIM (values out of range are
    clipped: they cannot be equal to any expected value, which all have
    small numerators and denominators)."""
    if x is None:
        return dict(k='none', v=[0, 1])
    x = float(x)
    if math.isinf(x):
        return dict(k='inf', v=[0, 1])
    if math.isnan(x):
        return dict(k='nan', v=[0, 1])
    f = Fraction(x).limit_denominator(LIM)
    if abs(f.numerator) > LIM:
        f = Fraction(LIM if x > 0 else -LIM, 1)
    if f == 0 and x != 0:
        f = Fraction(1 if x > 0 else -1, LIM)
    return dict(k='num', v=[f.numerator, f.denominator])


def write_values(pa, arr, initial):
    """Store the case's values in the array (all particles: the real ones
    come first after align_particles)."""
    parts = arr['real'] + arr['ghost']
    if not parts:
        return
    names = [('h', 'h')] + [(k, n) for k, n in PROPS if arr['has'][k]]
    for key, name in names:
        a = pa.get(name, only_real_particles=False)
        if initial:
            a[:] = 1.0 if key == 'h' else 0.0
        else:
            a[:] = [fl(p[key]) for p in parts]


def build_arrays(case):
    pas = []
    x0 = 0.0
    late = bool(case.get('late'))
    for i, arr in enumerate(case['arrays']):
        nr, ng = len(arr['real']), len(arr['ghost'])
        n = nr + ng
        pa = get_particle_array(name='a%d' % i,
                                x=x0 + numpy.arange(n, dtype=float))
        x0 += n + 1
        for key, name in PROPS:
            if arr['has'][key]:
                pa.add_property(name)
        if ng:
            # ghosts of both kinds (Remote = 1, Ghost = 2), then the
            # documented re-ordering: real particles first
            tag = pa.get('tag', only_real_particles=False)
            for j in range(ng):
                tag[nr + j] = 1 + (j % 2)
            pa.align_particles()
        write_values(pa, arr, initial=late)
        pas.append(pa)
    return pas


def run_case(case):
    pas = build_arrays(case)
    cfl, dt = fl(case['cfl']), fl(case['dt'])
    nnps = LinkedListNNPS(dim=NNPS_DIM, particles=pas)
    integ = EulerIntegrator(**dict((pa.name, EulerStep()) for pa in pas))
    solver = Solver(dim=1, integrator=integ, kernel=None, dt=dt, tf=1e9,
                    adaptive_timestep=True, cfl=cfl,
                    fixed_h=bool(case['fixed_h']))
    integ.set_acceleration_evals(ArraysOnly(pas))
    integ.set_fixed_h(bool(case['fixed_h']))
    # one time step of the integrator
    nnps.update()
    if case.get('late'):
        for pa, arr in zip(pas, case['arrays']):
            write_values(pa, arr, initial=False)
    nnps.update_domain()
    # the solver asks for the next step
    msg = ''
    try:
        res = encode(integ.compute_time_step(
            solver._get_undamped_timestep(), solver.cfl))
    except Exception as ex:
        res = dict(k='error', v=[0, 1])
        msg = '%s: %s' % (type(ex).__name__, ex)
    try:
        sres = encode(solver._compute_timestep())
    except Exception as ex:
        sres = dict(k='error', v=[0, 1])
        msg = msg or '%s: %s' % (type(ex).__name__, ex)
    tr = dict(case)
    tr.update(res=res, sres=sres, msg=msg[:200])
    return tr


def check_arrays(pas, arrays, where):
    """The real arrays must hold exactly what the history says (as multisets
    per array: removal may reorder)."""
    for pa, arr in zip(pas, arrays):
        names = [('h', 'h')] + [(k, n) for k, n in PROPS if arr['has'][k]]
        want = sorted(tuple(fl(p[k]) for k, n in names) for p in arr['real'])
        n = pa.get_number_of_particles()
        if n != len(arr['real']) or pa.num_real_particles != n:
            raise RuntimeError('%s: array %s has %d particles, expected %d'
                               % (where, pa.name, n, len(arr['real'])))
        cols = [pa.get(nm) for k, nm in names]
        got = sorted(tuple(float(c[i]) for c in cols) for i in range(n))
        if got != want:
            raise RuntimeError('%s: array %s holds %r, expected %r' % (
                where, pa.name, got, want))


def apply_op(pas, arrays, o):
    pa = pas[o['a'] - 1]
    has = arrays[o['a'] - 1]['has']
    if o['op'] == 'add':
        n0 = pa.get_number_of_particles()
        props = dict(h=numpy.array([fl(p['h']) for p in o['parts']]),
                     x=50.0 * o['a'] + n0 +
                     numpy.arange(len(o['parts']), dtype=float))
        for k, name in PROPS:
            if has[k]:
                props[name] = numpy.array([fl(p[k]) for p in o['parts']])
        pa.add_particles(**props)
    elif o['op'] == 'removeall':
        n = pa.get_number_of_particles()
        pa.remove_particles(numpy.arange(n, dtype=int))
    elif o['op'] == 'removelast':
        n = pa.get_number_of_particles()
        pa.remove_particles(numpy.array([n - 1], dtype=int))
    elif o['op'] == 'seth':
        pa.h[o['i'] - 1] = fl(o['h'])
    else:
        raise RuntimeError('unknown op %r' % (o,))


def run_history(hist):
    init = dict(arrays=hist['init'], late=False)
    pas = build_arrays(init)
    cfl, dt = fl(hist['cfl']), fl(hist['dt'])
    nnps = LinkedListNNPS(dim=NNPS_DIM, particles=pas)
    integ = EulerIntegrator(**dict((pa.name, EulerStep()) for pa in pas))
    solver = Solver(dim=1, integrator=integ, kernel=None, dt=dt, tf=1e12,
                    n_damp=int(hist['ndamp']), adaptive_timestep=True,
                    cfl=cfl, fixed_h=bool(hist['fixed_h']))
    integ.set_acceleration_evals(ArraysOnly(pas))
    integ.set_fixed_h(bool(hist['fixed_h']))
    solver.particles = pas
    solver.set_disable_output(True)
    solver.set_print_freq(10 ** 9)
    solver.set_max_steps(len(hist['asks']) - 1)

    rec = []          # one entry per ask
    cur = {}
    state = dict(msg='')

    def wrap(obj, name, key):
        orig = getattr(obj, name)

        def f(*a, **kw):
            try:
                r = orig(*a, **kw)
            except Exception as ex:
                cur[key] = dict(k='error', v=[0, 1])
                state['msg'] = state['msg'] or '%s: %s' % (
                    type(ex).__name__, ex)
                raise
            cur[key] = encode(r)
            return r
        setattr(obj, name, f)

    wrap(integ, 'compute_time_step', 'res')
    wrap(solver, '_compute_timestep', 'kept')
    orig_get = solver._get_timestep

    def get_timestep():
        cur.clear()
        cur['count'] = int(solver.count)
        try:
            r = orig_get()
            cur['step'] = encode(r)
        finally:
            for key in ('res', 'kept', 'step'):
                cur.setdefault(key, dict(k='error', v=[0, 1]))
            rec.append(dict(cur))
        return r
    solver._get_timestep = get_timestep

    def step(t, dt):
        # the integrator's step: stages / inlets / outlets change the
        # arrays, then the domain and the NNPS are updated
        k = solver.count + 1                  # index of the coming ask
        for o in hist['asks'][k]['ops']:
            apply_op(pas, hist['asks'][k]['arrays'], o)
        nnps.update_domain()
        nnps.update()
        check_arrays(pas, hist['asks'][k]['arrays'], 'ask %d' % k)
    integ.step = step
    integ.initial_acceleration = lambda t, dt: None

    check_arrays(pas, hist['asks'][0]['arrays'], 'ask 0')
    try:
        solver.solve(show_progress=False)
    except RuntimeError:
        raise
    except Exception as ex:
        state['msg'] = state['msg'] or '%s: %s' % (type(ex).__name__, ex)
    tr = dict(hist)
    asks = []
    for j, q in enumerate(hist['asks']):
        q = dict(q)
        r = rec[j] if j < len(rec) else {}
        if r and r.get('count') != q['count']:
            raise RuntimeError('ask %d made at count %r' % (j, r.get('count')))
        for key in ('res', 'kept', 'step'):
            q[key] = r.get(key, dict(k='missing', v=[0, 1]))
        asks.append(q)
    tr['asks'] = asks
    tr['msg'] = state['msg'][:200]
    return tr


def run_solve(run):
    """A RUN (see spec/TimeStep.tla): the real Solver.solve() with
    adaptive_timestep=True, n_damp, output_at_times, pfreq, max_steps.  The
    real Integrator object; `initial_acceleration` and `step` (which need
    compiled code) are replaced on the instance by scripts that leave the
    run's states in the real arrays: states[0] (criteria only - the initial
    evaluation does not move particles or change h) after
    initial_acceleration, states[j] after the j-th step (h and criteria,
    followed by nnps.update_domain(), nnps.update() as a stage does).
    Recorded for every integrator.step(t, dt): t, dt, the solver's count and
    the (1-based) index of the state in force.  Nothing of the solver is
    wrapped or read except solver.count."""
    states = run['states']
    pre = json.loads(json.dumps(states[0]))
    for arr in pre:
        for p in arr['real']:
            for k, name in PROPS:
                p[k] = [0, 1]
    pas = build_arrays(dict(arrays=pre, late=False))
    nnps = LinkedListNNPS(dim=NNPS_DIM, particles=pas)
    integ = EulerIntegrator(**dict((pa.name, EulerStep()) for pa in pas))
    solver = Solver(dim=1, integrator=integ, kernel=None, dt=fl(run['dt']),
                    tf=fl(run['tf']), n_damp=int(run['ndamp']),
                    adaptive_timestep=True, cfl=fl(run['cfl']),
                    pfreq=int(run['pfreq']),
                    output_at_times=[fl(x) for x in run['outs']])
    integ.set_acceleration_evals(ArraysOnly(pas))
    integ.set_fixed_h(False)
    solver.particles = pas
    solver.set_disable_output(True)
    solver.set_max_steps(int(run['maxsteps']))
    steps = []
    cur = dict(state=0, msg='')

    def initial_acceleration(t, dt):
        for pa, arr in zip(pas, states[0]):
            write_values(pa, arr, initial=False)
        cur['state'] = 1

    def step(t, dt):
        steps.append(dict(t=encode(t)['v'], dt=encode(dt)['v'],
                          count=int(solver.count), state=cur['state']))
        if len(steps) > 50:
            raise RuntimeError('more than 50 steps')
        j = cur['state']
        if j < len(states):
            for pa, arr in zip(pas, states[j]):
                write_values(pa, arr, initial=False)
            cur['state'] = j + 1
        nnps.update_domain()
        nnps.update()
    integ.initial_acceleration = initial_acceleration
    integ.step = step
    try:
        solver.solve(show_progress=False)
    except RuntimeError:
        raise
    except Exception as ex:
        cur['msg'] = '%s: %s' % (type(ex).__name__, ex)
    tr = dict(run)
    tr['steps'] = steps
    tr['msg'] = cur['msg'][:200]
    return tr


def main():
    inp, outp = sys.argv[1], sys.argv[2]
    # the NNPS prints a warning whenever the bounding box grows (an inlet
    # starting to emit): results go to the output file, stdout is dropped
    sys.stdout.flush()
    os.dup2(os.open(os.devnull, os.O_WRONLY), 1)
    if os.environ.get('C19_SEED_DEFECT'):
        seed_defect(os.environ['C19_SEED_DEFECT'])
    with open(inp) as fi, open(outp, 'w') as fo:
        for line in fi:
            case = json.loads(line)
            if 'asks' in case:
                tr = run_history(case)
            elif 'states' in case:
                tr = run_solve(case)
            else:
                tr = run_case(case)
            fo.write(json.dumps(tr) + '\n')
            fo.flush()


if __name__ == '__main__':
    main()
