"""Runs the real Integrator.compute_time_step and Solver._compute_timestep on
given configurations of particle arrays and records what they return.

Runs under the build environment (PYTHONPATH = synchronised copy of /repo).
Input: ndjson of cases; output: ndjson of traces (see spec/TraceTimeStep.tla;
a trace is the case itself plus `res`, `sres`, `msg`).

A case (spec/TimeStep.tla): id, cfl [n, d], dt [n, d], fixed_h, late,
arrays = [{has: {adapt, cfl, force, visc}, real: [particle], ghost:
[particle]}], particle = {h, adapt, cfl, force, visc} with exact rationals
[n, d].  Optional properties are added to an array only when `has` says so.

Protocol (what the solver really does, no more and no less):
  set-up   arrays -> NNPS constructor (domain.update(), update()) ->
           integrator.set_acceleration_evals -> integrator.set_fixed_h
           (Solver.setup does it after the NNPS exists)
  one step as EulerIntegrator.one_timestep: compute_accelerations
           (nnps.update()), stage (moves particles / changes h: with `late`
           the case's values are written here, over the set-up values),
           update_domain (nnps.update_domain(): this is where the h carray's
           minimum is refreshed)
  ask      Solver._get_timestep -> _compute_timestep ->
           integrator.compute_time_step(undamped dt, cfl)
The driver never calls update_min_max itself.  No code is generated: the
acceleration evaluator is only used for its `particle_arrays`.
"""
import json
import math
import os
import sys
from fractions import Fraction

# the arrays are tiny; OpenMP thread teams only burn CPU (x100 slower)
os.environ.setdefault('OMP_NUM_THREADS', '1')

import numpy

from pysph.base.utils import get_particle_array
from pysph.base.nnps import LinkedListNNPS
from pysph.sph.integrator import EulerIntegrator
from pysph.sph.integrator_step import EulerStep
from pysph.solver.solver import Solver

PROPS = (('adapt', 'dt_adapt'), ('cfl', 'dt_cfl'), ('force', 'dt_force'),
         ('visc', 'dt_visc'))
LIM = 32767
# The particles lie on the x axis; the NNPS is nevertheless built with dim=3:
# on the pinned tree LinkedListNNPS with dim < 3 binned a single point (all
# extents < 1e-12 are padded by +-0.5 in ALL three directions, flatten()
# ignored `dim`) beyond the end of its head array as soon as 2*hmax < 1 - a
# heap overwrite of the neighbour search (C01 territory, repaired in /repo
# since) that must not disturb this check.
NNPS_DIM = 3


def seed_defect(name):
    """Self-test of the binding (C19.py --selftest, or C19_SEED_DEFECT=name):
    re-introduce a repaired defect in THIS process only, by replacing the
    method on the imported class.  /repo is not touched."""
    import numpy as np
    from pysph.sph.integrator import Integrator
    if name == 'hmin1':
        def compute_h_minimum(self):
            hmin = 1.0                         # the old start value
            for pa in self.acceleration_evals[0].particle_arrays:
                if pa.get_number_of_particles() == 0:
                    continue
                h = pa.get_carray('h')
                if h.minimum < hmin:
                    hmin = h.minimum
            self.h_minimum = hmin
        Integrator.compute_h_minimum = compute_h_minimum
    elif name == 'empty':
        def compute_h_minimum(self):
            hmin = np.inf
            for pa in self.acceleration_evals[0].particle_arrays:
                h = pa.get_carray('h')         # empty arrays not skipped
                if h.minimum < hmin:
                    hmin = h.minimum
            self.h_minimum = hmin
        Integrator.compute_h_minimum = compute_h_minimum
    elif name == 'adaptinf':
        orig = Integrator._get_explicit_dt_adapt

        def _get_explicit_dt_adapt(self):
            r = orig(self)
            if r is None and self._has_dt_adapt and not any(
                    pa.get_number_of_particles(real=True) > 0
                    for pa in self.acceleration_evals[0].particle_arrays
                    if 'dt_adapt' in pa.properties):
                return np.inf                  # the old `dt_min > 0.0` test
            return r
        Integrator._get_explicit_dt_adapt = _get_explicit_dt_adapt
    else:
        raise SystemExit('unknown defect %r' % name)


class ArraysOnly(object):
    """Stands for the AccelerationEval: compute_time_step reads nothing but
    `.particle_arrays` from it."""

    def __init__(self, arrays):
        self.particle_arrays = arrays


def fl(q):
    return float(Fraction(q[0], q[1]))


def encode(x):
    """Result -> {k, v}: v is the float converted exactly to a fraction and
    reduced to numerator, denominator <= LIM (values out of range are
    clipped: they cannot be equal to any expected value, which all have
    small numerators and denominators)."""
    if x is None:
        return dict(k='none', v=[0, 1])
    x = float(x)
    if math.isinf(x):
        return dict(k='inf', v=[0, 1])
    if math.isnan(x):
        return dict(k='nan', v=[0, 1])
    f = Fraction(x).limit_denominator(LIM)
    if abs(f.numerator) > LIM:
        f = Fraction(LIM if x > 0 else -LIM, 1)
    if f == 0 and x != 0:
        f = Fraction(1 if x > 0 else -1, LIM)
    return dict(k='num', v=[f.numerator, f.denominator])


def write_values(pa, arr, initial):
    """Store the case's values in the array (all particles: the real ones
    come first after align_particles)."""
    parts = arr['real'] + arr['ghost']
    if not parts:
        return
    names = [('h', 'h')] + [(k, n) for k, n in PROPS if arr['has'][k]]
    for key, name in names:
        a = pa.get(name, only_real_particles=False)
        if initial:
            a[:] = 1.0 if key == 'h' else 0.0
        else:
            a[:] = [fl(p[key]) for p in parts]


def build_arrays(case):
    pas = []
    x0 = 0.0
    late = bool(case.get('late'))
    for i, arr in enumerate(case['arrays']):
        nr, ng = len(arr['real']), len(arr['ghost'])
        n = nr + ng
        pa = get_particle_array(name='a%d' % i,
                                x=x0 + numpy.arange(n, dtype=float))
        x0 += n + 1
        for key, name in PROPS:
            if arr['has'][key]:
                pa.add_property(name)
        if ng:
            # ghosts of both kinds (Remote = 1, Ghost = 2), then the
            # documented re-ordering: real particles first
            tag = pa.get('tag', only_real_particles=False)
            for j in range(ng):
                tag[nr + j] = 1 + (j % 2)
            pa.align_particles()
        write_values(pa, arr, initial=late)
        pas.append(pa)
    return pas


def run_case(case):
    pas = build_arrays(case)
    cfl, dt = fl(case['cfl']), fl(case['dt'])
    nnps = LinkedListNNPS(dim=NNPS_DIM, particles=pas)
    integ = EulerIntegrator(**dict((pa.name, EulerStep()) for pa in pas))
    solver = Solver(dim=1, integrator=integ, kernel=None, dt=dt, tf=1e9,
                    adaptive_timestep=True, cfl=cfl,
                    fixed_h=bool(case['fixed_h']))
    integ.set_acceleration_evals(ArraysOnly(pas))
    integ.set_fixed_h(bool(case['fixed_h']))
    # one time step of the integrator
    nnps.update()
    if case.get('late'):
        for pa, arr in zip(pas, case['arrays']):
            write_values(pa, arr, initial=False)
    nnps.update_domain()
    # the solver asks for the next step
    msg = ''
    try:
        res = encode(integ.compute_time_step(
            solver._get_undamped_timestep(), solver.cfl))
    except Exception as ex:
        res = dict(k='error', v=[0, 1])
        msg = '%s: %s' % (type(ex).__name__, ex)
    try:
        sres = encode(solver._compute_timestep())
    except Exception as ex:
        sres = dict(k='error', v=[0, 1])
        msg = msg or '%s: %s' % (type(ex).__name__, ex)
    tr = dict(case)
    tr.update(res=res, sres=sres, msg=msg[:200])
    return tr


def main():
    inp, outp = sys.argv[1], sys.argv[2]
    if os.environ.get('C19_SEED_DEFECT'):
        seed_defect(os.environ['C19_SEED_DEFECT'])
    with open(inp) as fi, open(outp, 'w') as fo:
        for line in fi:
            case = json.loads(line)
            fo.write(json.dumps(run_case(case)) + '\n')
            fo.flush()


if __name__ == '__main__':
    main()
