"""C01 - every neighbour-search algorithm returns exactly the true
neighbour set.

Design:  NNPS.tla - cell binning with cell = radius_scale*hmax + 3^d stencil
         + gather-or-scatter test meets the Must/May contract for every
         placement of a small instance (1-3 D), with snapshot semantics.
Binding: the same small placements, random clouds and update histories are
         replayed into all 12 real NNPS classes x knobs x cache modes; every
         returned neighbour list is checked by TLC (TraceNNPS.tla) against
         Must <= nbrs <= May computed from the projected integer lattice.
"""
import json
import os
import random
import sys
from concurrent.futures import ThreadPoolExecutor

sys.path.insert(0, os.path.dirname(os.path.dirname(os.path.abspath(__file__))))
sys.path.insert(0, os.path.dirname(os.path.abspath(__file__)))
from mbv import tlc                                   # noqa: E402
from mbv.harness import Check, MachineryError, main   # noqa: E402
import nnps_common as nc                              # noqa: E402


def design(chk, names):
    def one(n):
        r = tlc.run('NNPS', 'NNPS.%s.cfg' % n, workers=8 if 'big' in n else 4,
                    timeout=3000 if chk.tier == 'quick' else 14000)
        if r.get('error') or r.get('timeout'):
            raise MachineryError('TLC design %s failed:\n%s' % (
                n, r['out'][-2000:]))
        return n, r
    with ThreadPoolExecutor(max_workers=4) as ex:
        return list(ex.map(one, names))


def run():
    chk = Check('C01', 'model_checking')
    rng = random.Random(chk.seed)
    quick = chk.tier == 'quick'
    cfgs = nc.all_configs()
    if chk.args.replay:
        obj = json.load(open(chk.args.replay))['case']
        scens = [obj['scenario']]
        cfgs = [c for c in cfgs if c['ci'] == obj['cfg']['ci']]
        designs = []
    else:
        chk.env   # build before starting threads
        dpool = ThreadPoolExecutor(max_workers=1)
        dfut = dpool.submit(design, chk, ['d1', 'd2', 'd3', 'hist'] if quick
                            else ['d1', 'd2', 'd3', 'hist', 'd1big', 'd2big'])
        designs = None
        small = list(nc.small_scenarios(1, 5, 2, 1)) + \
            list(nc.small_scenarios(2, 2, 2, 1)) + \
            list(nc.small_scenarios(3, 1, 2, 1))
        if quick:
            rng.shuffle(small)
            small = small[:260]
            scens = small + list(nc.random_scenarios(rng, 70))
            # quick: every class with default knobs + a seed-rotated third of
            # the knob/cache variants
            keep = []
            for c in cfgs:
                plain = not c['kw'] and not c.get('cache')
                if plain or c.get('always') or (c['ci'] + chk.seed) % 3 == 0:
                    keep.append(c)
            if not os.environ.get('C01_ALLCFG'):
                cfgs = keep
        else:
            scens = small + list(nc.random_scenarios(rng, 900, nmax=40))
    if not chk.args.replay:
        # every other scenario leaves the switch of the (source, destination)
        # pair to get_nearest_particles itself (no set_context by the caller)
        for k, s in enumerate(scens):
            s['implicit_ctx'] = bool(k % 2)
    by_id = {s['id']: s for s in scens}
    outs = nc.run_driver(chk, scens, cfgs)
    if designs is None:
        designs = dfut.result()
    files, n = nc.batches(chk, outs, by_id, cfgs)
    try:
        verdicts, st = tlc.validate_batches('TraceNNPS', 'TraceNNPS.cfg',
                                            files, parallel=12)
    except tlc.TLCError as ex:
        raise MachineryError(str(ex))
    if len(verdicts) != n:
        raise MachineryError('verdicts %d != records %d' % (len(verdicts), n))
    cfg_by = {c['ci']: c for c in cfgs}
    per_cls = {}
    nontrivial = set()
    for v in verdicts:
        c = cfg_by[v['cfg']]
        s = by_id[v['sid']]
        pc = per_cls.setdefault(c['cls'], dict(ok=0, known=0, bad=0))
        sizes = [len(a['h']) for a in s['steps'][0]['arrays']]
        if sum(sizes) >= 3:
            nontrivial.add(v['sid'])
        if not v['failed']:
            pc['ok'] += 1
            continue
        hits = [k for k in v['known'] if chk.known(k)]
        if hits:
            pc['known'] += 1
            for k in hits:
                chk.known_hit(k)
        else:
            pc['bad'] += 1
            chk.violation('%s %s cache=%s: %s on scenario %s (%d failing '
                          'queries, e.g. %s)' % (
                              c['cls'], c['kw'], c.get('cache', False),
                              sorted(v['failed']), v['sid'], v['nq'],
                              v['queries'][:1]),
                          dict(scenario=s, cfg=c, verdict=v))
    dstates = dtrans = 0
    for nme, r in designs:
        dstates += r['distinct']
        dtrans += r['generated']
        if not r['ok']:
            chk.violation('design model NNPS.%s: %s' % (nme, r['violation']),
                          dict(scenario=None, cfg=None, design=nme,
                               out=r['out'][-3000:]))
    ex = scens[min(len(scens) - 1, 3)]
    chk.cov.update(dict(
        states=dstates or st['distinct'], transitions=dtrans or st['generated'],
        design_models=[d[0] for d in designs],
        traces_validated_against_impl=len(verdicts),
        scenarios=len(scens), configurations=len(cfgs),
        per_class=per_cls,
        evaluations=len(verdicts),
        distinct_nontrivial=len(nontrivial),
        rule='a case is one scenario (history of particle placements on the '
             'integer lattice) replayed into one NNPS configuration with all '
             '(dst, src, i) queries checked; distinct_nontrivial counts '
             'distinct scenarios with >= 3 particles',
        exhaustive=False,
        samples=[dict(id=ex['id'], dim=ex['dim'], rs=ex['rs'],
                      first_step=ex['steps'][0])],
    ))
    chk.assumptions += [
        'lattice unit is a power of two, so squared distances and cut-offs '
        'are exact in double precision',
        'queries are issued as every in-repository caller does: '
        'update_domain(); update(); set_context(src, dst); '
        'get_nearest_particles(...) / cache.find_all_neighbors()',
    ]
    chk.finish()


if __name__ == '__main__':
    main(run)
