"""C14 - interpolation of particle data obeys its defining formulas.

Design:   TLC checks InterpMC.tla: (1) the clauses of the property layer of
          Interp.tla (ShepardBounds, ConstantReproduced,
          ZeroWhenNothingInRange, Order1Linear, soundness of WellCond) are
          theorems of the documented sums on every source set of small 1-D
          and 2-D universes; (2) the mechanism layer (which array objects
          the compiled evaluator, the point array and the neighbour search
          are bound to) follows the CURRENT state after every sequence of
          SetPoints / UpdateArrays / MoveUpdate / SetValues; side runs with a
          rebinding removed (Df) must produce a counterexample.
Binding:  histories (sequences of those actions with Interpolate steps) are
          driven through the real Interpolator and SPHEvaluator
          (checks/c14_driver.py; one compiled evaluator per session, many
          histories per session) with the probe kernel of checks/c14_probe.py
          on lattice data, where every documented value is an exact
          rational, and with shipped kernels (order-type clauses only).
          TraceInterp.tla evaluates the property layer on every recorded
          value and prints one VERDICT per history; Python only generates
          inputs, drives the code and dispatches on the verdicts.
Selftest: --selftest corrupts a recorded value and re-introduces defects in
          the driver process only; the verdicts must react.
"""
import copy
import hashlib
import json
import os
import random
import shutil
import sys
import threading
import time
from concurrent.futures import ThreadPoolExecutor

sys.path.insert(0, os.path.dirname(os.path.dirname(os.path.abspath(__file__))))
from mbv import tlc                                   # noqa: E402
from mbv.harness import Check, MachineryError, main   # noqa: E402

DRIVER = 'checks/c14_driver.py'
METHODS = ('shepard', 'sph', 'order1', 'splash', 'splash_norm')
KNOWN_IDS = ('C14-array-order', 'C14-abs-weight-threshold')
RS = {'probe': [2, 1], 'CubicSpline': [2, 1], 'Gaussian': [3, 1],
      'QuinticSpline': [3, 1], 'WendlandQuintic': [2, 1]}
NAMES = ('a', 'b', 'c')

SIZES = {
    'quick': dict(nh=14, nh3=6, hgrow=4, sym=3, dims=(1, 2), dims3=('shepard', 'order1'),
                  narrs=(1, 2), shipped=('CubicSpline', 'Gaussian'),
                  shipped_methods=('shepard', 'splash_norm'), nh_ship=12,
                  periodic=METHODS, nh_per=9,
                  design=('Interp.hist.cfg', 'Interp.f1.cfg',
                          'Interp.f2.cfg'), design_workers=4),
    'thorough': dict(nh=150, nh3=60, hgrow=20, sym=20, dims=(1, 2), dims3=METHODS,
                     narrs=(1, 2, 3),
                     shipped=('CubicSpline', 'Gaussian', 'QuinticSpline',
                              'WendlandQuintic'),
                     shipped_methods=('shepard', 'splash_norm', 'sph'),
                     nh_ship=80, periodic=METHODS, nh_per=80,
                     design=('Interp.hist.cfg', 'Interp.f1.cfg',
                             'Interp.f2big.cfg'), design_workers=6),
}
DEFECTS = ('skip-rebind', 'no-nnps-rebuild', 'no-update', 'stale-points')


# ---------------------------------------------------------------------------
# generation of histories (inputs only)
def span(dim, method=None):
    # order1: compact clouds, so that the moment matrix is often well
    # conditioned (WellCond of Interp.tla) at points inside the cloud
    if method == 'order1':
        return {1: 6, 2: 3, 3: 2}[dim]
    return {1: 9, 2: 4, 3: 3}[dim]


PER = None      # periods of the session being generated ([Lx, Ly, Lz])


def rand_coord(rng, dim, lo, hi):
    c = [0, 0, 0]
    for k in range(dim):
        if PER and PER[k]:
            # inside the periodic box, often next to its boundary
            if rng.random() < 0.4:
                c[k] = rng.choice((0, 1, PER[k] - 2, PER[k] - 1))
            else:
                c[k] = rng.randint(0, PER[k] - 1)
        else:
            c[k] = rng.randint(lo, hi)
    return c


RHO = 'random'    # how the history being generated fills the rho property


def rand_rho(rng, tiny=False):
    """sph / splash divide by the given rho (1..3).  order1 computes the
    density itself: rho is left unset (0), constant 5 or arbitrary."""
    if tiny:
        return 1
    return {'unset': 0, 'const': 5, 'any': rng.randint(0, 6),
            'random': rng.randint(1, 3)}[RHO]


def gen_array(rng, name, props, dim, n, tiny, method=None, hvals=(1, 1, 2)):
    p = []
    for i in range(n):
        c = rand_coord(rng, dim, 0, span(dim, method))
        p.append(dict(x=c[0], y=c[1], z=c[2], h=rng.choice(hvals),
                      m=rng.randint(1, 3), rho=rand_rho(rng, tiny), f=0,
                      g=0))
    return dict(name=name, props=list(props), p=p)


def spans_dim(src, dim):
    ps = [q for a in src for q in a['p']]
    for k, key in enumerate(('x', 'y', 'z')[:dim]):
        if len(set(q[key] for q in ps)) < 2:
            return False
    return True


def gen_src(rng, cfg, tiny, must_span, maxn, hvals=(1, 1, 2)):
    names, dim, method = cfg['names'], cfg['dim'], cfg['method']
    while True:
        lo = maxn - 1 if method == 'order1' else 1
        src = [gen_array(rng, nm, cfg['props'][nm], dim,
                         rng.randint(lo, maxn), tiny, method, hvals)
               for nm in names]
        if not must_span or spans_dim(src, dim):
            return src


NO_LIN = {'a': 0, 'b': [0, 0, 0], 'is': False}
ZERO_LIN = {'a': 0, 'b': [0, 0, 0], 'is': True}


def set_field(rng, src, dim, kind, prop):
    """Write the values of the user property `prop` on the arrays that have
    it; returns the linear form satisfied by the field interpolate(prop)
    sees (an array lacking the property counts with 0)."""
    have = [a for a in src if prop in a['props']]
    lacking = any(prop not in a['props'] and a['p'] for a in src)
    if not have:
        return dict(ZERO_LIN)
    if kind == 'data':
        for a in have:
            for q in a['p']:
                q[prop] = rng.randint(-8, 8)
        return dict(NO_LIN)
    a0 = rng.randint(-4, 4)
    b = [0, 0, 0]
    if kind == 'linear':
        for k in range(dim):
            # (no slope along a periodic axis: the images carry the values)
            b[k] = 0 if PER and PER[k] else rng.randint(-2, 2)
    for a in have:
        for q in a['p']:
            q[prop] = a0 + b[0] * q['x'] + b[1] * q['y'] + b[2] * q['z']
    if lacking and (a0 or any(b)):
        return dict(NO_LIN)
    return dict(a=a0, b=b) | {'is': True}


def field_kind(rng, method):
    if method == 'order1':
        return rng.choice(('linear',) * 7 + ('const', 'data'))
    return rng.choice(('data',) * 6 + ('const', 'const', 'linear'))


def gen_pts(rng, dim, api, method=None, n=None):
    n = n or rng.randint(1, 5)
    pts = []
    for i in range(n):
        if method == 'order1' and rng.random() < 0.75:
            c = rand_coord(rng, dim, 0, span(dim, method))
        else:
            c = rand_coord(rng, dim, -3, span(dim, method) + 3)
        pts.append(dict(x=c[0], y=c[1], z=c[2],
                        h=rng.choice((1, 2, 2, 3)) if api == 'eval' else 0))
    return pts


def gen_history(rng, cfg, hid, first, family='plain'):
    """family: plain | tiny (lattice unit 2^-21, C14-abs-weight-threshold) |
    order (update_particle_arrays with permuted arrays, C14-array-order) |
    hgrow (all h = 1 at first; h grows in place, then update()) |
    sym (order1: sources point-symmetric about a target, odd linear field:
    the field-weighted kernel sum vanishes there, the gradient does not)."""
    global RHO
    dim, method, api = cfg['dim'], cfg['method'], cfg['api']
    RHO = rng.choice(('unset', 'const', 'any')) if method == 'order1' \
        else 'random'
    names = cfg['names']
    tiny = family == 'tiny'
    maxn = {1: 4, 2: 4, 3: 5}[dim] if len(names) == 1 else 3
    if method == 'order1':
        maxn = {1: 6, 2: 3, 3: 2}[len(names)]
    if tiny:
        ue = -21
    elif cfg['kernel'] != 'probe':
        # (not larger: the smallest positive lattice weight of QuinticSpline
        # would come within reach of the absolute 1e-12 threshold,
        # C14-abs-weight-threshold, whose signature is decided for the probe
        # kernel only)
        ue = rng.choice((0, 0, -1, -2))
    elif method == 'order1':
        ue = rng.choice((0, 0, 1, -2))
    else:
        ue = rng.choice((0, 0, -3, 2, 5, -7))
    # the real origin (lattice -org) lies inside the cloud: a coordinate
    # omitted by set_interpolation_points (= 0) is a meaningful position
    org = [-rng.randint(0, span(dim, method)) if k < dim else 0
           for k in range(3)]
    if cfg.get('per_fixed'):
        ue, org = cfg['per_fixed']
    # the user properties are scaled by an exact power of two
    fe = 0 if tiny else rng.choice((0, 0, 0, -60, -50, 40))
    hv = (1,) if family == 'hgrow' else (1, 1, 2)
    st = dict(src=gen_src(rng, cfg, tiny, first, maxn, hv))
    user = ('f',) if api == 'eval' else ('f', 'g')

    def new_points(n=None, full=False):
        """New target points; WHICH of x, y, z are handed over varies
        independently of their number (the others are omitted = real 0)."""
        st['pts'] = gen_pts(rng, dim, api, method, n)
        if api == 'eval' or full or rng.random() < 0.45:
            st['pass'] = [True, True, True]
        else:
            st['pass'] = rng.choice(([True, False, False],
                                     [True, True, False],
                                     [True, False, True],
                                     [False, True, False],
                                     [False, True, True],
                                     [False, False, True],
                                     [True, False, False],
                                     [True, True, False]))
        for q in st['pts']:
            for k, key in enumerate('xyz'):
                if not st['pass'][k]:
                    q[key] = -org[k]
    new_points()

    def new_fields():
        st['lins'] = dict((p, set_field(rng, st['src'], dim,
                                        field_kind(rng, method), p))
                          for p in user)
    new_fields()
    steps = []

    def emit(act, prop='f'):
        steps.append(dict(act=act, src=copy.deepcopy(st['src']),
                          pts=copy.deepcopy(st['pts']),
                          **{'pass': list(st['pass'])}, prop=prop,
                          lin=copy.deepcopy(st['lins'].get(prop, ZERO_LIN))))

    def interpolate():
        # one to three calls in a row, for different properties: a property
        # some arrays lack, one no array has ("zz")
        if api == 'eval':
            return emit('Interpolate', 'f')
        for i in range(rng.choice((1, 1, 2, 3))):
            emit('Interpolate', rng.choice(('f', 'f', 'f', 'g', 'g', 'zz')))

    def moved():
        for p in user:
            if st['lins'][p]['is'] and any(st['lins'][p]['b']):
                st['lins'][p] = dict(NO_LIN)

    if family == 'hgrow':
        # targets two binning cells (of the h = 1 search) away from sources
        # that will grow: 3 lattice units along x, up to 1 across
        ps = [q for a in st['src'] for q in a['p']]
        new_points(1, full=True)
        for i in range(rng.randint(3, 5)):
            q = rng.choice(ps)
            c = [q['x'] + rng.choice((-3, 3)), q['y'], q['z']]
            for k in range(1, dim):
                c[k] += rng.choice((-1, 0, 1))
            st['pts'].append(dict(x=c[0], y=c[1], z=c[2], h=0))
    emit('Reset')
    interpolate()
    if family == 'hgrow':
        for hnew in (rng.choice((2, 3)), 3):
            ps = [q for a in st['src'] for q in a['p']]
            for q in rng.sample(ps, rng.randint((len(ps) + 1) // 2, len(ps))):
                q['h'] = max(q['h'], hnew)
            if rng.random() < 0.3:
                q = rng.choice(ps)
                q['x'], q['y'], q['z'] = rand_coord(rng, dim, 0,
                                                    span(dim, method))
                moved()
            emit('MoveUpdate')
            interpolate()
        return dict(id=hid, ue=ue, org=org, fe=fe, family=family,
                    steps=steps)
    if family == 'sym':
        # the first target is a centre of symmetry of the sources
        t = rand_coord(rng, dim, 1, span(dim, method) - 1)

        def sym_src():
            src = []
            for nm in names:
                p = []
                if nm == names[0] and rng.random() < 0.6:
                    p.append(dict(x=t[0], y=t[1], z=t[2],
                                  h=rng.choice((1, 2)), m=rng.randint(1, 3),
                                  rho=rand_rho(rng), f=0, g=0))
                for i in range(rng.randint(2, 3) if len(names) == 1
                               else rng.randint(1, 2)):
                    while True:
                        o = [rng.randint(-2, 2) if k < dim else 0
                             for k in range(3)]
                        if any(o):
                            break
                    h, m = rng.choice((1, 1, 2)), rng.randint(1, 3)
                    for sg in (1, -1):
                        p.append(dict(x=t[0] + sg * o[0], y=t[1] + sg * o[1],
                                      z=t[2] + sg * o[2], h=h, m=m,
                                      rho=rand_rho(rng), f=0, g=0))
                src.append(dict(name=nm, props=list(cfg['props'][nm]), p=p))
            return src

        def odd_field():
            b = [0, 0, 0]
            while not any(b):
                b = [rng.randint(-3, 3) if k < dim else 0 for k in range(3)]
            a0 = -sum(b[k] * t[k] for k in range(3))
            for a in st['src']:
                for q in a['p']:
                    q['f'] = a0 + b[0] * q['x'] + b[1] * q['y'] + b[2] * q['z']
            st['lins'] = dict(f=dict(a=a0, b=b) | {'is': True},
                              g=dict(NO_LIN))
        st['src'] = sym_src()
        new_points(rng.randint(1, 3), full=True)
        st['pts'][0].update(x=t[0], y=t[1], z=t[2])
        odd_field()
        emit('Reset')
        emit('Interpolate', 'f')
        odd_field()
        emit('SetValues')
        emit('Interpolate', 'f')
        st['src'] = sym_src()
        odd_field()
        emit('UpdateArrays')
        emit('Interpolate', rng.choice(('f', 'f', 'zz')))
        emit('Interpolate', 'f')
        return dict(id=hid, ue=ue, org=org, fe=fe, family=family,
                    steps=steps)
    for it in range(rng.randint(2, 5)):
        for rep in range(rng.choice((1, 1, 1, 2))):
            act = rng.choice(('SetPoints', 'SetPoints', 'UpdateArrays',
                              'UpdateArrays', 'MoveUpdate', 'SetValues'))
            if family == 'order' and it == 1 and rep == 0:
                act = 'UpdateArraysPermuted'
            if act == 'SetPoints':
                # half of the time as many points as before
                new_points(len(st['pts']) if rng.random() < 0.5 else None)
            elif act.startswith('UpdateArrays'):
                st['src'] = gen_src(rng, cfg, tiny, False, maxn)
                if act == 'UpdateArraysPermuted':
                    st['src'] = st['src'][1:] + st['src'][:1]
                elif family == 'order':
                    # back to the order of construction
                    st['src'].sort(key=lambda a: names.index(a['name']))
                new_fields()
                act = 'UpdateArrays'
            elif act == 'MoveUpdate':
                for a in st['src']:
                    for q in a['p']:
                        if rng.random() < 0.7:
                            c = rand_coord(rng, dim, 0, span(dim, method))
                            q['x'], q['y'], q['z'] = c
                        if rng.random() < 0.3:
                            q['h'] = rng.choice((1, 2))
                moved()
                emit(act)
                if method == 'order1' or rng.random() < 0.3:
                    # new fields on the new positions
                    new_fields()
                    act = 'SetValues'
                else:
                    continue
            else:
                for a in st['src']:
                    for q in a['p']:
                        if rng.random() < 0.5:
                            q['m'] = rng.randint(1, 3)
                        if rng.random() < 0.5 and not tiny:
                            q['rho'] = rand_rho(rng)
                new_fields()
            emit(act)
        if rng.random() < 0.9 or it == 0:
            interpolate()
    if steps[-1]['act'] != 'Interpolate':
        interpolate()
    return dict(id=hid, ue=ue, org=org, fe=fe, family=family, steps=steps)


def gen_sessions(tier, rng):
    sz = SIZES[tier]
    sessions = []

    def add(api, method, dim, kernel, narr, nh, tiny=0, order=0, per=None):
        global PER
        cfg = dict(api=api, method=method, dim=dim, kernel=kernel,
                   names=list(NAMES[:narr]), exact=(kernel == 'probe'),
                   rs=RS[kernel], per=per or [0, 0, 0])
        PER = per
        # user properties per array: "f" everywhere for the evaluator and
        # order1 (linear fields), otherwise on some arrays only; "g" never
        # on all arrays of a multi-array session
        if api == 'eval':
            pr = [['f']] * 3
        elif method == 'order1':
            pr = [['f', 'g'], ['f'], ['f', 'g']]
        else:
            pr = [rng.choice((['f', 'g'], ['f', 'g'], ['f'])) if narr == 1
                  else ['f', 'g'],
                  rng.choice((['f'], ['g'])),
                  rng.choice((['f', 'g'], ['g'], []))]
        cfg['props'] = dict(zip(NAMES, pr))
        if per:
            # (the real origin inside the periodic box)
            cfg['per_fixed'] = (rng.choice((0, -2, 1)),
                                [-rng.randint(0, (per[k] or span(dim, method))
                                              - 1) if k < dim else 0
                                 for k in range(3)])
        sid = 's%d' % len(sessions)
        hs = []
        hgrow = sz['hgrow'] if (kernel == 'probe' and api == 'interp'
                                and not per) else 0
        sym = sz['sym'] if (kernel == 'probe' and method == 'order1'
                            and not per) else 0
        for i in range(nh + tiny + order + hgrow + sym):
            fam = 'plain'
            if nh <= i < nh + tiny:
                fam = 'tiny'
            elif nh + tiny <= i < nh + tiny + order:
                fam = 'order'
            elif nh + tiny + order <= i < nh + tiny + order + hgrow:
                fam = 'hgrow'
            elif i >= nh + tiny + order + hgrow:
                fam = 'sym'
            hs.append(gen_history(rng, cfg, '%s-h%d' % (sid, i), i == 0, fam))
        sessions.append(dict(sid=sid, cfg=cfg, histories=hs))
        PER = None

    for method in METHODS:
        for dim in sz['dims']:
            for narr in sz['narrs']:
                tiny = 4 if (method in ('shepard', 'splash_norm')
                             and narr == 1) else 0
                order = 2 if (narr == 2 and dim == 1
                              and method in ('shepard', 'sph')) else 0
                add('interp', method, dim, 'probe', narr, sz['nh'], tiny,
                    order)
        if method in sz['dims3']:
            add('interp', method, 3, 'probe', 2, sz['nh3'])
    for method in ('shepard', 'sph'):
        for dim in sz['dims']:
            add('eval', method, dim, 'probe', 2, sz['nh'],
                order=1 if dim == 1 else 0)
    # periodic domains (DomainManager): 1-D, and 2-D periodic in x
    for method in sz['periodic']:
        add('interp', method, 1, 'probe', 1, sz['nh_per'], per=[10, 0, 0])
        add('interp', method, 2, 'probe', 2, sz['nh_per'], per=[6, 0, 0])
    for kernel in sz['shipped']:
        for method in sz['shipped_methods']:
            for dim in (2, 3) if kernel == 'WendlandQuintic' else sz['dims']:
                add('interp', method, dim, kernel, 1, sz['nh_ship'])
    return sessions


def claim_linear(src):
    """The linear form an emitted 1-D source set happens to satisfy, if any
    (TLC checks the claim: SaneState of Interp.tla)."""
    ps = [q for a in src for q in a['p']]
    xs = sorted(set(q['x'] for q in ps))
    no = dict(a=0, b=[0, 0, 0]) | {'is': False}
    if len(xs) == 1:
        if len(set(q['f'] for q in ps)) != 1:
            return no
        return dict(a=ps[0]['f'], b=[0, 0, 0]) | {'is': True}
    p0 = next(q for q in ps if q['x'] == xs[0])
    p1 = next(q for q in ps if q['x'] == xs[1])
    if (p1['f'] - p0['f']) % (xs[1] - xs[0]):
        return no
    b = (p1['f'] - p0['f']) // (xs[1] - xs[0])
    a = p0['f'] - b * xs[0]
    if any(q['f'] != a + b * q['x'] for q in ps):
        return no
    return dict(a=a, b=[b, 0, 0]) | {'is': True}


def universe_sessions(chk, rng, per_history=16):
    """Spec -> code: every source set of the small 1-D universe, printed by
    TLC (InterpMC with Interp.emit.cfg), through the real Interpolator with
    every method, at all lattice points within reach; the sets follow one
    another on a live object by update_particle_arrays (every fourth one by
    a Reset: new arrays and new points).  quick: half of the sets (by seed
    parity), each with one of the five methods; thorough: every set with
    every method."""
    r = tlc.run('InterpMC', 'Interp.emit.cfg', workers=4, timeout=1200)
    if not r['ok']:
        raise MachineryError('universe enumeration failed:\n' +
                             r['out'][-2500:])
    cases = tlc.parse_prints(r['out'], 'CASE')
    if len(cases) < 1000:
        raise MachineryError('universe enumeration: %d cases' % len(cases))
    ntotal = len(cases)
    if chk.tier == 'quick':
        # half of the universe per run (the other half with seed + 1)
        cases.sort(key=lambda s: json.dumps(s, sort_keys=True))
        cases = cases[chk.seed % 2::2]
    rng.shuffle(cases)
    pts = [dict(x=x, y=0, z=0, h=0) for x in range(-2, 6)]
    sessions = []
    parts = []
    for mi, method in enumerate(METHODS):
        if chk.tier == 'quick':
            parts.append((method, 0, cases[mi::len(METHODS)]))
        else:
            parts += [(method, k, cases[k::3]) for k in range(3)]
    for method, part, mine in parts:
        cfg = dict(api='interp', method=method, dim=1, kernel='probe',
                   names=['a', 'b'], exact=True, rs=RS['probe'],
                   per=[0, 0, 0])
        sid = 'u-%s-%d' % (method, part)
        hs = []
        for i in range(0, len(mine), per_history):
            steps = []
            for j, src in enumerate(mine[i:i + per_history]):
                lin = claim_linear(src)
                st = dict(src=src, pts=pts, prop='f', lin=lin,
                          **{'pass': [True, True, True]})
                steps.append(dict(st, act='Reset' if j % 4 == 0
                                  else 'UpdateArrays'))
                steps.append(dict(st, act='Interpolate'))
            hs.append(dict(id='%s-h%d' % (sid, len(hs)),
                           ue=rng.choice((0, -3, 2)),
                           fe=rng.choice((0, 0, -60)),
                           org=[rng.randint(-4, 4), 0, 0], family='universe',
                           steps=steps))
        sessions.append(dict(sid=sid, cfg=cfg, histories=hs))
    return sessions, dict(universe=ntotal, cases=len(cases),
                          states=r['distinct'],
                          transitions=r['generated'],
                          methods_per_case=1 if chk.tier == 'quick' else 5)


# ---------------------------------------------------------------------------
# the real code
def crash_value():
    return dict(k='crash', i=0, n=0, d=1, e=0, q=0, qok=False)


def read_lines(path):
    got = []
    if os.path.exists(path):
        with open(path) as fp:
            for line in fp:
                try:
                    got.append(json.loads(line))
                except ValueError:
                    break
    return got


def run_session(chk, ses, tag='', mutant=None, timeout=1500):
    """Drive one session; returns the list of traces (history + results).  A
    driver killed by a signal (or the memory limit / timeout) costs only the
    history it was working on: that one is completed with 'crash' values and
    the session continues in a new process with a new object."""
    sc = chk.scratch
    todo = list(ses['histories'])
    traces = []
    rnd = 0
    retries = 0
    while todo:
        base = os.path.join(sc, '%s%s-%d' % (tag, ses['sid'], rnd))
        fi, fo = base + '.json', base + '.ndjson'
        with open(fi, 'w') as fp:
            json.dump(dict(cfg=ses['cfg'], histories=todo), fp)
        args = [fi, fo] + (['--mutant', mutant] if mutant else [])
        what = None
        try:
            p = chk.run_py(DRIVER, args, check=False, timeout=timeout,
                           env_extra={'OMP_NUM_THREADS': '1'})
            rc = p.returncode
            err = (p.stderr or '')[-3000:]
            if rc > 0:
                err = (p.stdout or '')[-1500:] + err
        except Exception as ex:          # subprocess.TimeoutExpired
            rc, err, what = -9, str(ex), 'driver timed out'
        got = read_lines(fo)
        for g in got:
            g['crashed'] = ''
        traces += got
        if rc == 0 and len(got) == len(todo):
            break
        memerr = 'MemoryError' in err or 'std::bad_alloc' in err
        if rc > 0 and 'compyle/ext_module.py' in err and '.lock' in err \
                and retries < 5:
            # Several sessions generate the same evaluator source; compyle
            # serialises the compilation with a lock directory that waiting
            # processes take over after a timeout - under heavy load the
            # owner then fails when it releases it.  Nothing of pysph ran:
            # start again (the module is in the cache by now).
            retries += 1
            time.sleep(3)
            todo = todo[len(got):]
            rnd += 1
            continue
        if rc >= 0 and not memerr and what is None:
            raise MachineryError('driver failed rc=%d on session %s %s\n%s'
                                 % (rc, ses['sid'], json.dumps(ses['cfg']),
                                    err))
        if len(got) >= len(todo):
            break
        # the history being worked on: rebuild it from the journal
        h = todo[len(got)]
        jr = [j for j in read_lines(fo + '.journal') if j['h'] == h['id']]
        done = {j['k']: j['res'] for j in jr if 'res' in j}
        kbad = max([j['k'] for j in jr] or [0])
        steps = []
        for k, s in enumerate(h['steps'][:kbad + 1]):
            rec = dict(s)
            rec['res'] = done.get(k, [])
            steps.append(rec)
        last = dict(h['steps'][kbad])
        if last['act'] != 'Interpolate':
            last['act'] = 'Interpolate'
            steps.append(last)
        ncomp = 4 if ses['cfg']['method'] == 'order1' else 1
        steps[-1]['res'] = [[crash_value() for c in range(ncomp)]
                            for q in steps[-1]['pts']]
        traces.append(dict(id=h['id'], steps=steps,
                           crashed=what or ('driver died rc=%d at step %d '
                                            '(%s) %s' % (
                                                rc, kbad,
                                                h['steps'][kbad]['act'],
                                                err[-300:]))))
        todo = todo[len(got) + 1:]
        rnd += 1
    by = {h['id']: h for h in ses['histories']}
    for t in traces:
        h = by[t['id']]
        t['cfg'] = dict(ses['cfg'], ue=h['ue'], fe=h.get('fe', 0),
                        org=h['org'])
        t['names0'] = ses['cfg']['names']
        t['sid'] = ses['sid']
    return traces


def run_sessions(chk, sessions, tag='', mutant=None, nproc=14):
    # heavier sessions first
    order = sorted(sessions, key=lambda s: -len(s['histories']))
    with ThreadPoolExecutor(max_workers=nproc) as ex:
        res = list(ex.map(lambda s: run_session(chk, s, tag, mutant), order))
    return [t for r in res for t in r]


def validate(chk, traces, tag='', per_batch=60):
    sc = chk.scratch
    files = []
    # order1 histories are the expensive ones: spread them
    ts = sorted(traces, key=lambda t: t['id'])
    nb = max(1, (len(ts) + per_batch - 1) // per_batch)
    for b in range(nb):
        f = os.path.join(sc, '%sbatch-%d.ndjson' % (tag, b))
        with open(f, 'w') as fp:
            for t in ts[b::nb]:
                cfg = dict((k, t['cfg'][k]) for k in (
                    'api', 'method', 'dim', 'kernel', 'exact', 'rs', 'ue',
                    'fe', 'org', 'per'))
                x = dict(id=t['id'], cfg=cfg, names0=t['names0'],
                         steps=t['steps'])
                fp.write(json.dumps(x) + '\n')
        files.append(f)
    try:
        verdicts, st = tlc.validate_batches('TraceInterp', 'TraceInterp.cfg',
                                            files, parallel=14)
    except tlc.TLCError as ex:
        raise MachineryError(str(ex))
    if len(verdicts) != len(traces):
        raise MachineryError('verdict count %d != traces %d' % (
            len(verdicts), len(traces)))
    return verdicts, st


def replay_object(sessions, t):
    """The session up to and including the history of trace t (the real
    object carries state from one history to the next)."""
    ses = next(s for s in sessions if s['sid'] == t['sid'])
    hs = []
    for h in ses['histories']:
        hs.append(h)
        if h['id'] == t['id']:
            break
    return dict(sid=ses['sid'], cfg=ses['cfg'], histories=hs, failing=t['id'])


def judge(chk, sessions, traces, verdicts):
    by_t = {t['id']: t for t in traces}
    stats = {}
    for v in verdicts:
        t = by_t[v['id']]
        c = t['cfg']
        key = '%s/%s/%s/%dd/%d' % (c['api'], c['kernel'], c['method'],
                                   c['dim'], len(c['names']))
        s = stats.setdefault(key, dict(histories=0, failed=0, isteps=0,
                                       applied={}))
        s['histories'] += 1
        s['isteps'] += v['isteps']
        for a in v['applied']:
            s['applied'][a] = s['applied'].get(a, 0) + 1
        if 'bad_history' in v['failed'] or 'unrepresentable' in v['failed']:
            raise MachineryError('ill-formed history %s: %s' % (
                v['id'], sorted(v['failed'])))
        if not v['failed']:
            continue
        s['failed'] += 1
        known = sorted(v['known'])
        if v['explained'] and known and all(chk.known(k) for k in known):
            for k in known:
                chk.known_hit(k)
            continue
        bad = sorted(v['bad'], key=lambda b: b['k'])[0]
        what = '%s: clauses %s fail at step %d (%s)%s' % (
            key, sorted(v['failed']), bad['k'],
            t['steps'][bad['k'] - 1]['act'],
            ' ' + t['crashed'] if t.get('crashed') else '')
        if len(chk.violations) < 25:
            chk.violation(what, dict(case=replay_object(sessions, t),
                                     trace=t, verdict=v))
        else:
            chk.violations.append((what, chk.violations[-1][1]))
    return stats


# ---------------------------------------------------------------------------
def write_cfg(src, dst, defect):
    with open(os.path.join(tlc.SPEC_DIR, 'cfg', src)) as fp:
        text = fp.read()
    text = text.replace('Df = {}', 'Df = {"%s"}' % defect)
    keep = [l for l in text.splitlines()
            if not l.startswith('INVARIANT') or l.strip() in (
                'INVARIANT Follows',)]
    with open(dst, 'w') as fp:
        fp.write('\n'.join(keep) + '\n')


def design(chk, out):
    """Design runs; fills `out`."""
    sz = SIZES[chk.tier]
    out.update(states=0, transitions=0, runs=[], sensitivity={})
    sc = chk.scratch

    def one(cfg):
        r = tlc.run('InterpMC', cfg, workers=sz['design_workers'],
                    timeout=3000)
        return cfg, r

    def sens(d):
        c = os.path.join(sc, 'sens-%s.cfg' % d)
        write_cfg('Interp.hist.cfg', c, d)
        return d, tlc.run('InterpMC', c, workers=2, timeout=1200)
    with ThreadPoolExecutor(max_workers=4) as ex:
        fs = [ex.submit(sens, d) for d in DEFECTS]
        runs = list(ex.map(one, sz['design']))
        sens_res = [f.result() for f in fs]
    for cfg, r in runs:
        if not r['ok']:
            out['error'] = 'design run %s: %s\n%s' % (
                cfg, r.get('violation'), r['out'][-2500:])
            return
        out['states'] += r['distinct']
        out['transitions'] += r['generated']
        out['runs'].append(dict(cfg=cfg, states=r['distinct'],
                                transitions=r['generated'],
                                wall_s=round(r['wall'], 1)))
    for d, r in sens_res:
        if r['violation'] != 'Follows':
            out['error'] = ('design universe not sensitive to defect %s '
                            '(%s)\n%s' % (d, r.get('violation'),
                                          r['out'][-1500:]))
            return
        stt = tlc.counterexample(r['out'])
        out['sensitivity'][d] = 'Follows violated after %d steps' % (
            len(stt) - 1)


# ---------------------------------------------------------------------------
def inputs_key(t, upto):
    steps = [dict((k, s[k]) for k in ('act', 'src', 'pts', 'prop', 'lin'))
             for s in t['steps'][:upto]]
    return hashlib.sha1(json.dumps([t['cfg'], steps],
                                   sort_keys=True).encode()).hexdigest()


def selftest(chk):
    rng = random.Random(1)
    sessions = gen_sessions('quick', rng)

    def pick(api, method, dim, narr, per=False):
        return next(s for s in sessions if s['cfg']['api'] == api and
                    s['cfg']['method'] == method and s['cfg']['dim'] == dim
                    and len(s['cfg']['names']) == narr and
                    s['cfg']['kernel'] == 'probe' and
                    bool(any(s['cfg']['per'])) == per)

    def patched(name, edits):
        """An edited copy of the synchronised pysph/tools/interpolator.py in
        the scratch directory, for the driver's --mutant file:PATH."""
        with open(os.path.join(chk.env['VERIF_SRC'], 'pysph', 'tools',
                               'interpolator.py')) as fp:
            src = fp.read()
        for old, new in edits:
            if src.count(old) != 1:
                raise MachineryError('selftest %s: pattern not found' % name)
            src = src.replace(old, new)
        path = os.path.join(chk.scratch, 'patched_%s.py' % name)
        with open(path, 'w') as fp:
            fp.write(src)
        return 'file:' + path
    reuse = patched('reuse_points', [(
        "        self.pa = self._create_particle_array(x, y, z)\n"
        "        arrays = self.particle_arrays + [self.pa]\n",
        "        old = self.pa\n"
        "        self.pa = self._create_particle_array(x, y, z)\n"
        "        if old is not None and old.get_number_of_particles(True) "
        "== x.size:\n"
        "            # an omitted coordinate keeps its previous value\n"
        "            for _n, _a in (('x', _gx), ('y', _gy), ('z', _gz)):\n"
        "                if _a is None:\n"
        "                    self.pa.get(_n)[:] = old.get(_n)\n"
        "        arrays = self.particle_arrays + [self.pa]\n"), (
        "        x, y, z = _get_array(x), _get_array(y), _get_array(z)\n",
        "        _gx, _gy, _gz = x, y, z\n"
        "        x, y, z = _get_array(x), _get_array(y), _get_array(z)\n")])
    ghost_rho = patched('density_real_only', [(
        "                        for name in names],\n"
        "                          real=False),",
        "                        for name in names],\n"
        "                          real=True),")])
    skip_solve = patched('order1_skip_solve', [(
        "        augmented_matrix(a_mat, b, n, 1, 4, aug_mat)\n"
        "        gj_solve(aug_mat, n, 1, res)\n",
        "        if abs(b[0]) > 1e-12:\n"
        "            augmented_matrix(a_mat, b, n, 1, 4, aug_mat)\n"
        "            gj_solve(aug_mat, n, 1, res)\n")])
    bad = 0
    # (1) corrupt one recorded value of a passing history
    ses = pick('interp', 'shepard', 1, 2)
    ses = dict(ses, histories=[h for h in ses['histories']
                               if h['family'] == 'plain'][:6])
    traces = run_sessions(chk, [ses], tag='st0-')
    v0, _ = validate(chk, traces, tag='st0-')
    clean = [v for v in v0 if not v['failed']]
    t = copy.deepcopy(next(t for t in traces if t['id'] == clean[0]['id']))
    k = next(k for k, s in enumerate(t['steps']) if s['act'] == 'Interpolate'
             and k > 2)
    val = t['steps'][k]['res'][0][0]
    val['i'] += 1
    v1, _ = validate(chk, [t], tag='st1-')
    ok = bool(v1[0]['failed']) and not v1[0]['explained']
    print('SELFTEST corrupt-value: history %s step %d point 0: i %d -> %d; '
          'verdict failed=%s -> %s' % (
              t['id'], k + 1, val['i'] - 1, val['i'],
              sorted(v1[0]['failed']), 'caught' if ok else 'NOT CAUGHT'))
    bad += not ok
    # stale state in a record: results of the previous Interpolate step
    t = copy.deepcopy(next(t for t in traces if t['id'] == clean[0]['id']))
    ks = [k for k, s in enumerate(t['steps']) if s['act'] == 'Interpolate']
    swapped = False
    for a, b in zip(ks, ks[1:]):
        if len(t['steps'][a]['res']) == len(t['steps'][b]['res']) and \
                t['steps'][a]['res'] != t['steps'][b]['res']:
            t['steps'][b]['res'] = t['steps'][a]['res']
            swapped = True
            break
    if swapped:
        v1, _ = validate(chk, [t], tag='st2-')
        ok = bool(v1[0]['failed'])
        print('SELFTEST stale-result: results of step %d copied to step %d: '
              'failed=%s -> %s' % (a + 1, b + 1, sorted(v1[0]['failed']),
                                   'caught' if ok else 'NOT CAUGHT'))
        bad += not ok
    # (2) defects re-introduced in the driver process
    for mutant, sel in (('shepard-norm', ('interp', 'shepard', 1, 1)),
                        ('sph-no-mass', ('interp', 'sph', 2, 1)),
                        ('skip-rebind', ('interp', 'shepard', 2, 1)),
                        ('no-nnps-update', ('interp', 'sph', 1, 2)),
                        ('stale-points', ('interp', 'splash', 1, 1)),
                        ('stale-staging', ('interp', 'shepard', 1, 2)),
                        ('no-update-domain', ('interp', 'sph', 1, 1)),
                        (reuse, ('interp', 'splash', 2, 1)),
                        (ghost_rho, ('interp', 'order1', 1, 1, True)),
                        (skip_solve, ('interp', 'order1', 2, 1))):
        ses = pick(*sel)
        ses = dict(ses, histories=[h for h in ses['histories']
                                   if h['family'] in ('plain', 'hgrow',
                                                      'sym')][-12:])
        if mutant.startswith('file:'):
            tagm = os.path.basename(mutant)[8:-3]
        else:
            tagm = mutant
        traces = run_sessions(chk, [ses], tag=tagm + '-', mutant=mutant)
        vs, _ = validate(chk, traces, tag=tagm + '-')
        caught = [v for v in vs if v['failed'] and not v['explained']]
        ok = bool(caught)
        print('SELFTEST mutant=%s: %d histories, %d reported as violations '
              '(e.g. %s) -> %s' % (
                  tagm, len(vs), len(caught),
                  sorted(caught[0]['failed']) if caught else '-',
                  'caught' if ok else 'NOT CAUGHT'))
        bad += not ok
    if bad:
        raise MachineryError('selftest: %d seeded faults were not caught'
                             % bad)
    sys.exit(0)


def run():
    chk = Check('C14', 'model_checking')
    try:
        check(chk)
    finally:
        if not os.environ.get('VERIF_KEEP_SCRATCH'):
            shutil.rmtree(chk.scratch, ignore_errors=True)


def check(chk):
    rng = random.Random(chk.seed)
    chk.env          # build before starting threads
    if chk.args.selftest:
        return selftest(chk)
    phase = {}
    dsg = {}
    uinfo = {}
    th = None
    if chk.args.replay:
        obj = json.load(open(chk.args.replay))['case']['case']
        sessions = [dict(sid=obj['sid'], cfg=obj['cfg'],
                         histories=obj['histories'])]
    else:
        th = threading.Thread(target=design, args=(chk, dsg))
        th.start()
        sessions = gen_sessions(chk.tier, rng)
        usess, uinfo = universe_sessions(chk, rng)
        sessions += usess
    t0 = time.time()
    # C14_SEED_DEFECT=<mutant of c14_driver.py>: demonstration of the
    # VIOLATION / replay path (driver process only; no evidence is kept)
    traces = run_sessions(chk, sessions,
                          mutant=os.environ.get('C14_SEED_DEFECT') or None)
    phase['real_code_s'] = round(time.time() - t0, 1)
    t0 = time.time()
    verdicts, st = validate(chk, traces)
    phase['trace_validation_s'] = round(time.time() - t0, 1)
    if th is not None:
        t0 = time.time()
        th.join()
        phase['design_wait_s'] = round(time.time() - t0, 1)
        if dsg.get('error'):
            raise MachineryError(dsg['error'])
    if chk.args.replay:
        obj = json.load(open(chk.args.replay))['case']['case']
        verdicts = [v for v in verdicts if v['id'] == obj['failing']
                    or v['failed']]
    stats = judge(chk, sessions, traces, verdicts)
    by_v = {v['id']: v for v in verdicts}
    nontriv = set()
    nvals = 0
    for t in traces:
        for s in t['steps']:
            nvals += sum(len(r) for r in s['res'])
        v = by_v.get(t['id'])
        for ps in (v['per_step'] if v else ()):
            if set(ps['applied']) & {'formula', 'bounds', 'linear'}:
                nontriv.add(inputs_key(t, ps['k']))

    def sample(pred):
        for t in traces:
            v = by_v.get(t['id'])
            if v and pred(t, v):
                return dict(trace=dict(id=t['id'], cfg=t['cfg'],
                                       steps=t['steps'][:4]), verdict=v)
        return None
    samples = [s for s in (
        sample(lambda t, v: not v['failed'] and 'formula' in v['applied']
               and len(t['cfg']['names']) == 2),
        sample(lambda t, v: not v['failed'] and 'linear' in v['applied']),
        sample(lambda t, v: bool(v['failed'])),
    ) if s]
    chk.cov.update(dict(
        states=dsg.get('states', 0) or st['distinct'],
        transitions=dsg.get('transitions', 0) or st['generated'],
        design_model='InterpMC.tla: %s' % json.dumps(dsg.get('runs', [])),
        design_result='Follows, Bound and the theorems ThmBounds, '
                      'ThmConstant, ThmZero, ThmWellCond, ThmOrder1 hold; '
                      'with a rebinding removed (Df) TLC finds a history '
                      'violating Follows',
        defect_sensitivity=dsg.get('sensitivity', {}),
        traces_validated_against_impl=len(verdicts),
        sessions=len(sessions),
        universe_through_real_code=uinfo,
        evaluations=sum(v['isteps'] for v in verdicts),
        values_judged=nvals,
        failing_histories=sum(1 for v in verdicts if v['failed']),
        crashed_histories=sum(1 for t in traces if t.get('crashed')),
        distinct_nontrivial=len(nontriv),
        rule='a case is one Interpolate step of a history driven through '
             'the real object: the configuration (api, method, dimension, '
             'kernel, source array names, lattice unit) and the sequence of '
             'Reset / SetPoints / UpdateArrays / MoveUpdate / SetValues / '
             'Interpolate steps up to it with the complete abstract state '
             'after each; evaluations = Interpolate steps executed; '
             'distinct by all those inputs; non-trivial when at some point '
             'of the step one of the clauses formula (exact value, some '
             'source contributing), bounds (a source strictly inside the '
             'support) or linear (order1, '
             'moment matrix well conditioned) applies, as reported by TLC '
             '(per_step.applied)',
        exhaustive=False,
        classes=stats,
        phase_s=phase,
        observations=dict(
            target_h='Interpolator gives every point h = largest source h '
                     'as of the last set_interpolation_points; '
                     'update_particle_arrays does not refresh it (accepted: '
                     'the property layer allows both readings)',
            order1_rho='the order1 method overwrites the rho property of '
                       'the source arrays with a summation density on every '
                       'interpolate() (side effect outside the statement)'),
        samples=samples,
    ))
    chk.assumptions += [
        'probe kernel W = max(0, (2h)^2 - r^2), grad W = -2 xij, written in '
        'pysph\'s kernel interface and transpiled by its code generator; '
        'lattice coordinates and h scaled by an exact power of two',
        'returned doubles are converted exactly to the closest fraction with '
        'denominator <= 2^15 (plus the residual at 2^-40); exact clauses '
        'require equality of fractions and a residual <= 2^-30',
        'order1 is judged by linear reproduction only, where all '
        'Cauchy-Binet terms of the moment determinant have one sign (a '
        'sufficient condition for a well conditioned system that does not '
        'depend on the volumes m/rho)',
        'shipped kernels: only bounds / constant / zero, with the '
        'contributing set known up to the pairs between Must and May',
        'one compiled evaluator per session; a history\'s Reset on a live '
        'object is update_particle_arrays + set_interpolation_points',
    ]
    if os.environ.get('C14_SEED_DEFECT'):
        chk.args.replay = chk.args.replay or 'seeded-defect'   # no evidence
    chk.finish()


if __name__ == '__main__':
    main(run)
