"""A small Application used by the C05 check: run as
    python c05_app.py PROBLEM OUT.json [application options...]
PROBLEM in {free, wall, periodic, two}[-real] or approach: 'exact' problems use a probe
kernel and integer/dyadic data so that every floating point operation is
exact (all configurations must agree bit for bit); '-real' problems use the
CubicSpline kernel and a WCSPH-like set of equations.
'approach' has two arrays with per-particle smoothing lengths that start out
of each other's reach and meet during the run, a predictor-corrector
integrator whose first predictor uses the initial acceleration evaluation, and
prescribed velocities (exact for any number of steps).
The final (and per-step) state of every particle, matched by identity, is
written as hexadecimal floats.
"""
import json
import sys

import numpy as np

from pysph.base.kernels import CubicSpline
from pysph.base.utils import get_particle_array
from pysph.base.nnps import DomainManager
from pysph.sph.equation import Equation, Group
from pysph.sph.integrator import EulerIntegrator, PECIntegrator
from pysph.sph.integrator_step import IntegratorStep
from pysph.solver.application import Application
from pysph.solver.solver import Solver


class BoxKernel(object):
    """Probe kernel: W = 1 inside the support, exact on any data."""

    def __init__(self, dim=1):
        self.dim = dim
        self.radius_scale = 2.0
        self.fac = 1.0

    def get_deltap(self):
        return 0.5

    def kernel(self, xij=[0., 0, 0], rij=1.0, h=1.0):
        return 1.0

    def dwdq(self, rij=1.0, h=1.0):
        return 0.0

    def gradient(self, xij=[0., 0, 0], rij=1.0, h=1.0, grad=[0, 0, 0]):
        grad[0] = xij[0]
        grad[1] = xij[1]
        grad[2] = xij[2]

    def gradient_h(self, xij=[0., 0, 0], rij=1.0, h=1.0):
        return 0.0


class ExactDensity(Equation):
    def initialize(self, d_idx, d_rho, d_au, d_av):
        d_rho[d_idx] = 0.0
        d_au[d_idx] = 0.0
        d_av[d_idx] = 0.0

    def loop(self, d_idx, s_idx, d_rho, s_m, WIJ):
        d_rho[d_idx] += s_m[s_idx]*WIJ


class ExactForce(Equation):
    def loop(self, d_idx, s_idx, d_au, d_av, s_m, s_rho, DWIJ):
        d_au[d_idx] += s_m[s_idx]*s_rho[s_idx]*DWIJ[0]*0.0625
        d_av[d_idx] += s_m[s_idx]*DWIJ[1]*0.0625


class RealDensity(Equation):
    def initialize(self, d_idx, d_rho, d_au, d_av):
        d_rho[d_idx] = 0.0
        d_au[d_idx] = 0.0
        d_av[d_idx] = 0.0

    def loop(self, d_idx, s_idx, d_rho, s_m, WIJ):
        d_rho[d_idx] += s_m[s_idx]*WIJ


class RealForce(Equation):
    def loop(self, d_idx, s_idx, d_au, d_av, d_rho, s_rho, s_m, DWIJ, VIJ,
             XIJ, R2IJ, EPS):
        p = 0.1/(d_rho[d_idx]*d_rho[d_idx]) + 0.1/(s_rho[s_idx]*s_rho[s_idx])
        pi = 0.05*(VIJ[0]*XIJ[0] + VIJ[1]*XIJ[1])/(R2IJ + EPS)
        d_au[d_idx] += -s_m[s_idx]*(p - pi)*DWIJ[0]
        d_av[d_idx] += -s_m[s_idx]*(p - pi)*DWIJ[1]


class Step(IntegratorStep):
    def stage1(self, d_idx, d_x, d_y, d_u, d_v, d_au, d_av, dt):
        d_u[d_idx] += dt*d_au[d_idx]
        d_v[d_idx] += dt*d_av[d_idx]
        d_x[d_idx] += dt*d_u[d_idx]
        d_y[d_idx] += dt*d_v[d_idx]


class CountForce(Equation):
    def loop(self, d_idx, s_idx, d_au, s_m, DWIJ):
        d_au[d_idx] += s_m[s_idx]*DWIJ[0]


class Drift(IntegratorStep):
    """Prescribed motion; s1 accumulates what the evaluation *before* the
    predictor left behind (at the first step: the initial acceleration
    evaluation), s2 what the evaluation of this step gives."""

    def initialize(self, d_idx, d_x, d_x0):
        d_x0[d_idx] = d_x[d_idx]

    def stage1(self, d_idx, d_x, d_x0, d_u, d_rho, d_au, d_s1, dt):
        d_s1[d_idx] += d_rho[d_idx] + d_au[d_idx]
        d_x[d_idx] = d_x0[d_idx] + 0.5*dt*d_u[d_idx]

    def stage2(self, d_idx, d_x, d_x0, d_u, d_rho, d_au, d_s2, dt):
        d_s2[d_idx] += d_rho[d_idx] + d_au[d_idx]
        d_x[d_idx] = d_x0[d_idx] + dt*d_u[d_idx]


class Still(IntegratorStep):
    def stage1(self):
        pass


class App(Application):
    problem = 'free'
    out = None

    def initialize(self):
        self.steps = []

    def create_domain(self):
        if self.problem.startswith('periodic'):
            return DomainManager(xmin=0.0, xmax=8.0, ymin=0.0, ymax=8.0,
                                 periodic_in_x=True, periodic_in_y=True)
        return None

    def create_approach(self):
        arrays = []
        gid0 = 0
        for name, nx, x0, u in (('fluid', 6, 1.0, 2.0), ('body', 4, 7.5, 0.0)):
            xs, ys = np.mgrid[0:nx, 0:8]
            k = np.arange(xs.size)
            x = x0 + 0.75*xs.ravel() + ((k * 7) % 5 - 2) * 0.0625
            y = 1.0 + 0.75*ys.ravel() + ((k * 3) % 7 - 3) * 0.0625
            h = 0.5 + 0.25*((k * 5 + k // 3) % 3)
            pa = get_particle_array(name=name, x=x, y=y, m=1.0 + (k % 3),
                                    h=h, u=np.ones(k.size) * u,
                                    rho=np.zeros(k.size))
            for p in ('au', 'av', 'x0', 's1', 's2'):
                pa.add_property(p)
            pa.add_property('ident', type='long', data=gid0 + k)
            pa.gid[:] = gid0 + k
            gid0 += 1000
            arrays.append(pa)
        return arrays

    def create_particles(self):
        real = self.problem.endswith('-real')
        base = self.problem.split('-')[0]
        if base == 'approach':
            return self.create_approach()
        # 'free': 144 particles (several chunks of the OpenMP schedule)
        n = 12 if base == 'free' else 8
        xs, ys = np.mgrid[0:n, 0:n]
        x = xs.ravel().astype(float) + 0.5
        y = ys.ravel().astype(float) + 0.5
        # a deterministic, non-uniform perturbation on a dyadic grid
        k = np.arange(x.size)
        x = x + ((k * 7) % 5 - 2) * 0.0625
        y = y + ((k * 3) % 7 - 3) * 0.0625
        if base != 'periodic':
            x = x * 0.75 + 1.0
            y = y * 0.75 + 1.0
        m = 1.0 + (k % 3) * (0.5 if real else 1.0)
        arrays = []
        if base == 'two':
            sel = (k % 2 == 0)
            parts = [('fluid', sel), ('fluid2', ~sel)]
        else:
            parts = [('fluid', np.ones(x.size, dtype=bool))]
        gid0 = 0
        for name, sel in parts:
            pa = get_particle_array(name=name, x=x[sel], y=y[sel], m=m[sel],
                                    h=np.ones(sel.sum()) * 0.75,
                                    rho=np.ones(sel.sum()))
            for p in ('au', 'av'):
                pa.add_property(p)
            pa.add_property('ident', type='long',
                            data=gid0 + np.arange(sel.sum()))
            pa.gid[:] = gid0 + np.arange(sel.sum())
            gid0 += 1000
            pa.set_output_arrays(['x', 'y', 'u', 'v', 'rho', 'ident', 'gid',
                                  'tag', 'pid', 'm', 'h', 'au', 'av'])
            arrays.append(pa)
        if base == 'wall':
            wx = np.arange(0, 9, 0.75) + 0.25
            wall = get_particle_array(name='wall', x=wx, y=np.ones_like(wx) * 0.5,
                                      m=np.ones_like(wx) * 2.0,
                                      h=np.ones_like(wx) * 0.75,
                                      rho=np.ones_like(wx))
            for p in ('au', 'av'):
                wall.add_property(p)
            wall.add_property('ident', type='long',
                              data=5000 + np.arange(wx.size))
            wall.gid[:] = 5000 + np.arange(wx.size)
            arrays.append(wall)
        return arrays

    def array_names(self):
        base = self.problem.split('-')[0]
        if base == 'approach':
            return ['fluid', 'body']
        names = ['fluid', 'fluid2'] if base == 'two' else ['fluid']
        if base == 'wall':
            names.append('wall')
        return names

    def create_equations(self):
        real = self.problem.endswith('-real')
        names = self.array_names()
        fluids = [n for n in names if n != 'wall']
        D, F = (RealDensity, RealForce) if real else (ExactDensity, ExactForce)
        if self.problem == 'approach':
            F = CountForce
            fluids = names
        return [
            Group(equations=[D(dest=f, sources=names) for f in fluids] +
                  ([D(dest='wall', sources=names)] if 'wall' in names else [])),
            Group(equations=[F(dest=f, sources=names) for f in fluids]),
        ]

    def create_solver(self):
        real = self.problem.endswith('-real')
        kernel = CubicSpline(dim=2) if real else BoxKernel(dim=2)
        steppers = {n: (Still() if n == 'wall' else Step())
                    for n in self.array_names()}
        tf = 0.625 if real else 0.5
        if self.problem == 'approach':
            steppers = {n: Drift() for n in self.array_names()}
            integrator = PECIntegrator(**steppers)
            tf = 1.25
        else:
            integrator = EulerIntegrator(**steppers)
        solver = Solver(kernel=kernel, dim=2, integrator=integrator,
                        dt=0.125, tf=tf, pfreq=1000)
        solver.set_disable_output(True)
        return solver

    def post_step(self, solver):
        self.steps.append(self.snapshot())

    def snapshot(self):
        rows = []
        for pa in self.particles:
            n = pa.num_real_particles
            ident = pa.get('ident', only_real_particles=False)[:n]
            names = ('x', 'y', 'u', 'v', 'rho')
            if 's1' in pa.properties:
                names += ('s1', 's2')
            cols = {p: pa.get(p, only_real_particles=False)[:n]
                    for p in names}
            for r in range(n):
                rows.append([int(ident[r])] +
                            [float(cols[p][r]).hex() for p in names])
        rows.sort()
        return rows


def main():
    problem, out = sys.argv[1], sys.argv[2]
    app = App(fname='c05', output_dir=out + '.d')
    app.problem = problem
    app.run(argv=sys.argv[3:])
    final = app.snapshot()
    with open(out, 'w') as fp:
        json.dump(dict(steps=app.steps, final=final,
                       nnps=type(app.nnps).__name__), fp)


if __name__ == '__main__':
    main()
