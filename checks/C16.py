"""C16 - inlets and outlets move each particle across exactly once.

Design:  InletOutlet.tla - the update() mechanisms as written (evaluate the
         zone id, extract by index, append to the fluid / outlet, recycle in
         place, remove by swap-with-last, stage filter) satisfy the property
         layer (exactly one equal copy, original one zone length upstream,
         one move to the outlet, deletion past the far end, nothing else
         changes array, count equation, forwards only) on all histories of
         small instances and from every small pre-state (inductive step).
Binding: histories on a lattice are replayed into real Inlet / Outlet objects
         of the five shipped families, built through the family's
         SimpleInletOutlet manager (get_stepper, setup_iom, update_dx,
         add_io_properties, create_ghost, get_inlet_outlet) or directly with
         an explicit zone length, with the interface normal along +-x, +-y,
         +-z and diagonals in 1-3 dimensions.  Every update call is recorded
         with all rows of the three arrays before and after; TLC evaluates
         the property layer on the recorded calls (TraceInletOutlet.tla) and
         prints the verdict.  A tenth of the scenarios are sequences: two or
         three inlet/outlet pairs with the same array names and different
         geometries built one after the other in ONE process and driven
         interleaved, each judged with its own geometry (state kept per
         process or per array name instead of per object).  In 40% of the
         histories the arrays also hold Remote/Ghost rows behind the Local
         ones (periodic boundaries, parallel runs): after every update each
         array must be aligned (exactly the Local rows form the real range
         1..num_real_particles), the clauses are judged on the real ranges,
         and non-local rows must not be duplicated, promoted or altered.
         A further leg puts two inlets and two outlets with their own
         geometries, spacings and array names (one a suffix / prefix of the
         other, or unrelated; both listing orders) on one fluid array under
         ONE manager; every zone has its own trace in its own frame, in which
         the other zones' updates are calls of kind "other".
         Recorded traces with one corrupted field must
         be rejected (binding self-test, every run).
"""
import copy
import json
import os
import random
import shutil
import sys
import time
from concurrent.futures import ThreadPoolExecutor

sys.path.insert(0, os.path.dirname(os.path.dirname(os.path.abspath(__file__))))
from mbv import tlc                                   # noqa: E402
from mbv.harness import Check, MachineryError, main   # noqa: E402

FAMILIES = ('donothing', 'mirror', 'hybrid', 'characteristic', 'mod_donothing')
AXIS = {1: [[1, 0, 0], [-1, 0, 0]],
        2: [[1, 0, 0], [-1, 0, 0], [0, 1, 0], [0, -1, 0]],
        3: [[1, 0, 0], [-1, 0, 0], [0, 1, 0], [0, -1, 0], [0, 0, 1],
            [0, 0, -1]]}
DIAG = {2: [[1, 1, 0], [1, -1, 0], [-1, -1, 0], [3, 4, 0], [-4, 3, 0]],
        3: [[1, 1, 0], [1, 1, 1], [1, -1, 1], [2, 3, 6], [-1, 2, 2],
            [0, 3, -4]]}
KNOWN_ID = 'C16-diagonal-length'
DESIGN_QUICK = ('ind', 'ghost', 'deep', 'histq', 'wideq')
DESIGN_THOROUGH = ('ind', 'ghost', 'deep', 'histq', 'wide', 'hist', 'ind4')
# wrong mechanisms the property layer must reject (False) / a correct variant
# it must accept (True); no_align only shows when non-local rows are present
MUTANTS = {'ties_other_way': True, 'recycle_short': False, 'no_remove': False,
           'keep_far': False, 'ignore_stage': False, 'copy_all_inlet': False,
           'drop_prop': False, 'no_align': False}
MUTANT_BASE = {'no_align': 'ghost'}


def scenario(rng, k, thorough, tag='s', dim=None, mode=None, steps=None):
    mode = mode or ('manager' if rng.random() < 0.6 else 'direct')
    fam = FAMILIES[k % 5]
    dim = dim or rng.choice([1, 2, 2, 3])
    if dim > 1 and rng.random() < 0.3:
        flow = rng.choice(DIAG[dim])
    else:
        flow = rng.choice(AXIS[dim])
    unit_exp = rng.choice([-3, -3, -3, -1, -5, 0, -8])
    org = [rng.choice([0.0, 0.5, -0.25, 3.0]) for _ in range(3)]
    for c in range(dim, 3):
        org[c] = 0.0
    dx = rng.choice([1, 2])
    nt = 1 if dim == 1 else rng.choice([1, 2])
    tsites = [(a * dx, b * dx) for a in range(nt if dim > 1 else 1)
              for b in range(nt if dim > 2 else 1)]
    X = rng.randint(2, 8)
    if mode == 'manager':
        nli, nlo = rng.choice([1, 2, 3]), rng.choice([1, 2, 3])
        Lin, Lout = nli * dx, nlo * dx
        oi, oo = rng.randint(1, dx), rng.randint(1, dx)
        inlet = [(-(oi + j * dx), a, b) for j in range(nli)
                 for (a, b) in tsites]
        outlet = [(X + oo + j * dx, a, b) for j in range(nlo)
                  for (a, b) in tsites]
        active = [2]
        ghost = rng.random() < 0.5
    else:
        Lin, Lout = rng.randint(1, 6), rng.randint(1, 6)
        cand = [(s, a, b) for s in range(-Lin - 1, 1) for (a, b) in tsites]
        inlet = [c for c in cand if rng.random() < 0.5]
        if rng.random() < 0.1:
            inlet = []
        cand = [(s, a, b) for s in range(X, X + Lout + 2) for (a, b) in tsites]
        outlet = [c for c in cand if rng.random() < 0.35]
        if rng.random() < 0.4:
            outlet = []
        active = rng.choice([[1], [2], [1, 2]])
        ghost = False
    cand = [(s, a, b) for s in range(-1, X + 2) for (a, b) in tsites]
    pf = rng.choice([0.0, 0.3, 0.6])
    fluid = [c for c in cand if rng.random() < pf]
    M = 8
    prof = rng.choice(['uniform', 'random', 'random', 'slow', 'back', 'burst'])
    nsteps = steps or (rng.randint(3, 8) if not thorough
                       else rng.randint(4, 18))
    ops = []
    for st in range(nsteps):
        def field():
            if prof == 'uniform':
                v = rng.choice([1, 1, 2, 3])
                return [v] * M
            if prof == 'slow':
                return [rng.choice([0, 1]) for _ in range(M)]
            if prof == 'back':
                return [rng.randint(-3, 1) for _ in range(M)]
            if prof == 'burst':
                return [rng.choice([0, 1, 2, Lin + 1, Lout + 2, -Lin - 1])
                        for _ in range(M)]
            return [rng.randint(-2, 3) for _ in range(M)]
        tv = [0] * M if prof == 'uniform' else \
            [rng.randint(-1, 1) for _ in range(M)]
        r = rng.random()
        for stage in (1, 2):
            ops.append(['adv', field(), tv])
            pair = [['in', stage], ['out', stage]]
            if r < 0.15:
                pair.reverse()
            elif r < 0.25:
                pair = [pair[0], pair[0], pair[1], pair[1]]
            ops += pair
    ghosts = {}
    if rng.random() < 0.4:
        # non-local rows (1 Remote, 2 Ghost) behind the Local rows of the
        # destination and source arrays, some of them past a plane
        spans = dict(inlet=(-Lin - 1, 1), fluid=(-1, X + 2),
                     outlet=(X, X + Lout + 2))
        for name in ('inlet', 'fluid', 'outlet'):
            if rng.random() < (0.8 if name == 'fluid' else 0.5):
                lo, hi = spans[name]
                ghosts[name] = [
                    [rng.randint(lo, hi)] + list(rng.choice(tsites)) +
                    [rng.choice([1, 2, 2])]
                    for _ in range(rng.randint(1, 3))]
    return dict(id='%s%d' % (tag, k), mode=mode, family=fam, dim=dim,
                ghosts=ghosts,
                flow=flow, unit_exp=unit_exp, origin=org, dx=dx, Lin=Lin,
                X=X, Lout=Lout, ptc=rng.choice(['none', 'all', 'nob']),
                active=active, ghost=ghost,
                inlet=[list(p) for p in inlet], fluid=[list(p) for p in fluid],
                outlet=[list(p) for p in outlet], ops=ops)


def geometry(s):
    return (s['flow'], s['origin'], s['Lin'], s['X'], s['Lout'], s['unit_exp'])


def seq_scenario(rng, k, thorough):
    """Two or three short histories with the same array names ('inlet',
    'fluid', 'outlet'), the same dimension and different geometries (flow
    axis and direction, reference point, zone lengths, outlet plane), run
    interleaved in one process by the driver."""
    n = rng.choice([2, 3])
    dim = rng.choice([1, 2, 2, 3])
    fam = rng.randrange(5)
    subs = []
    for j in range(n):
        for attempt in range(50):
            kk = fam if rng.random() < 0.7 else rng.randrange(5)
            s = scenario(rng, kk, thorough, tag='q%d.' % k, dim=dim,
                         steps=rng.randint(2, 4 if not thorough else 6))
            s['id'] = 'q%d.%d' % (k, j)
            if all(geometry(s) != geometry(t) for t in subs) and \
                    (attempt > 20 or all(s['flow'] != t['flow'] or
                                         s['origin'] != t['origin']
                                         for t in subs)):
                break
        subs.append(s)
    return dict(id='q%d' % k, seq=subs)


# array names of two zones of the same kind under one manager: one a suffix /
# a prefix of the other, or unrelated.  (Every new array name costs one
# compiled evaluator per family, hence one combination per family.)
NAME_COMBOS = [(('inlet', 'right_inlet'), ('outlet', 'left_outlet')),
               (('inlet2', 'inlet'), ('outlet2', 'outlet')),
               (('inlet_a', 'inlet_b'), ('outlet_a', 'outlet_b'))]


def multi_scenario(rng, k, thorough, steps=None):
    """Two inlets and two outlets ('lanes') with their own flow axis,
    reference point, zone lengths and spacing on ONE fluid array under ONE
    manager; both listing orders; each lane is judged in its own frame."""
    fam = k % 5
    dim = rng.choice([1, 2, 2, 3])
    innames, outnames = NAME_COMBOS[fam % 3]
    lanes = []
    for j in range(2):
        for attempt in range(40):
            s = scenario(rng, fam, thorough, dim=dim, mode='manager',
                         steps=steps or rng.randint(2, 5 if not thorough else 8))
            if not lanes or (s['Lin'] != lanes[0]['Lin'] and
                             s['Lout'] != lanes[0]['Lout'] and
                             geometry(s) != geometry(lanes[0])):
                break
        s['id'] = 'm%d.%d' % (k, j)
        s['inlet_name'], s['outlet_name'] = innames[j], outnames[j]
        lanes.append(s)
    ops = []
    for op in lanes[0].pop('ops'):
        if op[0] == 'adv':
            ops.append(op)
        else:
            order = [0, 1] if rng.random() < 0.5 else [1, 0]
            ops += [[op[0], op[1], j] for j in order]
    lanes[1].pop('ops')
    for l in lanes:
        l['unit_exp'] = lanes[0]['unit_exp']
    return dict(id='m%d' % k, multi=lanes, family=FAMILIES[fam], dim=dim,
                unit_exp=lanes[0]['unit_exp'], ghost=lanes[0]['ghost'],
                fluid_name='fluid', ops=ops,
                in_order=rng.choice([[0, 1], [1, 0]]),
                out_order=rng.choice([[0, 1], [1, 0]]))


def flatten(scens):
    for s in scens:
        if 'multi' in s:
            for t in s['multi']:
                yield t, s
        elif 'seq' in s:
            for t in s['seq']:
                yield t, s
        else:
            yield s, s


def warm_scenarios():
    """One tiny scenario per distinct evaluator source (the five managers'
    property sets, and the plain arrays of direct mode): compiles them."""
    out = []
    for fam, mode in [(f, 'manager') for f in FAMILIES] + \
            [('donothing', 'direct')]:
        out.append(dict(
            id='warm-%s-%s' % (fam, mode), mode=mode, family=fam, dim=1,
            flow=[1, 0, 0], unit_exp=-3, origin=[0.0, 0.0, 0.0], dx=2,
            Lin=4, X=4, Lout=4, ptc='none',
            active=[2], ghost=False, inlet=[[-1, 0, 0], [-3, 0, 0]],
            fluid=[[1, 0, 0]], outlet=[[5, 0, 0], [7, 0, 0]],
            ops=[['adv', [2], [0]], ['in', 2], ['out', 2],
                 ['adv', [2], [0]], ['in', 2], ['out', 2]]))
    wrng = random.Random(1)
    for k in range(5):           # the array names of the multi-zone leg
        m = multi_scenario(wrng, k, False, steps=1)
        m['id'] = 'warm-multi-%d' % k
        m['dim'], m['ghost'] = 1, False
        for j, l in enumerate(m['multi']):
            l.update(flow=[1, 0, 0], origin=[8.0 * j, 0.0, 0.0], ghosts={},
                     id='warm-multi-%d.%d' % (k, j), dim=1,
                     **{n: [[r[0], 0, 0] for r in l[n]]
                        for n in ('inlet', 'fluid', 'outlet')})
        out.append(m)
    return out


SEEDED = ('recycle_x_only', 'outlet_no_remove', 'outlet_no_delete')


def seeded_fault_selftest(chk, sc):
    """Run a few histories through the real code with one statement of
    update() removed (in memory, in the driver process): TLC must reject."""
    rng = random.Random(chk.seed + 5)
    scens = []
    k = 0
    while len(scens) < 24:
        s = scenario(rng, 5 * k, False, tag='f')     # family donothing
        k += 1
        if s['mode'] == 'manager' and s['dim'] >= 2 and \
                s['flow'] in ([0, 1, 0], [0, -1, 0]):
            scens.append(s)
    fi = os.path.join(sc, 'seeded.ndjson')
    with open(fi, 'w') as fp:
        for s in scens:
            fp.write(json.dumps(s) + '\n')

    def one(name):
        fo = os.path.join(sc, 'seeded-%s.out' % name)
        chk.run_py('checks/c16_driver.py', [fi, fo], timeout=1800,
                   env_extra={'C16_SEEDED_FAULT': name})
        v, _ = tlc.validate_batches('TraceInletOutlet', 'TraceInletOutlet.cfg',
                                    [fo], parallel=1)
        return name, sum(1 for x in v if x['failed'] and not x['known']), len(v)
    with ThreadPoolExecutor(max_workers=3) as ex:
        res = list(ex.map(one, SEEDED))
    out = {}
    for name, bad, n in res:
        out[name] = '%d of %d histories rejected' % (bad, n)
        if bad == 0:
            raise MachineryError('self-test: seeded fault %s in the real '
                                 'update() was not detected' % name)
    return out


AIDX = {'inlet': 0, 'fluid': 1, 'outlet': 2}


def _real(st, name):
    return st[name][:st['nreal'][AIDX[name]]]


def _add_local(st, name, row):
    n = st['nreal'][AIDX[name]]
    st[name].insert(n, row)
    st['nreal'][AIDX[name]] = n + 1


def _drop_local(st, name, row):
    st[name].remove(row)
    st['nreal'][AIDX[name]] -= 1


def mutate(rec, rng):
    """Corrupt one recorded field of a trace; returns (name, record) or None."""
    rec = copy.deepcopy(rec)
    calls = rec['calls']
    active = set(rec['g']['active'])
    opts = []
    for k, c in enumerate(calls):
        if c['stage'] not in active or not c['ok'] or c['kind'] == 'other':
            continue
        b, a = c['before'], c['after']
        entered = a['nreal'][1] > b['nreal'][1]
        if c['kind'] == 'in' and entered:
            opts += [('recycled-position', k), ('copy-twice', k),
                     ('copy-property', k)]
            if a['nreal'][1] < len(a['fluid']):
                opts += [('entered-behind-ghost', k)] * 3
                opts += [('entered-tagged-ghost', k)] * 2
        if c['kind'] == 'out' and a['nreal'][1] < b['nreal'][1]:
            opts.append(('left-but-still-fluid', k))
        if c['kind'] == 'out' and a['nreal'][2]:
            opts.append(('outlet-row-lost', k))
        if c['kind'] == 'in' and a['nreal'][0]:
            opts.append(('untouched-inlet-moved', k))
        for name in ('fluid', 'outlet'):
            if a['nreal'][AIDX[name]] < len(a[name]):
                opts += [('ghost-promoted:' + name, k),
                         ('ghost-duplicated:' + name, k)]
    if not opts:
        return None
    what, k = rng.choice(opts)
    c = calls[k]
    b, a = c['before'], c['after']
    bi = {r['id']: r for r in _real(b, 'inlet')}
    bf = set(r['id'] for r in _real(b, 'fluid'))
    new = [r for r in _real(a, 'fluid') if r['id'] not in bf]
    if what == 'recycled-position':
        ids = [r['id'] for r in new if r['id'] in bi]
        if not ids:
            return None
        for r in a['inlet']:
            if r['id'] == ids[0]:
                r['s'] += rec['fine']
    elif what == 'copy-twice':
        _add_local(a, 'fluid', dict(new[-1]))
    elif what == 'copy-property':
        new[-1]['b'] += 1
    elif what == 'entered-behind-ghost':
        # what extract_particles(align=False) + a bumped count would leave
        a['fluid'].remove(new[-1])
        a['fluid'].append(new[-1])
    elif what == 'entered-tagged-ghost':
        a['fluid'].remove(new[-1])
        a['fluid'].append(new[-1])
        a['nreal'][1] -= 1
        new[-1]['tag'] = 2
    elif what == 'left-but-still-fluid':
        gone = [r for r in _real(b, 'fluid')
                if r['id'] not in set(x['id'] for x in a['fluid'])]
        _add_local(a, 'fluid', dict(gone[0]))
    elif what == 'outlet-row-lost':
        far = rec['g']['X'] + rec['g']['Lout']
        keep = [r for r in _real(a, 'outlet') if r['s'] < far - 1]
        if not keep:
            return None
        _drop_local(a, 'outlet', keep[0])
    elif what == 'untouched-inlet-moved':
        still = [r for r in _real(a, 'inlet') if r['id'] in bi and
                 r['s'] == bi[r['id']]['s']]
        if not still:
            return None
        still[0]['s'] -= rec['fine']
    elif what.startswith('ghost-promoted:'):
        name = what.split(':')[1]
        a[name][a['nreal'][AIDX[name]]]['tag'] = 0
        a['nreal'][AIDX[name]] += 1
    elif what.startswith('ghost-duplicated:'):
        name = what.split(':')[1]
        a[name].append(dict(a[name][-1]))
    what = what.split(':')[0]
    # later calls are left as recorded: the history is judged as a whole
    rec['id'] = '%s~%s@%d' % (rec['id'], what, k + 1)
    rec['calls'] = calls[:k + 1]
    return what, rec


def run():
    chk = Check('C16', 'model_checking')
    try:
        body(chk)
    finally:
        if chk._env is not None:
            shutil.rmtree(chk.scratch, ignore_errors=True)


def body(chk):
    rng = random.Random(chk.seed + 16)
    quick = chk.tier == 'quick'
    sc = chk.scratch
    pool = ThreadPoolExecutor(max_workers=3)
    problems = []      # self-test / machinery complaints; violations win
    dfut = []
    mfut = []
    if chk.args.replay:
        case = json.load(open(chk.args.replay))['case']
        if not case.get('scenario'):
            # a counterexample of the design model: re-run that instance
            n = case['design']
            r = tlc.run('InletOutlet', 'InletOutlet.%s.cfg' % n, workers=6,
                        timeout=3000)
            if r.get('error') or r.get('timeout'):
                raise MachineryError('TLC design %s failed:\n%s' % (
                    n, r['out'][-2000:]))
            if not r['ok']:
                chk.violation('design model InletOutlet.%s: %s violated' % (
                    n, r['violation']), case)
            chk.finish()
        scens = [case['scenario']]
    else:
        chk.env

        def des(n):
            r = tlc.run('InletOutlet', 'InletOutlet.%s.cfg' % n, workers=5,
                        timeout=3000, coverage=False)
            if r.get('error') or r.get('timeout'):
                raise MachineryError('TLC design %s failed:\n%s' % (
                    n, r['out'][-2000:]))
            return n, r

        def mut(m):
            base = open(os.path.join(
                tlc.SPEC_DIR, 'cfg', 'InletOutlet.%s.cfg' %
                MUTANT_BASE.get(m, 'ind'))).read()
            p = os.path.join(sc, 'mutant-%s.cfg' % m)
            with open(p, 'w') as fp:
                fp.write(base.replace('Mutant = "none"', 'Mutant = "%s"' % m))
            r = tlc.run('InletOutlet', p, workers=3, timeout=1200)
            if r.get('error') or r.get('timeout'):
                raise MachineryError('TLC mutant %s failed:\n%s' % (
                    m, r['out'][-2000:]))
            return m, r
        dfut = [pool.submit(des, n)
                for n in (DESIGN_QUICK if quick else DESIGN_THOROUGH)]
        if not quick or chk.args.selftest:
            mfut = [pool.submit(mut, m) for m in sorted(MUTANTS)]
        n, nq = (560, 80) if quick else (5500, 600)
        scens = [scenario(rng, k, not quick) for k in range(n)]
        scens += [seq_scenario(rng, k, not quick) for k in range(nq)]
        scens += [multi_scenario(rng, k, not quick)
                  for k in range(60 if quick else 400)]
        rng.shuffle(scens)
        # compile the evaluators once (one process per family and mode),
        # so that the parallel phase only loads cached modules
        wjobs = []
        for i, w in enumerate(warm_scenarios()):
            fi = os.path.join(sc, 'warm%d.ndjson' % i)
            with open(fi, 'w') as fp:
                fp.write(json.dumps(w) + '\n')
            wjobs.append((fi, os.path.join(sc, 'warm%d.out' % i)))
        # two phases, so that no two processes compile the same module at
        # the same time: the multi-zone scenarios re-use 'inlet' / 'outlet'
        nsingle = sum(1 for w in warm_scenarios() if 'multi' not in w)
        for part in (wjobs[:nsingle], wjobs[nsingle:]):
            with ThreadPoolExecutor(max_workers=10) as ex:
                list(ex.map(lambda io: chk.run_py(
                    'checks/c16_driver.py', list(io), timeout=1500), part))
        for fi, fo in wjobs:
            r = json.loads(open(fo).readline())
            if 'calls' not in r:
                # not fatal: the same kinds of scenario are judged below
                problems.append('warm-up scenario failed: %s' % (
                    json.dumps(r)[:600]))
    phases = {'warmup_s': round(time.time() - chk.t0, 1)}
    t1 = time.time()
    nproc = 14
    files = []
    for i in range(nproc):
        part = scens[i::nproc]
        if not part:
            continue
        fi = os.path.join(sc, 'scen%d.ndjson' % i)
        with open(fi, 'w') as fp:
            for s in part:
                fp.write(json.dumps(s) + '\n')
        files.append((fi, os.path.join(sc, 'out%d.ndjson' % i)))
    with ThreadPoolExecutor(max_workers=nproc) as ex:
        list(ex.map(lambda io: chk.run_py('checks/c16_driver.py', list(io),
                                          timeout=7000), files))
    phases['drivers_s'] = round(time.time() - t1, 1)
    t1 = time.time()
    recs = []
    for fi, fo in files:
        recs += [l for l in open(fo)]
    by_id = {}
    parent = {}
    for s, top in flatten(scens):
        by_id[s['id']] = s
        parent[s['id']] = top
    rec_by_id = {}
    for l in recs:
        r = json.loads(l)
        rec_by_id[r['id']] = r
    # binding self-test: corrupted copies of recorded traces must be rejected.
    # Candidates are derived here (one TLC pass for everything) but only
    # those whose base trace turns out to be accepted are judged below, and
    # only when the corruption changed the projected data of its base.
    mutants = []
    mrng = random.Random(chk.seed + 99)
    cands = [r for r in rec_by_id.values() if 'calls' in r and
             r['code']['LinM'] == r['g']['Lin'] * r['mpf'] and
             r['code']['LoutM'] == r['g']['Lout'] * r['mpf']]
    mrng.shuffle(cands)
    seen_kinds = {}
    want = 40 if quick else 200
    for r in cands:
        if len(mutants) >= 2 * want:
            break
        m = mutate(r, mrng)
        if m is None:
            continue
        k = len(m[1]['calls'])
        if m[1]['calls'] == r['calls'][:k]:
            continue               # nothing changed: not a corruption
        if seen_kinds.get(m[0], 0) >= (16 if quick else 80):
            continue
        seen_kinds[m[0]] = seen_kinds.get(m[0], 0) + 1
        mutants.append(m[1])
    lines = recs + [json.dumps(m) + '\n' for m in mutants]
    per = 60 if quick else 120
    batches = []
    for i in range(0, len(lines), per):
        f = os.path.join(sc, 'batch%d.ndjson' % (i // per))
        open(f, 'w').writelines(lines[i:i + per])
        batches.append(f)
    try:
        verdicts, st = tlc.validate_batches(
            'TraceInletOutlet', 'TraceInletOutlet.cfg', batches, parallel=12)
    except tlc.TLCError as ex:
        raise MachineryError(str(ex))
    if len(verdicts) != len(lines):
        raise MachineryError('verdicts %d != records %d' % (
            len(verdicts), len(lines)))
    phases['trace_validation_s'] = round(time.time() - t1, 1)
    t1 = time.time()
    seeded = {}
    if not chk.args.replay and (not quick or chk.args.selftest):
        try:
            seeded = seeded_fault_selftest(chk, sc)
        except (tlc.TLCError, MachineryError) as ex:
            problems.append(str(ex)[:600])
        phases['seeded_faults_s'] = round(time.time() - t1, 1)
        t1 = time.time()
    designs = []
    mres = []
    for fut, dst in [(f, designs) for f in dfut] + [(f, mres) for f in mfut]:
        try:
            dst.append(fut.result())
        except MachineryError as ex:
            problems.append(str(ex)[:600])
    phases['waiting_for_design_runs_s'] = round(time.time() - t1, 1)

    ncalls = nent = nleft = ndel = 0
    nontrivial = set()
    kinds = {}
    accepted_mutants = []
    rejected_mutants = 0
    base_ok = set(v['id'] for v in verdicts
                  if '~' not in v['id'] and not v['failed'])
    seen_kinds = {}
    for v in verdicts:
        if '~' not in v['id']:
            continue
        # a corrupted copy of an ACCEPTED trace: the verdict has to change
        base, what = v['id'].split('~')
        what = what.split('@')[0]
        if base not in base_ok or rejected_mutants + len(accepted_mutants) \
                >= want:
            continue
        seen_kinds[what] = seen_kinds.get(what, 0) + 1
        if v['failed'] and not v['known']:
            rejected_mutants += 1
        else:
            accepted_mutants.append(v['id'])
    for v in verdicts:
        if '~' in v['id']:
            continue
        s = by_id[v['id']]
        r = rec_by_id[v['id']]
        ncalls += v['ncalls']
        nent += v['entered']
        nleft += v['left']
        ndel += v['deleted']
        if not v['links'] and not v['failed']:
            problems.append('harness link broken in %s' % v['id'])
        if v['entered'] >= 2 and v['left'] >= 1 and v['deleted'] >= 1:
            nontrivial.add(json.dumps(
                [s.get(k) for k in ('mode', 'family', 'dim', 'flow', 'dx', 'Lin',
                                'X', 'Lout', 'inlet', 'fluid', 'outlet',
                                'ghosts', 'ops')], sort_keys=True))
        failed = [f for f in v['failed'] if f[1] != 'HarnessNotUnique']
        if v['failed'] and not failed:
            problems.append('identities not unique / arrays not aligned '
                            'before a call in %s' % v['id'])
        offlat = 'multi' in parent[v['id']] and any(
            sum(1 for q in t['flow'] if q) > 1
            for t in parent[v['id']]['multi'])
        # (rows of a diagonal co-managed zone are not lattice points in this
        # zone's frame: a rounded position on a plane is a tie for P, but the
        # deterministic M cannot be compared there)
        if v['drift'] and not v['failed'] and not offlat:
            chk.note_drift('InletOutlet', '%s call %s' % (
                v['id'], sorted(v['drift'])[0]))
        if not failed:
            continue
        if v['known'] and all(chk.known(k) for k in v['known']):
            for k in v['known']:
                chk.known_hit(k)
            continue
        first = min(f[0] for f in failed)
        clauses = sorted(set(f[1] for f in failed if f[0] == first))
        for c in clauses:
            kinds[c] = kinds.get(c, 0) + 1
        why = r.get('error') or r.get('crash') or r.get('errtext') or ''
        chk.violation(
            '%s %s dim %d flow %s: call %d breaks %s %s' % (
                s['mode'], s['family'], s['dim'], s['flow'], first, clauses,
                why[:200]),
            dict(scenario=parent[v['id']], member=v['id'],
                 failed=v['failed'], known=v['known'],
                 code=r.get('code'), g=r.get('g')))
    dstates = dtrans = 0
    dinfo = {}
    for n, r in designs:
        dstates += r['distinct']
        dtrans += r['generated']
        dinfo[n] = dict(states=r['distinct'], transitions=r['generated'],
                        wall_s=round(r['wall'], 1))
        if not r['ok']:
            chk.violation('design model InletOutlet.%s: %s violated (the '
                          'mechanism does not imply the property layer)' % (
                              n, r['violation']),
                          dict(scenario=None, design=n, out=r['out'][-3000:]))
    minfo = {}
    for m, r in mres:
        rejected = r['violation'] is not None
        minfo[m] = 'rejected' if rejected else 'accepted'
        if rejected == MUTANTS[m]:
            problems.append(
                'design self-test: mutant mechanism %s was %s' % (m, minfo[m]))
    if accepted_mutants:
        problems.append('binding self-test: corrupted traces accepted: '
                        '%s' % accepted_mutants[:5])
    if not chk.args.replay and rejected_mutants == 0:
        problems.append('binding self-test produced no corrupted trace of '
                        'an accepted trace')
    # a tree that violates the property gives exit 1 with VIOLATION lines;
    # self-test complaints are exit 2 only when nothing was violated
    if problems and not chk.violations:
        raise MachineryError(' | '.join(problems))
    for pr in problems:
        print('SELFTEST-NOTE (violations are reported; not a verdict): %s'
              % pr[:300])
    sample = None
    for v in verdicts:
        if '~' not in v['id'] and v['entered'] >= 1 and v['left'] >= 1 \
                and not v['failed']:
            s = by_id[v['id']]
            r = rec_by_id[v['id']]
            sample = dict(scenario={k: s[k] for k in s if k != 'ops'},
                          ops=s['ops'][:6], first_calls=r['calls'][:2],
                          verdict=v)
            break
    chk.cov.update(dict(
        states=dstates or st['distinct'],
        transitions=dtrans or st['generated'],
        design_runs=dinfo, design_mutants=minfo, phases=phases,
        selftest_notes=problems,
        seeded_faults_in_real_update=seeded,
        traces_validated_against_impl=len(verdicts) - len(mutants),
        histories_with_nonlocal_rows=sum(
            1 for t, _ in flatten(scens) if t.get('ghosts')),
        multi_zone_scenarios=sum(1 for x in scens if 'multi' in x),
        same_name_sequences=sum(1 for x in scens if 'seq' in x),
        histories_in_sequences=sum(len(x['seq']) for x in scens
                                   if 'seq' in x),
        particles_entered=nent,
        particles_left=nleft, particles_deleted=ndel,
        corrupted_traces_rejected=rejected_mutants,
        corrupted_trace_kinds=seen_kinds,
        failing_clauses=kinds,
        evaluations=ncalls, distinct_nontrivial=len(nontrivial),
        rule='a case is one history (geometry, initial particles, 6-36 '
             'advect-then-update rounds) replayed into real Inlet/Outlet '
             'objects (alone in a process, or 2-3 pairs with the same array '
             'names and different geometries interleaved in one process) '
             'and judged call by call by TLC; distinct by the '
             'scenario; non-trivial when at least 2 particles entered the '
             'fluid, 1 left it and 1 was deleted during the history',
        samples=[sample] if sample else [],
    ))
    chk.assumptions += [
        'lattice unit 2^k with k in {-8,-5,-3,-1,0}: the absolute tolerance '
        '1e-6 of IOEvaluate is far below one lattice unit; positions are '
        'logged in 1/8 lattice units',
        'interface normals are unit vectors; inlet and outlet share the flow '
        'axis; one fluid array',
        'manager mode: the inlet and outlet arrays initially hold complete '
        'layers at spacing dx (this defines the zone length the manager '
        'computes); an initially empty outlet needs an explicit length '
        '(direct mode)',
        'a particle exactly on a plane may go either way; a fluid particle '
        'carried past the far end of the outlet zone in one step may be '
        'absorbed or deleted at once; fluid particles more than 1000 length '
        'units past the outlet plane are not generated',
        'non-local rows (tag 1, 2) are not particles of the statement: one '
        'lying past a plane may stay (what the code does), be dropped or be '
        'passed on as non-local; they must never enter a real range, be '
        'duplicated or change',
        'ghost arrays (ghost_inlet/ghost_outlet) are created and passed to '
        'the objects but are not part of the statement and are not judged',
    ]
    chk.finish()


if __name__ == '__main__':
    main(run)
