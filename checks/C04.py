"""C04 - the compiled integrator performs one_timestep exactly as written.

Design:   TLC checks IntegratorMC.tla: over a complete small universe of
          generated integrators (op lists of a grammar), stepper patterns
          (which of initialize/stageN/py_stageN exist), particle arrays
          (0-2 real, 0-1 ghost) and 1-2 consecutive steps, the log of the
          op-list machine (Integrator.tla, "executing one_timestep
          literally") satisfies every clause of the property layer
          (IntegratorProps.tla) and the data invariants.  Side runs mutate
          the machine (loop over ghosts, stale stage time, no neighbour
          refresh): TLC must find a violation (sensitivity).
Binding:  TLC prints the programs and stepper patterns of the universe; the
          harness turns samples of them into real pysph integrators and
          steppers (source generated in pysph's own DSL, compiled by the
          unmodified code generator), runs them on exact integer data and
          records the event log and the particle data (checks/c04_driver.py).
          TraceIntegrator.tla decides every run: property clauses on the real
          log + real final data == literal execution by the machine
          (verdict); real log == machine log (drift).
Stage 2:  every shipped Integrator subclass: its one_timestep is parsed with
          `ast` into the op list (the source is the specification) and the
          real class is compiled and run with probe steppers; in the
          thorough tier also with the shipped steppers it is used with (event
          log and ghost-untouched only).
Selftest: --selftest (a) corrupts recorded events / values and demands that
          the VERDICT changes, (b) mutates the generated source / the code
          generator in the driver process only and demands violations.
"""
import ast
import json
import os
import random
import shutil
import sys
import time
import warnings
from concurrent.futures import ThreadPoolExecutor

sys.path.insert(0, os.path.dirname(os.path.dirname(os.path.abspath(__file__))))
from mbv import build, tlc                            # noqa: E402
from mbv.harness import Check, MachineryError, main   # noqa: E402

KNOWN_ATTR = 'C04-stepper-attr-snapshot'
TICK = 2.0 ** -8

PROG_CONST = {
    'quick': dict(MaxS=3,
                  AccShapes='{"none", "pre", "preF", "post", "postF"}',
                  DomShapes='{"none", "mid"}',
                  AccShapes3='{"pre", "preF"}', DomShapes3='{"none", "mid"}'),
    'thorough': dict(MaxS=3,
                     AccShapes='{"none", "pre", "preF", "post", "postF"}',
                     DomShapes='{"none", "mid", "end"}',
                     AccShapes3='{"none", "pre", "preF", "post"}',
                     DomShapes3='{"none", "mid"}'),
}
# design universes (the program constants above are added)
UNIVERSES = {
    'quick': [
        dict(MaxS=2, PatSets='PatsB', NReals='{0, 2}', NGhosts='{0, 1}',
             StepSets='{2}', Periodics='{FALSE}'),
        dict(PatSets='PatsC', NReals='{2}', NGhosts='{1}',
             StepSets='{1, 2}', Periodics='{FALSE, TRUE}'),
        # the same stepper class with different parameters on arrays a, c
        dict(MaxS=2, PatSets='PatsD', NReals='{1}', NGhosts='{0, 1}',
             StepSets='{2}', Periodics='{FALSE}'),
        # py hooks that change the population of their array
        dict(MaxS=2, PatSets='PatsE', NReals='{0, 2}', NGhosts='{1}',
             StepSets='{2}', Periodics='{FALSE}'),
    ],
    'thorough': [
        dict(MaxS=2, PatSets='PatsA', NReals='{0, 1, 2}', NGhosts='{0, 1}',
             StepSets='{1, 2}', Periodics='{FALSE}'),
        dict(PatSets='PatsC', NReals='{2}', NGhosts='{0, 1}',
             StepSets='{1, 2}', Periodics='{FALSE, TRUE}'),
        dict(MaxS=2, PatSets='PatsB', NReals='{0, 2}', NGhosts='{0, 1}',
             StepSets='{2}', Periodics='{TRUE}'),
        dict(MaxS=2, PatSets='PatsD', NReals='{0, 2}', NGhosts='{1}',
             StepSets='{1, 2}', Periodics='{FALSE, TRUE}'),
        dict(MaxS=2, PatSets='PatsE', NReals='{0, 1, 2}', NGhosts='{0, 1}',
             StepSets='{1, 2}', Periodics='{FALSE}'),
    ],
}
MUTATIONS = ('ghosts', 'stale_t', 'norefresh', 'countfirst')
INVARIANTS = ('LogOK', 'GhostsUntouched', 'GhostsAreCopies', 'VisitsOK',
              'TimeOK', 'RealsFirst')
PATS_A = [['L'], ['P'], ['O'], ['W'], ['P', 'N'], ['L', 'P'], ['O', 'L'],
          ['L', 'P', 'L'], ['W', 'O', 'W'],
          ['A'], ['G'], ['R'], ['G', 'A'], ['L', 'R']]
# generated probe modules: (S, ne, stepper patterns)
MODULES = {
    'quick': [(1, 1, ['W']), (2, 1, ['L', 'P']), (2, 2, ['O', 'L']),
              (3, 2, ['P', 'N']), (2, 1, ['L']), (3, 1, ['O']),
              # arrays a and c: the SAME stepper class, different parameters
              (2, 1, ['L', 'P', 'L']),
              # py hooks that add / retag / remove particles
              (2, 1, ['G', 'A']), (1, 1, ['R'])],
    'thorough': [(S, ne, p) for p in PATS_A
                 for (S, ne) in ((1, 1), (2, 1), (2, 2), (3, 1), (3, 2))],
}
NVARIANTS = {'quick': 24, 'thorough': 48}
NCONFIGS = {'quick': 5, 'thorough': 10}
# shipped stepper classes an integrator is used with in pysph (schemes,
# examples, docs); thorough tier, event log + ghost-untouched only
STEPPER_PAIRS = [
    ('pysph.sph.integrator.EulerIntegrator',
     'pysph.sph.integrator_step.EulerStep'),
    ('pysph.sph.integrator.PECIntegrator',
     'pysph.sph.integrator_step.WCSPHStep'),
    ('pysph.sph.integrator.EPECIntegrator',
     'pysph.sph.integrator_step.WCSPHStep'),
    ('pysph.sph.integrator.PECIntegrator',
     'pysph.sph.integrator_step.TransportVelocityStep'),
    ('pysph.sph.integrator.PECIntegrator',
     'pysph.sph.integrator_step.AdamiVerletStep'),
    ('pysph.sph.integrator.EPECIntegrator',
     'pysph.sph.integrator_step.GasDFluidStep'),
    ('pysph.sph.integrator.TVDRK3Integrator',
     'pysph.sph.integrator_step.WCSPHTVDRK3Step'),
    ('pysph.sph.integrator.LeapFrogIntegrator',
     'pysph.sph.integrator_step.LeapFrogStep'),
    ('pysph.sph.integrator.PEFRLIntegrator',
     'pysph.sph.integrator_step.PEFRLStep'),
    ('pysph.sph.integrator.PECIntegrator',
     'pysph.sph.integrator_step.VerletSymplecticWCSPHStep'),
    ('pysph.sph.swe.basic.SWEIntegrator', 'pysph.sph.swe.basic.SWEStep'),
    ('pysph.sph.wc.gtvf.GTVFIntegrator', 'pysph.sph.wc.gtvf.GTVFStep'),
    ('pysph.sph.wc.crksph.CRKSPHIntegrator',
     'pysph.sph.wc.crksph.CRKSPHStep'),
    ('pysph.sph.wc.pcisph.PCISPHIntegrator',
     'pysph.sph.wc.pcisph.PCISPHStep'),
    ('pysph.sph.isph.isph.ISPHIntegrator', 'pysph.sph.isph.isph.ISPHStep'),
    ('pysph.sph.isph.sisph.SISPHIntegrator',
     'pysph.sph.isph.sisph.SISPHStep'),
    ('pysph.sph.gas_dynamics.magma2.TVDRK2Integrator',
     'pysph.sph.gas_dynamics.magma2.TVDRK2Step'),
]
STEPPER_PAIRS_QUICK = 2


# ---------------------------------------------------------------------------
# TLC design runs
# ---------------------------------------------------------------------------
def write_cfg(path, consts, invariants, mut=(), emit=False):
    with open(path, 'w') as fp:
        fp.write('SPECIFICATION Spec\nCONSTANTS\n')
        fp.write('  Mut = {%s}\n' % ', '.join('"%s"' % m for m in mut))
        for k, v in consts.items():
            if k == 'PatSets':
                fp.write('  PatSets <- %s\n' % v)
            else:
                fp.write('  %s = %s\n' % (k, v))
        fp.write('  Emit = %s\n' % ('TRUE' if emit else 'FALSE'))
        for i in invariants:
            fp.write('INVARIANT %s\n' % i)
        fp.write('CHECK_DEADLOCK FALSE\n')


def run_tlc(cfg, workers, timeout=3000):
    for attempt in (0, 1):
        r = tlc.run('IntegratorMC', cfg, workers=workers, timeout=timeout)
        if not (r.get('error') or r.get('timeout')):
            return r
    raise MachineryError('TLC design run failed:\n' + r['out'][-3000:])


def emit_programs(chk):
    """TLC prints the programs and stepper patterns of the universe."""
    c = dict(PROG_CONST[chk.tier])
    c.update(PatSets='PatsC', NReals='{0}', NGhosts='{0}', StepSets='{1}',
             Periodics='{FALSE}')
    c['MaxS'] = 3
    cfg = os.path.join(chk.scratch, 'emit.cfg')
    # the exploration itself is irrelevant here: stop it at once
    write_cfg(cfg, c, [], emit=True)
    with open(cfg, 'a') as fp:
        fp.write('CONSTRAINT NoStates\n')
    r = run_tlc(cfg, 2)
    if not r['ok']:
        raise MachineryError('emit run failed:\n' + r['out'][-2000:])
    progs = tlc.parse_prints(r['out'], 'PROG')
    pats = tlc.parse_prints(r['out'], 'PAT')
    if not progs or not pats:
        raise MachineryError('TLC printed no programs')
    return progs, dict(((p['name'], p['S']), p['meth']) for p in pats)


def design(chk):
    """Exhaustive design runs + sensitivity runs.  Returns evidence info."""
    sc = chk.scratch
    t_start = time.time()
    info = dict(states=0, transitions=0, universes=[], sensitivity={})
    jobs = []
    for ui, u in enumerate(UNIVERSES[chk.tier]):
        c = dict(PROG_CONST[chk.tier])
        c.update(u)
        cfg = os.path.join(sc, 'design-%d.cfg' % ui)
        write_cfg(cfg, c, INVARIANTS)
        jobs.append(('design', ui, c, cfg))
    small = dict(PROG_CONST['quick'])
    small.update(MaxS=2, PatSets='PatsC', NReals='{2}', NGhosts='{1}',
                 StepSets='{1}', Periodics='{FALSE}')
    for m in MUTATIONS:
        cfg = os.path.join(sc, 'sens-%s.cfg' % m)
        c = dict(small, PatSets='PatsE') if m == 'countfirst' else small
        write_cfg(cfg, c, ['LogOK'], mut=(m,))
        jobs.append(('sens', m, c, cfg))
    nd = len(UNIVERSES[chk.tier])
    with ThreadPoolExecutor(max_workers=len(jobs)) as ex:
        # the first universe is by far the largest
        tot = 9 if chk.tier == 'quick' else 14
        wk = lambda j: (max(2, tot - 2 * (nd - 1)) if j[1] == 0 else 2) \
            if j[0] == 'design' else 1                       # noqa: E731
        futs = [(j, ex.submit(run_tlc, j[3], wk(j))) for j in jobs]
        for j, f in futs:
            r = f.result()
            if j[0] == 'design':
                if not r['ok']:
                    raise MachineryError(
                        'design model: %s violated (the machine does not '
                        'satisfy the property layer: fault of the '
                        'specification)\n%s' % (r['violation'],
                                                r['out'][-2500:]))
                info['states'] += r['distinct']
                info['transitions'] += r['generated']
                info['universes'].append(dict(constants=j[2],
                                              states=r['distinct'],
                                              wall_s=round(r['wall'], 1)))
            else:
                if r['violation'] != 'LogOK':
                    raise MachineryError(
                        'property layer not sensitive to model mutation %s '
                        '(TLC found no violating case)\n%s' % (
                            j[1], r['out'][-1500:]))
                st = tlc.counterexample(r['out'])
                info['sensitivity'][j[1]] = 'LogOK violated after %d states' \
                    % r['distinct'] + ((': ' + st[-1]['text'][:300])
                                       if st else '')
    info['wall'] = round(time.time() - t_start, 1)
    return info


# ---------------------------------------------------------------------------
# programs -> modules and cases
# ---------------------------------------------------------------------------
def stale_after_domain(ops):
    """an evaluation with update_nnps=False after update_domain without a
    refresh in between (cyclically: steps repeat).  With a periodic domain
    the arrays were re-created: not run (the neighbour structure would index
    particles that no longer exist)."""
    dirty = False
    for o in list(ops) * 2:
        if o['op'] == 'domain':
            dirty = True
        elif o['op'] == 'accel':
            if o['nnps']:
                dirty = False
            elif dirty:
                return True
    return False


def refresh_twice_after_move(ops, arrs):
    """two refreshing compute_accelerations with a stage that moves particles
    and no update_domain in between (the second refresh is the only thing
    that makes the moved particles' neighbours right)"""
    def moves(o):
        return o['op'] == 'stage' and any(
            a['meth'][o['m']]['loop'] and a['meth'][o['m']]['mv']
            for a in arrs)
    for i, o in enumerate(ops):
        if o['op'] == 'accel' and o['nnps']:
            moved = False
            for p in ops[i + 1:]:
                if p['op'] == 'domain':
                    break
                if moves(p):
                    moved = True
                if p['op'] == 'accel':
                    if p['nnps'] and moved:
                        return True
                    if p['nnps']:
                        break
    return False


def particle_configs(narr, rng, n, full=False):
    import itertools
    allc = []
    per = [(r, g) for r in (0, 1, 2) for g in (0, 1)]
    allc = [([c[0] for c in cs], [c[1] for c in cs])
            for cs in itertools.product(per, repeat=narr)]
    rng.shuffle(allc)
    must = ([2] * narr, [1] * narr)
    out = [must] + [c for c in allc if c != must]
    return out if full else out[:n]


def steps_of(n, dt=4):
    return [dict(t=8, dt=dt), dict(t=8 + dt, dt=2 * dt),
            dict(t=8 + 3 * dt, dt=dt)][:n]


def gen_modules(chk, progs, pats, rng):
    """modules of generated integrators + their cases"""
    jobs = []
    by = {}
    for p in progs:
        by.setdefault((p['S'], p['ne']), []).append(p)
    for k in by:
        by[k].sort(key=lambda p: json.dumps(p['ops']))
    for mi, (S, ne, pn) in enumerate(MODULES[chk.tier]):
        pool = list(by[(S, ne)])
        rng.shuffle(pool)
        arrs = [dict(name='abc'[ai], k0=ai + 1, meth=pats[(nm, S)])
                for ai, nm in enumerate(pn)]
        neg = any(d['mv'] < 0 for a in arrs for d in a['meth'])
        # shapes that must be there whatever the seed, then the sample
        pop = has_pop(arrs)
        if pop:
            # after a hook changed the population a stale neighbour
            # structure may index particles that no longer exist: only
            # programs that refresh before every evaluation are RUN
            pool = [p for p in pool
                    if all(o['nnps'] for o in p['ops'] if o['op'] == 'accel')]
        must = [p for p in pool
                if refresh_twice_after_move(p['ops'], arrs)][:4]
        must += [p for p in pool if p not in must
                 and stale_eval(p['ops'], arrs)][:4]
        rest = [p for p in pool if p not in must]
        variants = [with_forms(p['ops'], vi) for vi, p in
                    enumerate((must + rest)[:NVARIANTS[chk.tier]])]
        M = dict(mid='g%d' % mi, kind='gen', S=S, ne=ne, arrs=arrs,
                 variants=variants, pats=pn)
        cases = []
        for vi, ops in enumerate(variants):
            cfgs = particle_configs(len(arrs), rng, NCONFIGS[chk.tier])
            for ci, (nr, ng) in enumerate(cfgs):
                ns = 1 + (vi + ci) % 2 if chk.tier == 'quick' else \
                    1 + (vi + ci) % 3
                cases.append(dict(
                    id='%s-v%d-c%d' % (M['mid'], vi, ci), variant=vi,
                    nreal=nr, nghost=ng, steps=steps_of(ns),
                    periodic=False, q=TICK, e=0))
            if not neg and not pop and not stale_after_domain(ops) and \
                    any(o['op'] == 'domain' for o in ops):
                for ci, (nr, ng) in enumerate(cfgs[:2]):
                    if sum(nr) == 0:
                        continue
                    cases.append(dict(
                        id='%s-v%d-p%d' % (M['mid'], vi, ci), variant=vi,
                        nreal=nr, nghost=[0] * len(nr), steps=steps_of(2),
                        periodic=True, q=TICK, e=0))
        jobs.append(dict(module=M, cases=cases))
    # user-defined integrators beyond the universe: 4 and 5 stages
    jobs += hand_modules(chk, pats)
    return jobs


def OP(op, m=0, i=0, nnps=False, num=0, den=1, n=0, form=''):
    return dict(op=op, m=m, i=i, nnps=nnps, num=num, den=den, n=n, form=form)


def MR(loop, py, mv=0, pyw=False, pop='none'):
    return dict(loop=loop, py=py, mv=mv, pyw=pyw, pop=pop)


FORMS = ('kw', 'pos', 'kwonly', 'kwboth')


def with_forms(ops, k0=0):
    """how update_nnps=False is written in the source: keyword, positional
    (i, False), keyword only, both keywords"""
    out, k = [], k0
    for o in ops:
        o = dict(o)
        o['form'] = ''
        if o['op'] == 'accel' and not o['nnps']:
            f = FORMS[k % len(FORMS)]
            k += 1
            o['form'] = 'kw' if (f == 'kwonly' and o['i'] != 0) else f
        out.append(o)
    return out


def has_pop(arrs):
    return any(d['py'] and d.get('pop', 'none') != 'none'
               for a in arrs for d in a['meth'])


def stale_eval(ops, arrs):
    """an evaluation with update_nnps=False while particles have moved since
    the last refresh (cyclically)"""
    def moves(o):
        return o['op'] == 'stage' and any(
            a['meth'][o['m']]['loop'] and a['meth'][o['m']]['mv']
            for a in arrs)
    moved = False
    for o in list(ops) * 2:
        if moves(o):
            moved = True
        elif o['op'] == 'accel':
            if o['nnps']:
                moved = False
            elif moved:
                return True
    return False


def hand_modules(chk, pats):
    """a 5-stage and a 4-stage user-defined integrator (outside the TLC
    universe, still decided by TLC), different steppers per array"""
    five = [OP('stage', 0)]
    fr = [(1, 4), (1, 2), (1, 2), (3, 4), (1, 1)]
    for s in range(1, 6):
        five += [OP('accel', i=(s - 1) % 2, nnps=(s != 3)), OP('stage', s)]
        if s in (2, 5):
            five.append(OP('domain'))
        five.append(OP('post', num=fr[s - 1][0], den=fr[s - 1][1], n=s))
    four = []
    for s in range(1, 5):
        four += [OP('stage', s), OP('post', num=s, den=4, n=s),
                 OP('domain'), OP('accel', i=0, nnps=True)]
    four2 = [OP('accel', i=0, nnps=True), OP('stage', 4), OP('stage', 3),
             OP('post', num=1, den=2, n=7), OP('stage', 1),
             OP('post', num=1, den=4, n=3), OP('stage', 2), OP('stage', 2),
             OP('domain'), OP('accel', i=0, nnps=False)]
    # compute_accelerations(); stage1() [moves]; compute_accelerations();
    # stage2(); update_domain(); do_post_stage(dt, 1)
    four3 = [OP('accel', i=0, nnps=True), OP('stage', 1),
             OP('accel', i=0, nnps=True), OP('stage', 2), OP('domain'),
             OP('post', num=1, den=1, n=1)]
    # update_nnps=False in every way it can be written, after a move
    four4 = [OP('accel', i=0, nnps=True), OP('stage', 1),
             OP('accel', i=0, nnps=False, form='kw'), OP('stage', 2),
             OP('accel', i=0, nnps=False, form='pos'), OP('stage', 3),
             OP('accel', i=0, nnps=False, form='kwonly'), OP('stage', 4),
             OP('accel', i=0, nnps=False, form='kwboth'), OP('domain'),
             OP('post', num=1, den=1, n=4)]
    a5 = [MR(True, False)] + [MR(True, s % 2 == 1, 1 if s == 2 else 0)
                              for s in range(1, 6)]
    b5 = [MR(False, False), MR(True, False), MR(False, True), MR(True, True),
          MR(False, False), MR(True, False, 1)]
    a4 = [MR(False, False)] + [MR(True, s == 4, 1 if s == 1 else 0)
                               for s in range(1, 5)]
    b4 = [MR(False, False), MR(True, True, 0, True), MR(True, False),
          MR(False, True), MR(True, False)]
    jobs = []
    for mid, ne, arrs, variants in (
            ('h5', 2, [a5, b5, a5], [five]),
            ('h4', 1, [a4, b4, a4], [four, four2, four3, four4])):
        M = dict(mid=mid, kind='gen', S=len(arrs[0]) - 1, ne=ne,
                 arrs=[dict(name='abc'[ai], k0=ai + 1, meth=m)
                       for ai, m in enumerate(arrs)],
                 variants=variants, pats=['hand'])
        cases = []
        for vi, ops in enumerate(variants):
            for ci, (nr, ng) in enumerate(
                    [([2, 2, 2], [1, 1, 0]), ([1, 2, 1], [0, 1, 1]),
                     ([2, 0, 2], [1, 0, 1])]):
                cases.append(dict(id='%s-v%d-c%d' % (mid, vi, ci), variant=vi,
                                  nreal=nr, nghost=ng,
                                  steps=steps_of(1 + ci % 3), periodic=False,
                                  q=TICK, e=0))
            if not stale_after_domain(ops):
                cases.append(dict(id='%s-v%d-p' % (mid, vi), variant=vi,
                                  nreal=[2, 1, 1], nghost=[0, 0, 0],
                                  steps=steps_of(2), periodic=True, q=TICK,
                                  e=0))
        jobs.append(dict(module=M, cases=cases))
    if chk.tier == 'quick':
        return jobs[1:]
    return jobs


# ---------------------------------------------------------------------------
# stage 2: shipped Integrator subclasses, op list from the source
# ---------------------------------------------------------------------------
class Uncovered(Exception):
    pass


def find_integrators(src_root):
    """every class deriving (transitively, by name) from Integrator in the
    synchronised copy of /repo/pysph; returns {dotted: (file, ClassDef)}"""
    classes = {}
    root = os.path.join(src_root, 'pysph')
    for d, dn, fn in os.walk(root):
        dn[:] = [x for x in dn if x != '__pycache__']
        for f in sorted(fn):
            if not f.endswith('.py'):
                continue
            p = os.path.join(d, f)
            try:
                with warnings.catch_warnings():
                    warnings.simplefilter('ignore')
                    tree = ast.parse(open(p).read())
            except (SyntaxError, UnicodeDecodeError):
                continue
            mod = os.path.relpath(p, src_root)[:-3].replace(os.sep, '.')
            for node in tree.body:
                if isinstance(node, ast.ClassDef):
                    classes.setdefault(node.name, []).append((mod, node))

    def bases(node):
        out = []
        for b in node.bases:
            if isinstance(b, ast.Name):
                out.append(b.id)
            elif isinstance(b, ast.Attribute):
                out.append(b.attr)
        return out

    known = {'Integrator'}
    changed = True
    while changed:
        changed = False
        for name, defs in classes.items():
            for mod, node in defs:
                if name not in known and any(b in known for b in bases(node)):
                    if mod == 'pysph.sph.integrator' or name != 'Integrator':
                        known.add(name)
                        changed = True
    found = {}
    for name in sorted(known):
        for mod, node in classes.get(name, []):
            if name == 'Integrator' and mod != 'pysph.sph.integrator':
                continue
            if name != 'Integrator' and not any(b in known
                                                for b in bases(node)):
                continue
            found['%s.%s' % (mod, name)] = (mod, node)

    def timestep(node, depth=0):
        for x in node.body:
            if isinstance(x, ast.FunctionDef) and x.name == 'one_timestep':
                return x
        if depth > 5:
            return None
        for b in bases(node):
            for mod, n2 in classes.get(b, []):
                if b in known:
                    r = timestep(n2, depth + 1)
                    if r is not None:
                        return r
        return None

    return dict((k, (mod, node, timestep(node)))
                for k, (mod, node) in found.items())


def parse_timestep(fn):
    """one_timestep(self, t, dt) -> op list.  Only straight-line bodies of
    self.<call>(...) statements are op lists; anything else is reported."""
    ops = []
    exact = True
    for st in fn.body:
        if isinstance(st, ast.Expr) and isinstance(st.value, ast.Constant) \
                and isinstance(st.value.value, str):
            continue                              # docstring
        if isinstance(st, ast.Pass):
            continue
        if not (isinstance(st, ast.Expr) and isinstance(st.value, ast.Call)
                and isinstance(st.value.func, ast.Attribute)
                and isinstance(st.value.func.value, ast.Name)
                and st.value.func.value.id == 'self'):
            raise Uncovered('statement at line %d is not a self.<call>()'
                            % st.lineno)
        call = st.value
        name = call.func.attr
        kw = dict((k.arg, k.value) for k in call.keywords)

        def lit(node):
            try:
                return ast.literal_eval(node)
            except ValueError:
                raise Uncovered('non-literal argument at line %d' % st.lineno)

        if name == 'initialize' and not call.args and not kw:
            ops.append(OP('stage', 0))
        elif name.startswith('stage') and name[5:].isdigit() and \
                not call.args and not kw:
            ops.append(OP('stage', int(name[5:])))
        elif name == 'update_domain' and not call.args and not kw:
            ops.append(OP('domain'))
        elif name == 'compute_accelerations':
            a = [lit(x) for x in call.args]
            idx = a[0] if a else lit(kw['index']) if 'index' in kw else 0
            un = a[1] if len(a) > 1 else \
                lit(kw['update_nnps']) if 'update_nnps' in kw else True
            ops.append(OP('accel', i=int(idx), nnps=bool(un)))
        elif name == 'do_post_stage':
            args = list(call.args)
            sd = args[0] if args else kw.get('stage_dt')
            n = args[1] if len(args) > 1 else kw.get('stage')
            if sd is None or n is None:
                raise Uncovered('do_post_stage arguments at line %d'
                                % st.lineno)

            def ev(dt):
                try:
                    return float(eval(compile(ast.Expression(sd), '<ts>',
                                              'eval'),
                                      {'__builtins__': {}}, {'dt': dt}))
                except Exception as ex:
                    raise Uncovered('stage_dt at line %d: %s' % (st.lineno,
                                                                 ex))
            c = ev(1.0)
            if abs(ev(2.0) - 2 * c) > 1e-15 or abs(ev(0.0)) > 0:
                raise Uncovered('stage_dt at line %d is not c*dt' % st.lineno)
            if c * 4 == int(c * 4):
                num, den = int(c * 4), 4
            else:
                exact = False
                num, den = int(round(c * 1024)), 1024
            ops.append(OP('post', num=num, den=den, n=int(lit(n))))
        else:
            raise Uncovered('call self.%s at line %d' % (name, st.lineno))
    if not ops:
        raise Uncovered('empty one_timestep')
    return ops, exact


def shipped_modules(chk):
    src = chk.env['VERIF_SRC']
    found = find_integrators(src)
    jobs, cover = [], {}
    for ci, dotted in enumerate(sorted(found)):
        mod, node, fn = found[dotted]
        if fn is None:
            cover[dotted] = 'NOT COVERED: no one_timestep found'
            continue
        try:
            ops, exact = parse_timestep(fn)
        except Uncovered as ex:
            cover[dotted] = 'NOT COVERED: %s' % ex
            continue
        if '.tests.' in dotted and chk.tier == 'quick':
            cover[dotted] = 'thorough tier only (test helper class)'
            continue
        jobs.append(shipped_job(chk, 's%d' % ci, dotted, ops, exact, None))
        cover[dotted] = dict(ops=len(ops), exact_times=exact,
                             probe_steppers=True, shipped_steppers=[])
    pairs = STEPPER_PAIRS if chk.tier == 'thorough' else \
        STEPPER_PAIRS[:STEPPER_PAIRS_QUICK]
    for pi, (icls, scls) in enumerate(pairs):
        if icls not in found or not isinstance(cover.get(icls), dict):
            continue
        ops, exact = parse_timestep(found[icls][2])
        jobs.append(shipped_job(chk, 'p%d' % pi, icls, ops, exact, scls))
    return jobs, cover


def shipped_job(chk, mid, dotted, ops, exact, stepper):
    smax = max([o['m'] for o in ops if o['op'] == 'stage'] + [1])
    used = set(o['m'] for o in ops if o['op'] == 'stage')
    last = max(used) if used else 0
    ne = max([o['i'] for o in ops if o['op'] == 'accel'] + [0]) + 1
    a = [MR(m in used, m in used and m >= 1, 1 if m == last and m else 0)
         for m in range(smax + 1)]
    b = [MR(m in used, False, 1 if m == 1 else 0) for m in range(smax + 1)]
    M = dict(mid=mid, kind='shipped', cls=dotted, S=smax, ne=ne, ops=ops,
             arrs=[dict(name='a', k0=1, meth=a), dict(name='b', k0=2, meth=b)],
             variants=[], pats=['shipped'])
    if stepper:
        M['stepper'] = stepper
    else:
        # array c: the same stepper class as a, another parameter
        M['arrs'].append(dict(name='c', k0=3, meth=a))
    na = len(M['arrs'])
    if exact:
        q, e, dt = TICK, 0, 4
    else:
        q, e, dt = TICK / 64.0, 1, 1024
    cases = []
    cfgs = [([2, 2], [1, 1]), ([2, 1], [0, 1]), ([1, 0], [1, 0])]
    if chk.tier == 'thorough':
        cfgs += [([0, 2], [1, 0]), ([1, 1], [0, 0]), ([2, 2], [0, 0])]
    for ci, (nr, ng) in enumerate(cfgs):
        st = [dict(t=2 * dt, dt=dt), dict(t=3 * dt, dt=dt),
              dict(t=4 * dt, dt=dt)][:1 + ci % 3]
        nr, ng = (nr + [2 - ci % 2])[:na], (ng + [ci % 2])[:na]
        cases.append(dict(id='%s-c%d' % (mid, ci), variant=0, nreal=nr,
                          nghost=ng, steps=st, periodic=False, q=q, e=e))
    if not stepper and not stale_after_domain(ops) and \
            any(o['op'] == 'domain' for o in ops):
        cases.append(dict(id='%s-p' % mid, variant=0, nreal=[2, 1, 1][:na],
                          nghost=[0, 0, 0][:na],
                          steps=[dict(t=2 * dt, dt=dt), dict(t=3 * dt, dt=dt)],
                          periodic=True, q=q, e=e))
    return dict(module=M, cases=cases)


# ---------------------------------------------------------------------------
# real code
# ---------------------------------------------------------------------------
def tree_hash(root):
    """must equal c04_driver.tree_hash (hash of the tree under test)"""
    import hashlib
    h = hashlib.sha256()
    for sub in ('sph', 'base'):
        top = os.path.join(root, 'pysph', sub)
        for d, dn, fn in sorted(os.walk(top)):
            dn[:] = sorted(x for x in dn if x not in ('__pycache__', 'build'))
            for f in sorted(fn):
                if f.endswith(('.py', '.mako')):
                    p = os.path.join(d, f)
                    h.update(os.path.relpath(p, root).encode())
                    with open(p, 'rb') as fp:
                        h.update(hashlib.sha256(fp.read()).digest())
    return h.hexdigest()[:20]


def resync(chk):
    """the synchronised copy of the tree is shared by all checks; another
    run may have re-synchronised it (to another tree) in the meantime"""
    try:
        build.ensure()
    except build.BuildError as ex:
        raise MachineryError('build failed: %s' % ex)


def drive_job(chk, job, tag, mutate=None, timeout=900):
    """one driver process per module; a driver that dies costs only the case
    it was working on (recorded as a crash)"""
    sc = chk.scratch
    M = job['module']
    todo = list(job['cases'])
    traces = []
    rnd = 0
    nstale = 0
    while todo:
        fi = os.path.join(sc, '%s-%s-job-%d.json' % (tag, M['mid'], rnd))
        fo = os.path.join(sc, '%s-%s-traces-%d.ndjson' % (tag, M['mid'], rnd))
        with open(fi, 'w') as fp:
            json.dump(dict(module=M, cases=todo), fp)
        env = {'OMP_NUM_THREADS': '1', 'C04_TREE_HASH': chk.tree_hash}
        if mutate:
            env['C04_MUTATE'] = mutate
        try:
            p = chk.run_py('checks/c04_driver.py', [fi, fo], check=False,
                           env_extra=env, timeout=timeout)
            rc, err = p.returncode, (p.stderr or '')[-3000:]
        except Exception as ex:          # timeout
            rc, err = -9, 'timeout: %s' % ex
        got = []
        ready = False
        stale = ended = False
        if os.path.exists(fo):
            with open(fo) as fp:
                for line in fp:
                    try:
                        x = json.loads(line)
                    except ValueError:
                        break
                    if 'setup_error' in x:
                        raise MachineryError(
                            'module %s (%s) could not be set up:\n%s' % (
                                M['mid'], M.get('cls', 'generated'),
                                x['setup_error']))
                    if 'stale_source' in x:
                        stale = True
                        break
                    if 'end' in x:
                        ended = True
                        stale = not x['source_ok']
                        break
                    if 'uncovered' in x:
                        return [dict(uncovered=x['uncovered'], mid=M['mid'])]
                    if 'ready' in x:
                        ready = True
                    else:
                        got.append(x)
        if stale:
            # the shared copy of the tree changed under the driver: nothing
            # recorded in this round is evidence about the tree under test
            nstale += 1
            if nstale > 5:
                raise MachineryError(
                    'the synchronised tree keeps changing under the drivers '
                    '(another run re-synchronises it to a different tree)')
            time.sleep(1.0 + nstale)
            resync(chk)
            continue
        traces += got
        if len(got) == len(todo):
            break
        if not ready and rc >= 0:
            raise MachineryError('driver failed rc=%d for module %s\n%s' % (
                rc, M['mid'], err))
        if not ready and rnd > 0:
            raise MachineryError('driver dies during set-up of module %s '
                                 'rc=%d\n%s' % (M['mid'], rc, err))
        if ready:
            bad = todo[len(got)]
            traces.append(dict(id=bad['id'], crash='driver died rc=%d: %s' % (
                rc, err[-300:])))
            todo = todo[len(got) + 1:]
        rnd += 1
        if rnd > 20:
            raise MachineryError('driver keeps dying on module %s' % M['mid'])
    return traces


def timed(f, *a):
    t0 = time.time()
    r = f(*a)
    return r, round(time.time() - t0, 1)


def drive(chk, jobs, tag, mutate=None, nproc=14):
    with ThreadPoolExecutor(max_workers=nproc) as ex:
        parts = list(ex.map(lambda j: drive_job(chk, j, tag, mutate), jobs))
    return parts


def validate(chk, traces, tag, per_batch=300):
    sc = chk.scratch
    files = []
    for i in range(0, len(traces), per_batch):
        f = os.path.join(sc, '%s-batch-%d.ndjson' % (tag, i // per_batch))
        with open(f, 'w') as fp:
            for t in traces[i:i + per_batch]:
                fp.write(json.dumps(t) + '\n')
        files.append(f)
    try:
        verdicts, st = tlc.validate_batches('TraceIntegrator',
                                            'TraceIntegrator.cfg', files,
                                            parallel=10)
    except tlc.TLCError as ex:
        raise MachineryError(str(ex))
    if len(verdicts) != len(traces):
        raise MachineryError('verdict count %d != traces %d' % (
            len(verdicts), len(traces)))
    return verdicts, st


def case_key(t):
    return json.dumps([t['ops'], t['arrs'], t['steps'], t['periodic'],
                       [len(a) for a in t['init']]], sort_keys=True)


def nontrivial(t):
    visited = any(e['ev'] == 'visit' for e in t['log']) or not t['vis']
    return visited and any(o['op'] == 'accel' for o in t['ops']) and \
        len(t['log']) >= 5


def classify(chk, jobs_by_mid, traces):
    """dispatch on the verdict records; returns (#drift, unexplained)"""
    good = [t for t in traces if 'log' in t and 'error' not in t]
    bad = [t for t in traces if 'log' not in t or 'error' in t]
    unexplained = []
    for t in bad:
        if 'skipped' in t:
            raise MachineryError('case %s left the exact lattice: %s' % (
                t['id'], t['skipped']))
        what = t.get('crash') or t.get('error')
        unexplained.append((t, None, 'step() did not return normally: %s'
                            % what))
    verdicts, st = validate(chk, good, 'v') if good else ([], dict(
        generated=0, distinct=0))
    by_id = dict((t['id'], t) for t in good)
    ndrift = 0
    for r in verdicts:
        v = r['v']
        t = by_id[v['id']]
        if not v['wf']:
            raise MachineryError('trace %s is not well formed' % v['id'])
        if not v['done']:
            raise MachineryError('machine did not finish on %s' % v['id'])
        if not v['failed']:
            if not v['samelog']:
                ndrift += 1
                chk.note_drift('Integrator', 'case %s (%s): the real log '
                               'satisfies the property but differs from the '
                               "machine's" % (v['id'], t['mid']))
            continue
        if r['explained'] and chk.known(KNOWN_ATTR):
            chk.known_hit(KNOWN_ATTR)
            continue
        unexplained.append((t, r, 'clauses %s fail (diff %s)' % (
            sorted(v['failed']), json.dumps(v['diff'][:6]))))
    return verdicts, st, ndrift, unexplained


def find_case(jobs, tid):
    for j in jobs:
        for c in j['cases']:
            if c['id'] == tid:
                return j['module'], c
    return None, None


# ---------------------------------------------------------------------------
# selftest
# ---------------------------------------------------------------------------
def selftest(chk, jobs):
    """(a) the verdict is bound to the recorded values; (b) a mutated
    integrator is reported.  Writes no evidence and no replay."""
    gen = [j for j in jobs if j['module']['kind'] == 'gen'
           and j['module']['pats'] == ['L', 'P', 'L']][:1]
    ship = [j for j in jobs if j['module'].get('cls', '').endswith(
        '.EPECIntegrator') and not j['module'].get('stepper')][:1]
    base = [t for p in drive(chk, gen + ship, 'sb') for t in p]
    verdicts, st, nd, unexpl = classify(chk, None, base)
    if unexpl:
        raise MachineryError('selftest: unmutated runs fail: %s' % unexpl[0][2])
    t0 = next(t for t in base if t['vis'] and nontrivial(t)
              and len(t['init'][0]) > t['arrs'][0]['nreal'] > 0)
    corrupt = []

    def variant(name, f):
        c = json.loads(json.dumps(t0))
        c['id'] = name
        f(c)
        corrupt.append(c)

    def ev_index(c, kind):
        return next(i for i, e in enumerate(c['log']) if e['ev'] == kind)
    variant('time-of-post+1', lambda c: c['log'][ev_index(c, 'post')].update(
        t=c['log'][ev_index(c, 'post')]['t'] + 1))
    variant('drop-visit', lambda c: c['log'].pop(ev_index(c, 'visit')))
    variant('visit-on-ghost', lambda c: c['log'][ev_index(c, 'visit')].update(
        i=c['arrs'][0]['nreal']))
    variant('accel-set+1', lambda c: c['log'][ev_index(c, 'accel')].update(
        i=c['log'][ev_index(c, 'accel')]['i'] + 1))
    variant('drop-refresh', lambda c: c['log'].pop(ev_index(c, 'nnps')))
    variant('post-twice', lambda c: c['log'].insert(
        ev_index(c, 'post'), dict(c['log'][ev_index(c, 'post')])))

    def swap(c):
        g = [i for i, e in enumerate(c['log'])
             if e['ev'] in ('accel', 'domain', 'post')]
        i, j = next((i, j) for i, j in zip(g, g[1:])
                    if c['log'][i]['ev'] != c['log'][j]['ev'])
        c['log'][i], c['log'][j] = c['log'][j], c['log'][i]
    variant('swap-two-events', swap)
    variant('final-s+1', lambda c: c['fin'][0][0].update(
        s=c['fin'][0][0]['s'] + 1))
    variant('ghost-visited', lambda c: c['fin'][0][-1].update(
        v=c['fin'][0][-1]['v'] + 1))
    vs, _ = validate(chk, [t0] + corrupt, 'sc')
    if vs[0]['v']['failed']:
        raise MachineryError('selftest: base trace fails')
    for c, r in zip(corrupt, vs[1:]):
        print('SELFTEST corrupt %-16s -> failed=%s' % (
            c['id'], sorted(r['v']['failed'])))
        if not r['v']['failed']:
            raise MachineryError('selftest: corrupted record %r accepted'
                                 % c['id'])
    popj = [j for j in jobs if j['module']['kind'] == 'gen'
            and j['module']['pats'] == ['G', 'A']][:1]
    muts = [('swap', gen), ('ghosts', gen), ('stale_t', gen + ship),
            ('norefresh', gen + ship), ('swapsrc', ship),
            ('sharestepper', gen + ship), ('lazyrefresh', gen),
            ('countfirst', popj), ('alwaysrefresh', gen)]
    with ThreadPoolExecutor(max_workers=len(muts)) as ex:
        res = list(ex.map(lambda m: (m[0], [t for p in drive(
            chk, m[1], 'sm-' + m[0], mutate=m[0], nproc=2) for t in p]),
            muts))
    for name, traces in res:
        for t in traces:
            t['id'] = name + ':' + t['id']
        verdicts, st, nd, unexpl = classify(chk, None, traces)
        for t, r, what in unexpl[:2]:
            print('SELFTEST caught: VIOLATION property=C04 mutation=%s case '
                  '%s: %s' % (name, t['id'], what))
        print('C04 selftest: mutation %r, %d runs, %d reported as violations'
              % (name, len(traces), len(unexpl)))
        if not unexpl:
            raise MachineryError('selftest: mutation %r was not caught' % name)
    sys.exit(0)


# ---------------------------------------------------------------------------
def run():
    chk = Check('C04', 'model_checking')
    try:
        check(chk)
    finally:
        if not os.environ.get('VERIF_KEEP_SCRATCH'):
            shutil.rmtree(chk.scratch, ignore_errors=True)


def check(chk):
    rng = random.Random(chk.seed)
    phase = {}
    t0 = time.time()
    chk.env                      # synchronise the tree under test
    chk.tree_hash = tree_hash(build.REPO)
    info = dict(states=0, transitions=0, universes=[], sensitivity={})
    cover = {}
    if chk.args.replay:
        obj = json.load(open(chk.args.replay))['case']
        jobs = [dict(module=obj['module'], cases=[obj['case']])]
        parts = drive(chk, jobs, 't')
    else:
        progs, pats = emit_programs(chk)
        jobs = gen_modules(chk, progs, pats, rng)
        sj, cover = shipped_modules(chk)
        jobs += sj
        phase['emit_and_plan'] = round(time.time() - t0, 1)
        if chk.args.selftest:
            return selftest(chk, jobs)
        t0 = time.time()
        # the design runs and the real code run side by side
        with ThreadPoolExecutor(max_workers=2) as ex:
            fd = ex.submit(design, chk)
            fr = ex.submit(timed, drive, chk, jobs, 't')
            info = fd.result()
            phase['design_tlc'] = info.pop('wall')
            parts, phase['real_code'] = fr.result()
        info['programs_in_universe'] = len(progs)
    t0 = time.time()
    traces = []
    not_covered = {}
    for j, p in zip(list(jobs), parts):
        if len(p) == 1 and 'uncovered' in p[0]:
            M = j['module']
            not_covered['%s + %s' % (M.get('cls'), M.get('stepper'))] = \
                'NOT COVERED: ' + p[0]['uncovered']
            jobs.remove(j)
        else:
            traces += p
    ncases = sum(len(j['cases']) for j in jobs)
    if len(traces) != ncases:
        raise MachineryError('traces %d != cases %d' % (len(traces), ncases))
    verdicts, st, ndrift, unexpl = classify(chk, None, traces)
    for t, r, what in unexpl:
        M, c = find_case(jobs, t['id'])
        chk.violation('%s case %s: %s' % (
            M.get('cls', 'generated integrator'), t['id'], what),
            dict(module=M, case=c, trace=t, verdict=r))
    phase['trace_validation'] = round(time.time() - t0, 1)
    good = [t for t in traces if 'log' in t]
    keys = set(case_key(t) for t in good if nontrivial(t))
    by_v = dict((r['v']['id'], r) for r in verdicts)
    # coverage of shipped classes (no silent skip)
    for j in jobs:
        M = j['module']
        if M['kind'] == 'shipped' and isinstance(cover.get(M['cls']), dict):
            c = cover[M['cls']]
            n = sum(1 for x in j['cases'] if x['id'] in by_v)
            if M.get('stepper'):
                c['shipped_steppers'].append(M['stepper'])
            c['runs'] = c.get('runs', 0) + n
    smp = next((t for t in good if nontrivial(t) and t['vis']
                and t['id'] in by_v and not by_v[t['id']]['v']['failed']
                and len(t['arrs']) > 1), good[0] if good else None)
    samples = []
    if smp:
        samples.append(dict(
            module=smp['mid'], ops=smp['ops'], steps=smp['steps'],
            arrays=[dict(name=a['name'], nreal=a['nreal']) for a in
                    smp['arrs']], init=smp['init'], log=smp['log'][:14],
            fin=smp['fin'], verdict=by_v[smp['id']]))
    badv = next((r for r in verdicts if r['v']['failed']), None)
    if badv is not None:
        samples.append(dict(failing=badv))
    kinds = {}
    for t in good:
        k = 'shipped+steppers' if not t['vis'] else (
            'shipped' if t['mid'][0] == 's' else 'generated')
        kinds[k] = kinds.get(k, 0) + 1
    chk.cov.update(dict(
        states=info['states'] or st['distinct'],
        transitions=info['transitions'] or st['generated'],
        design_model='IntegratorMC.tla; universes: %s' % json.dumps(
            info.get('universes', [])),
        design_result='every clause of the property layer (Order, Accel, '
                      'Refresh, Domain, Post, NoGhost, Stages, Interleave) '
                      'and the data invariants hold on the complete log of '
                      'the op-list machine for every case of the universe; '
                      'with the machine mutated TLC finds a violating case '
                      '(sensitivity)',
        sensitivity=info.get('sensitivity', {}),
        programs_in_universe=info.get('programs_in_universe', 0),
        compiled_modules=len(jobs),
        traces_validated_against_impl=len(verdicts),
        trace_states=st['distinct'],
        evaluations=len(traces),
        runs_by_kind=kinds,
        periodic_runs=sum(1 for t in good if t['periodic']),
        tainted_runs=sum(1 for r in verdicts if r['v']['tainted']),
        failing_cases=sum(1 for r in verdicts if r['v']['failed']),
        mechanism_drift=ndrift,
        shipped_integrators=cover,
        shipped_stepper_pairs_not_covered=not_covered,
        phase_s=phase,
        distinct_nontrivial=len(keys),
        rule='a case is one (op list of one_timestep, steppers per array, '
             'particle counts, step(t, dt) calls, periodic or not) run '
             'through the real compiled integrator; distinct by those '
             'inputs; non-trivial when some compiled stage method visits a '
             'particle, the program evaluates accelerations and the log has '
             '>= 5 events',
        exhaustive=False,
        samples=samples,
    ))
    chk.assumptions += [
        'probe steppers / equations are written in pysph\'s DSL and compiled '
        'by the unmodified generator; data are small integers (1 lattice '
        'unit = 1.0, h = 0.75, 1 tick = 2^-8) so double arithmetic is exact',
        'compiled loops are observed through a per-array logging probe; the '
        'order of events of different arrays between two Python-level events '
        'is not observable and not demanded',
        'an evaluation with update_nnps=False after particles moved is not '
        'determined by the statement: the affected values are tainted in the '
        'machine and not compared',
        'which particles get a periodic image is taken from the recorded run '
        '(C07 decides it); C04 demands that every ghost is a fresh copy',
        'shipped integrators with non-dyadic stage fractions (1/3, PEFRL): '
        'times quantised to dt/1024 with slack 1',
        'shipped steppers: event log and ghost-untouched only (no visit '
        'probes); serial (OMP_NUM_THREADS=1)',
        'the real runs sample the universe (modules x variants x particle '
        'configurations chosen by --seed); the design run is exhaustive',
    ]
    chk.finish()


if __name__ == '__main__':
    main(run)
