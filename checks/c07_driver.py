"""Drives the real DomainManager (through LinkedListNNPS.update_domain) over
scenarios on an integer lattice and records, per round and array, the real
particles before the update, all rows after it and after a second update.

usage: c07_driver.py SCENARIOS.ndjson OUT.ndjson
"""
import json
import os
import sys
import traceback

import numpy as np

FIELDS = ('x', 'y', 'z', 'h', 'u', 'v', 'w', 'q')


def build(sc):
    from pysph.base.utils import get_particle_array
    from pysph.base.nnps import DomainManager, LinkedListNNPS
    u, o = sc['unit'], sc['origin']
    pas = []
    for k, a in enumerate(sc['arrays']):
        ps = a['particles']

        def col(f, scale=u, off=0.0):
            return off + scale * np.array([p[f] for p in ps], dtype=float)
        pa = get_particle_array(
            name='a%d' % k, x=col('x', off=o), y=col('y', off=o),
            z=col('z', off=o), h=col('h'), u=col('u', 1.0), v=col('v', 1.0),
            w=col('w', 1.0), q=col('q', 1.0))
        ids = np.array([p['id'] for p in ps])
        pa.add_property('ident', type='long', data=ids)
        # typed and strided properties present from the start
        pa.add_property('ei', type='int', data=5 * ids + 2)
        pa.add_property('es', type='float', stride=2, data=np.repeat(
            ids.astype(float), 2) + np.tile([.25, .5], len(ids)))
        pas.append(pa)
    c = sc['cfg']
    lo = [o + u * v for v in c['lo']]
    hi = [o + u * v for v in c['hi']]
    props = None
    if not c['copyq']:
        props = ['x', 'y', 'z', 'h', 'u', 'v', 'w', 'ident', 'tag', 'm', 'rho']
    dm = DomainManager(
        xmin=lo[0], xmax=hi[0], ymin=lo[1], ymax=hi[1], zmin=lo[2],
        zmax=hi[2],
        periodic_in_x=c['per'][0], periodic_in_y=c['per'][1],
        periodic_in_z=c['per'][2], mirror_in_x=c['mir'][0],
        mirror_in_y=c['mir'][1], mirror_in_z=c['mir'][2],
        n_layers=float(sc['n_layers']), props=props)
    nn = LinkedListNNPS(dim=sc['dim'], particles=pas, domain=dm,
                        radius_scale=float(sc['rs']))
    return pas, nn


def derived(i):
    """Values of the typed / strided extra properties of particle i."""
    return dict(ei=5 * i + 2, es0=4 * i + 1, es1=4 * i + 2, li=3 * i + 1,
                lu=2 * i + 5, ls0=8 * i + 1, ls1=8 * i + 3)


def add_late(pas):
    """Properties added after the first update (the domain manager's cached
    ghost arrays have to follow): int, unsigned int and strided double."""
    for pa in pas:
        ids = np.array(pa.get('ident', only_real_particles=False))
        pa.add_property('li', type='int', data=3 * ids + 1)
        pa.add_property('lu', type='unsigned int', data=2 * ids + 5)
        pa.add_property('ls', stride=2, data=np.repeat(
            ids.astype(float), 2) + np.tile([.125, .375], len(ids)))


def rows(pa, sc, only_real=False):
    u, o = sc['unit'], sc['origin']
    n = pa.num_real_particles if only_real else pa.get_number_of_particles()
    g = {f: pa.get(f, only_real_particles=False) for f in FIELDS}
    ident = pa.get('ident', only_real_particles=False)
    tag = pa.get('tag', only_real_particles=False)
    ex = {f: pa.get(f, only_real_particles=False)
          for f in ('ei', 'es', 'li', 'lu', 'ls') if f in pa.properties}
    out = []
    for r in range(n):
        d = dict(id=int(ident[r]), tag=int(tag[r]))
        for f in ('x', 'y', 'z'):
            d[f] = int(round((g[f][r] - o) / u))
        d['h'] = int(round(g['h'][r] / u))
        for f in ('u', 'v', 'w', 'q'):
            d[f] = int(round(g[f][r]))
        d['ei'] = int(ex['ei'][r])
        d['es0'] = int(round(4 * ex['es'][2 * r]))
        d['es1'] = int(round(4 * ex['es'][2 * r + 1]))
        if 'li' in ex:
            d['li'] = int(ex['li'][r])
            d['lu'] = int(ex['lu'][r])
            d['ls0'] = int(round(8 * ex['ls'][2 * r]))
            d['ls1'] = int(round(8 * ex['ls'][2 * r + 1]))
        else:
            dd = derived(d['id'])
            d.update(li=dd['li'], lu=dd['lu'], ls0=dd['ls0'], ls1=dd['ls1'])
        out.append(d)
    return out


def run(sc):
    pas, nn = build(sc)
    u, o = sc['unit'], sc['origin']
    rounds = []
    # round 1: the constructor performed the first update
    befores = [[dict(p, tag=0, **derived(p['id'])) for p in a['particles']]
               for a in sc['arrays']]
    for rnd in range(len(sc['moves']) + 1):
        if rnd > 0:
            befores = []
            for k, pa in enumerate(pas):
                ident = pa.get('ident', only_real_particles=False)
                tag = pa.get('tag', only_real_particles=False)
                for (ak, pid, dx, dy, dz) in sc['moves'][rnd - 1]:
                    if ak != k:
                        continue
                    for r in range(len(ident)):
                        if ident[r] == pid and tag[r] == 0:
                            pa.x[r] += u * dx
                            pa.y[r] += u * dy
                            pa.z[r] += u * dz
                befores.append(rows(pa, sc, only_real=True))
            nn.update_domain()
        after = [rows(pa, sc) for pa in pas]
        if rnd == 0:
            add_late(pas)
        nn.update_domain()
        again = [rows(pa, sc) for pa in pas]
        rounds.append([dict(before=befores[k], after=after[k], again=again[k])
                       for k in range(len(pas))])
    return rounds


def main():
    import pysph.base.utils          # noqa: F401 (children inherit the imports)
    import pysph.base.nnps           # noqa: F401
    scens = [json.loads(l) for l in open(sys.argv[1])]
    with open(sys.argv[2], 'w') as fo:
        for sc in scens:
            r, w = os.pipe()
            pid = os.fork()
            if pid == 0:
                os.close(r)
                import resource, signal
                resource.setrlimit(resource.RLIMIT_AS, (6 << 30, 6 << 30))
                signal.alarm(600)
                try:
                    rec = dict(id=sc['id'], cfg=sc['cfg'], rounds=run(sc))
                except Exception as ex:
                    rec = dict(id=sc['id'], cfg=sc['cfg'],
                               error='%s: %s' % (type(ex).__name__, ex),
                               tb=traceback.format_exc()[-500:])
                os.write(w, (json.dumps(rec) + '\n').encode())
                os._exit(0)
            os.close(w)
            data = b''
            while True:
                b = os.read(r, 1 << 16)
                if not b:
                    break
                data += b
            os.close(r)
            _, st = os.waitpid(pid, 0)
            if os.WIFSIGNALED(st) or not data.endswith(b'\n'):
                fo.write(json.dumps(dict(id=sc['id'], cfg=sc['cfg'],
                                         crash='signal')) + '\n')
            else:
                fo.write(data.decode())


if __name__ == '__main__':
    main()
