"""C02 driver (runs under the build environment).

usage: c02_driver.py MODE JOBS.ndjson OUT.ndjson WORKDIR

MODE probe   : stage 1.  A job is one probe module (IR of EvalData.tla, see
               checks/c02_probes.py) with many lattice data sets.  The module
               is rendered as Python source, compiled by the real
               AccelerationEval + SPHCompiler and run with LinkedListNNPS;
               the same Equation classes are executed by mbv/refexec.py on a
               second copy of the arrays.  One TLC case per data set.
MODE order   : the reference executor runs C03's logging probes (pure Python,
               nothing compiled) on random group trees; its own event log is
               written in C03's trace format for TraceAccelEval.tla.
MODE classes : stage 2.  A job is a set of shipped Equation classes sharing
               one compiled module (one group per class, switched on one at a
               time by the group's condition), a kernel class and a list of
               (dim, seed) data sets.

Every job runs in a forked child (RLIMIT_AS 8 GB, alarm); a crash is recorded
for that job only.
"""
import importlib
import json
import math
import os
import sys
import traceback
from fractions import Fraction

import numpy as np

HERE = os.path.dirname(os.path.abspath(__file__))
sys.path.insert(0, HERE)
sys.path.insert(0, os.path.dirname(HERE))

SENTINEL = -2147483647


# ---------------------------------------------------------------------------
# common
# ---------------------------------------------------------------------------
def forked(jobs, out, fn, timeout=1500):
    import resource
    import signal
    with open(out, 'w') as fo:
        for job in jobs:
            r, w = os.pipe()
            pid = os.fork()
            if pid == 0:
                os.close(r)
                resource.setrlimit(resource.RLIMIT_AS, (8 << 30, 8 << 30))
                signal.alarm(timeout)
                try:
                    recs = fn(job)
                except Exception as ex:
                    recs = [dict(id='%s/0' % job['jid'], kind=job['kind'],
                                 jid=job['jid'],
                                 error='%s: %s' % (type(ex).__name__, ex),
                                 tb=traceback.format_exc()[-3000:])]
                with os.fdopen(w, 'w') as wf:
                    for rec in recs:
                        wf.write(json.dumps(rec) + '\n')
                os._exit(0)
            os.close(w)
            with os.fdopen(r) as rf:
                data = rf.read()
            _, st = os.waitpid(pid, 0)
            if os.WIFSIGNALED(st) or not data.endswith('\n'):
                sig = os.WTERMSIG(st) if os.WIFSIGNALED(st) else 0
                # keep what the child managed to write (complete lines)
                lines = data.split('\n')[:-1]
                for l in lines:
                    fo.write(l + '\n')
                fo.write(json.dumps(dict(
                    id='%s/crash' % job['jid'], kind=job['kind'],
                    jid=job['jid'], crash='signal %d' % sig)) + '\n')
            else:
                fo.write(data)
            fo.flush()


def import_source(src, workdir, name):
    path = os.path.join(workdir, name + '.py')
    with open(path, 'w') as fp:
        fp.write(src)
    if workdir not in sys.path:
        sys.path.insert(0, workdir)
    importlib.invalidate_caches()
    return importlib.import_module(name)


def reset_group_counter():
    """Groups without an explicit name (the ones AccelerationEval creates
    internally) are numbered by a process-wide counter and the number ends
    up in the generated source (profiling labels), i.e. in the cache key of
    the compiled module.  Restart the numbering before every build so that
    equal programs give equal sources."""
    import pysph.sph.equation as E
    E.group_counter = E._counter()


def symbol_table():
    """deps / arrays of every code block of the table the code generator
    really uses (Group.pre_comp = precomputed_symbols())."""
    from pysph.sph.equation import Group
    pre = Group.pre_comp
    tab = {}
    for n, cb in pre.items():
        tab[n] = dict(deps=sorted(x for x in cb.symbols
                                  if x in pre and x != n),
                      arrs=sorted(set(cb.src_arrays) | set(cb.dest_arrays)))
    return tab


# ---------------------------------------------------------------------------
# stage 1: probe modules
# ---------------------------------------------------------------------------
def make_arrays(spec, data, suffix=''):
    from pysph.base.utils import get_particle_array
    import c02_probes as P
    pas = []
    for i, a in enumerate(data['arr']):
        n = a['nall']
        pa = get_particle_array(name='a%d' % i, x=np.zeros(n))
        pa.add_property('ik', type='int')
        pa.add_property('jk', type='int')
        for nm, (ty, st) in sorted(spec['slots'].items()):
            pa.add_property(nm, type=P.PTYPE[ty], stride=st)
        for nm, st in sorted(spec['rats'].items()):
            pa.add_property(nm, stride=st)
        for nm, ln in sorted(spec['consts'].items()):
            pa.add_constant(nm, [0.0] * ln)
        pa.add_constant('stv', [0.0])
        pa.add_constant('spv', [0.0])
        pas.append(pa)
    return pas


def load_data(pas, spec, data):
    for pa, a in zip(pas, data['arr']):
        n = a['nall']
        if pa.get_number_of_particles() != n:
            pa.resize(n)
        for nm, vals in a['p'].items():
            arr = pa.get_carray(nm).get_npy_array()
            if nm in spec['rats']:
                arr[:] = [Fraction(v[0], v[1]) for v in vals]
            else:
                arr[:] = vals
        for nm in ('p', 'au', 'av', 'aw'):
            pa.get_carray(nm).get_npy_array()[:] = 0.0
        tag = pa.get_carray('tag').get_npy_array()
        tag[:a['nreal']] = 0
        tag[a['nreal']:] = 2
        pa.align_particles()
        for nm, vals in a['c'].items():
            pa.get_carray(nm).get_npy_array()[:] = vals
        pa.stv[0] = a['stv']
        pa.spv[0] = a['spv']


def read_state(pas, spec, data):
    """The recorded state in the layout of `arr`; returns (state, raw)."""
    out = []
    raw = []
    for pa, a in zip(pas, data['arr']):
        p, c, err = {}, {}, {}
        for nm in a['p']:
            arr = pa.get_carray(nm).get_npy_array()
            raw.append(np.array(arr, dtype=float))
            if nm in spec['rats']:
                vals, es = [], []
                for v in arr:
                    v = float(v)
                    if not math.isfinite(v):
                        vals.append([SENTINEL, 1])
                        es.append(0)
                        continue
                    f = Fraction(v).limit_denominator(1000)
                    # distance in ulp, of the value or of 1.0 if that is
                    # larger: a sum of non-dyadic rationals that cancels
                    # exactly leaves a rounding residue (1e-17) whose own
                    # ulp says nothing about the size of the terms
                    e = abs(Fraction(v) - f) / Fraction(
                        max(math.ulp(v), math.ulp(1.0)))
                    vals.append([f.numerator, f.denominator])
                    es.append(int(min(math.ceil(e), 10 ** 9)))
                p[nm] = vals
                err[nm] = es
            else:
                p[nm] = [int(v) if (math.isfinite(v) and v == int(v)
                                    and abs(v) < 2 ** 31 - 8) else SENTINEL
                         for v in (float(u) for u in arr)]
        for nm in a['c']:
            arr = pa.get_carray(nm).get_npy_array()
            raw.append(np.array(arr, dtype=float))
            c[nm] = [int(v) if (math.isfinite(v) and v == int(v)
                                and abs(v) < 2 ** 31 - 8) else SENTINEL
                     for v in (float(u) for u in arr)]
        out.append(dict(p=p, c=c, err=err))
    return out, raw


def build_groups(spec, mod):
    """Real Group / Equation objects of a probe program, with id maps."""
    from pysph.sph.equation import Group
    eq_ids, group_ids = {}, {}
    groups = []
    for g in spec['prog']:
        eqs = []
        for e in g['eqs']:
            at = spec['body'][str(e['eid'])]['attrs']
            o = getattr(mod, 'Pq%d' % e['eid'])(
                'a%d' % e['dest'], ['a%d' % s for s in e['srcs']],
                ca=float(at['ca']), ci=int(at['ci']), cj=int(at.get('cj', 1)),
                ni=int(at.get('ni', -1)), nj=int(at.get('nj', -3)),
                bi=2 ** int(at.get('be', 0)),
                cv=[float(v) for v in at['cv']])
            eq_ids[id(o)] = e['eid']
            eqs.append(o)
        # (an explicit name: the default one comes from a global counter and
        # would change the generated source, hence the cache key, every time)
        kw = dict(real=bool(g['real']), update_nnps=bool(g['upd']),
                  name='g%d' % g['gid'])
        kw['start_idx'] = 'stv' if g['sprop'] else g['start']
        if g['pprop']:
            kw['stop_idx'] = 'spv'
        elif g['stop'] >= 0:
            kw['stop_idx'] = g['stop']
        if g['iterate']:
            kw.update(iterate=True, max_iterations=g['maxit'],
                      min_iterations=g['minit'])
        G = Group(equations=eqs, **kw)
        group_ids[id(G)] = g['gid']
        groups.append(G)
    return groups, eq_ids, group_ids


def mutate_hij():
    """Selftest, in this process only: HIJ computed from d_h twice."""
    import pysph.sph.equation as E
    pre = E.Group.pre_comp
    pre.HIJ = E.BasicCodeBlock(code="HIJ = 0.5*(d_h[d_idx] + d_h[d_idx])",
                               HIJ=0.0)


def run_probe(job):
    import c02_probes as P
    from c02_kernel import ProbeKernel
    from mbv.refexec import RefExec
    from pysph.sph.acceleration_eval import AccelerationEval
    from pysph.sph.sph_compiler import SPHCompiler
    from pysph.base.nnps import LinkedListNNPS
    spec = job['spec']
    workdir = job['workdir']
    if job.get('mutate') == 'hij':
        mutate_hij()
    src = P.Render(spec, swap_ds=job.get('mutate') == 'swap').source()
    mod = import_source(src, workdir, 'c02p_%s' % spec['mid'])
    static = P.static_part(spec)
    symtab = symbol_table()
    runs = job['runs']
    pas_r = make_arrays(spec, runs[0])
    compiled = {}
    out = []
    for r in runs:
        key = (r['kern']['dim'], r['kern']['ka'])
        if key not in compiled:
            # the kernel's attributes travel through **kernel.__dict__
            k = ProbeKernel(dim=key[0], ka=key[1])
            reset_group_counter()
            groups, _, _ = build_groups(spec, mod)
            pas0 = make_arrays(spec, runs[0])
            ae = AccelerationEval(pas0, groups, k)
            SPHCompiler(ae, None).compile()
            order = []
            for mg in ae.mega_groups:
                for dest, (nosrc, sources, alle) in mg.data.items():
                    for s, eg in sources.items():
                        req = set()
                        for e in eg.equations:
                            if hasattr(e, 'loop'):
                                req.update(a for a in
                                           e.loop.__code__.co_varnames[
                                               :e.loop.__code__.co_argcount]
                                           if a in symtab)
                        order.append(dict(req=sorted(req),
                                          order=list(eg.precomputed.keys())))
            compiled[key] = [ae, k, order, pas0]
        ae, k, order, pas_c = compiled[key]
        # One compiled evaluator serves several data sets through both
        # documented routes: the arrays it is bound to are changed in place
        # (even runs), or fresh ParticleArray objects are bound with
        # update_particle_arrays (odd runs; the SPHEvaluator / Interpolator
        # route).  After a rebind the replaced arrays must stay untouched.
        route = 'rebind' if r['rid'] % 2 else 'inplace'
        old = None
        if route == 'rebind':
            old = pas_c
            pas_c = make_arrays(spec, r)
            load_data(pas_c, spec, r)
            ae.update_particle_arrays(pas_c)
            compiled[key][3] = pas_c
            old_before = [np.array(pa.get_carray(nm).get_npy_array(),
                                   dtype=float)
                          for pa in old
                          for nm in sorted(list(pa.properties) +
                                           list(pa.constants))]
        else:
            load_data(pas_c, spec, r)
        nn = LinkedListNNPS(dim=r['dim'], particles=pas_c,
                            radius_scale=k.radius_scale)
        ae.set_nnps(nn)
        ae.compute(float(r['t']), float(r['dt']))
        oldtouched = 0
        if old is not None:
            old_after = [np.array(pa.get_carray(nm).get_npy_array(),
                                  dtype=float)
                         for pa in old
                         for nm in sorted(list(pa.properties) +
                                          list(pa.constants))]
            oldtouched = sum(
                int(np.sum(~((a == b) | (np.isnan(a) & np.isnan(b)))))
                if a.shape == b.shape else int(max(a.size, b.size))
                for a, b in zip(old_before, old_after))
        impl, raw_c = read_state(pas_c, spec, r)
        # reference executor, fresh equation objects, second copy of the data
        load_data(pas_r, spec, r)
        groups, eq_ids, group_ids = build_groups(spec, mod)
        nn2 = LinkedListNNPS(dim=r['dim'], particles=pas_r,
                             radius_scale=k.radius_scale)
        rx = RefExec(pas_r, groups, ProbeKernel(dim=key[0], ka=key[1]), nn2,
                     eq_ids=eq_ids, group_ids=group_ids)
        rx.compute(float(r['t']), float(r['dt']))
        ref, raw_r = read_state(pas_r, spec, r)
        ratbits = sum(int(np.sum(a != b)) for a, b in zip(raw_c, raw_r))
        rec = dict(id='%s/%d' % (spec['mid'], r['rid']), kind='probe',
                   jid=job['jid'], dim=r['dim'], t=r['t'], dt=r['dt'],
                   kern=r['kern'], env=r['env'], arr=r['arr'], impl=impl,
                   ref=ref, reflog=rx.events(), symtab=symtab,
                   symorder=order, ratbits=ratbits, route=route,
                   oldtouched=oldtouched)
        rec.update(static)
        out.append(rec)
    return out


# ---------------------------------------------------------------------------
# refexec on C03's logging probes (order binding, nothing compiled)
# ---------------------------------------------------------------------------
def run_order(job):
    import c03_driver as C3
    from mbv.refexec import RefExec
    from pysph.base.utils import get_particle_array
    from pysph.base.kernels import CubicSpline
    from pysph.sph.equation import Group
    from pysph.base.nnps import LinkedListNNPS
    p = job['prog']
    prog = p['prog']
    mod = C3.write_module(prog, job['workdir'], 'c02o_%s' % p['pid'])
    out = []
    for r in p['runs']:
        pas = []
        for i, a in enumerate(r['arr']):
            n = a['nall']
            pa = get_particle_array(name='a%d' % i,
                                    x=np.array(a['pos'], dtype=float),
                                    h=np.ones(n) * 0.75)
            # the probes' own logging goes to scratch buffers; the log that
            # is validated is the executor's
            pa.add_constant('log', np.zeros(C3.W * C3.LOGN))
            pa.add_constant('cnt', [0.0])
            pa.add_constant('aid', [float(i)])
            pa.add_constant('stv', [float(a['stv'])])
            pa.add_constant('spv', [float(a['spv'])])
            tag = pa.get_carray('tag').get_npy_array()
            tag[a['nreal']:] = 2
            pa.align_particles()
            pas.append(pa)
        for pa in pas[1:]:
            pa.constants['log'] = pas[0].constants['log']
            pa.constants['cnt'] = pas[0].constants['cnt']
        ncond = {}
        eq_ids, group_ids, objs = {}, {}, {}

        def mk_cond(gid):
            def cond(t, dt):
                k = ncond.get(gid, 0)
                ncond[gid] = k + 1
                return bool(r['env']['cond'][str(gid)][k])
            return cond

        def mk_eq(e):
            cls = getattr(mod, 'Pm%d' % C3.mask_of(e['hooks']))
            o = cls('a%d' % e['dest'], ['a%d' % s for s in e['srcs']] or None,
                    float(e['eid']), r['env']['conv'][str(e['eid'])])
            eq_ids[id(o)] = e['eid']
            objs[e['eid']] = o
            return o

        def mk_group(g):
            kw = dict(real=bool(g['real']), update_nnps=bool(g['upd']))
            kw['start_idx'] = 'stv' if g['sprop'] else g['start']
            if g['pprop']:
                kw['stop_idx'] = 'spv'
            elif g['stop'] >= 0:
                kw['stop_idx'] = g['stop']
            if g.get('iterate'):
                kw.update(iterate=True, max_iterations=g['maxit'],
                          min_iterations=g['minit'])
            if g['haspre']:
                kw['pre'] = lambda: None
            if g['haspost']:
                kw['post'] = lambda: None
            if g['hascond']:
                kw['condition'] = mk_cond(g['gid'])
            if g['sub']:
                eqs = [mk_group(sg) for sg in g['sub']]
            else:
                eqs = [mk_eq(e) for e in g['eqs']]
            G = Group(equations=eqs, **kw)
            group_ids[id(G)] = g['gid']
            return G
        groups = [mk_group(g) for g in prog]
        nn = LinkedListNNPS(dim=1, particles=pas, radius_scale=2.0)
        rx = RefExec(pas, groups, CubicSpline(dim=1), nn, eq_ids=eq_ids,
                     group_ids=group_ids)
        rx.compute(0.0, 0.125)
        vc = dict((str(eid), int(o.ncalls)) for eid, o in objs.items())
        out.append(dict(id='%s/%d' % (p['pid'], r['rid']), prog=prog,
                        arr=r['arr'], env=r['env'], log=rx.events(), vc=vc))
    return out


def main():
    import pysph.base.utils        # noqa: F401  (import before forking)
    import pysph.sph.equation      # noqa: F401
    import pysph.base.nnps         # noqa: F401
    import pysph.sph.acceleration_eval  # noqa: F401
    mode = sys.argv[1]
    if mode == 'list':
        import c02_classes
        with open(sys.argv[2], 'w') as fp:
            json.dump(c02_classes.listing(), fp)
        return
    jobs = [json.loads(l) for l in open(sys.argv[2])]
    workdir = sys.argv[4]
    os.makedirs(workdir, exist_ok=True)
    for j in jobs:
        j['workdir'] = workdir
    if mode == 'probe':
        for j in jobs:
            j['kind'] = 'probe'
        forked(jobs, sys.argv[3], run_probe)
    elif mode == 'order':
        for j in jobs:
            j['kind'] = 'order'
        forked(jobs, sys.argv[3], run_order)
    elif mode == 'classes':
        import c02_classes
        for j in jobs:
            j['kind'] = 'class'
        forked(jobs, sys.argv[3], c02_classes.run_classes, timeout=2400)
    else:
        raise SystemExit('unknown mode')


if __name__ == '__main__':
    main()
