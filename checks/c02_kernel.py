"""The probe kernel of C02 (device D2 of DESIGN.md): a plain Python class with
the interface of pysph.base.kernels.CubicSpline whose methods are integer
polynomials that tell every argument apart.  The same polynomials are
Kern / Dwdq / Grad / GradH / DeltaP of spec/EvalData.tla Part 3.

The code generator transpiles this source like that of any kernel class; the
reference executor calls these methods directly.

rij enters through r2 = floor(rij*rij + 0.5): sqrt is correctly rounded, so
for an integer R2IJ < 2^50 the square of RIJ = sqrt(R2IJ) is within 2 ulp of
R2IJ and the floor restores the integer exactly (for WDP, rij = 3*HIJ is an
integer itself).
"""
from math import floor


class ProbeKernel(object):
    def __init__(self, dim=1, ka=3, radius_scale=1.25):
        self.dim = dim
        self.ka = ka
        self.radius_scale = radius_scale

    def get_deltap(self):
        return 3.0

    def kernel(self, xij=[0., 0, 0], rij=1.0, h=1.0):
        r2 = floor(rij * rij + 0.5)
        return (8.0 * h * h - 2.0 * r2 + xij[0] + 3.0 * xij[1] +
                5.0 * xij[2] + self.ka)

    def dwdq(self, rij=1.0, h=1.0):
        r2 = floor(rij * rij + 0.5)
        return r2 - 3.0 * h + self.dim

    def gradient(self, xij=[0., 0, 0], rij=1.0, h=1.0, grad=[0, 0, 0]):
        r2 = floor(rij * rij + 0.5)
        grad[0] = xij[0] * h
        grad[1] = xij[1] * h + r2
        grad[2] = xij[2] * h - r2 + self.ka

    def gradient_h(self, xij=[0., 0, 0], rij=1.0, h=1.0):
        r2 = floor(rij * rij + 0.5)
        return h * r2 + xij[0] - xij[1] + 2.0 * xij[2]
