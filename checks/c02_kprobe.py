"""C02: probe equations that read every kernel-dependent precomputed symbol
and call every kernel method the generated code can reach.  They are compiled
against each SHIPPED kernel class x admissible dim and compared with the
Python kernel class as executed by the reference executor (stage-2 records:
exact when the kernel's methods are arithmetic only, else to libm rounding).

Every symbol / method result is accumulated into its own property so that a
disagreement names the symbol.
"""
from compyle.api import declare
from pysph.sph.equation import Equation


class KernelSymbols(Equation):
    """WIJ, WI, WJ, DWIJ, DWI, DWJ, WDP, GHI, GHJ, GHIJ, WDASHI/J/IJ."""

    def initialize(self, d_idx, d_kwij, d_kwi, d_kwj, d_kwdp, d_kghi, d_kghj,
                   d_kghij, d_kwdi, d_kwdj, d_kwdij, d_kdwij, d_kdwi,
                   d_kdwj):
        i = declare('int')
        d_kwij[d_idx] = 0.0
        d_kwi[d_idx] = 0.0
        d_kwj[d_idx] = 0.0
        d_kwdp[d_idx] = 0.0
        d_kghi[d_idx] = 0.0
        d_kghj[d_idx] = 0.0
        d_kghij[d_idx] = 0.0
        d_kwdi[d_idx] = 0.0
        d_kwdj[d_idx] = 0.0
        d_kwdij[d_idx] = 0.0
        for i in range(3):
            d_kdwij[d_idx*3 + i] = 0.0
            d_kdwi[d_idx*3 + i] = 0.0
            d_kdwj[d_idx*3 + i] = 0.0

    def loop(self, d_idx, s_idx, s_m, d_kwij, d_kwi, d_kwj, d_kwdp, d_kghi,
             d_kghj, d_kghij, d_kwdi, d_kwdj, d_kwdij, d_kdwij, d_kdwi,
             d_kdwj, WIJ, WI, WJ, WDP, GHI, GHJ, GHIJ, WDASHI, WDASHJ,
             WDASHIJ, DWIJ, DWI, DWJ):
        i = declare('int')
        d_kwij[d_idx] += s_m[s_idx]*WIJ
        d_kwi[d_idx] += s_m[s_idx]*WI
        d_kwj[d_idx] += s_m[s_idx]*WJ
        d_kwdp[d_idx] += s_m[s_idx]*WDP
        d_kghi[d_idx] += s_m[s_idx]*GHI
        d_kghj[d_idx] += s_m[s_idx]*GHJ
        d_kghij[d_idx] += s_m[s_idx]*GHIJ
        d_kwdi[d_idx] += s_m[s_idx]*WDASHI
        d_kwdj[d_idx] += s_m[s_idx]*WDASHJ
        d_kwdij[d_idx] += s_m[s_idx]*WDASHIJ
        for i in range(3):
            d_kdwij[d_idx*3 + i] += s_m[s_idx]*DWIJ[i]
            d_kdwi[d_idx*3 + i] += s_m[s_idx]*DWI[i]
            d_kdwj[d_idx*3 + i] += s_m[s_idx]*DWJ[i]


class KernelMethods(Equation):
    """SPH_KERNEL.kernel / gradient / gradient_h / dwdq / get_deltap called
    from loop and from loop_all (the documented direct use)."""

    def initialize(self, d_idx, d_mk, d_mh, d_mq, d_mdp, d_mg, d_mall):
        i = declare('int')
        d_mk[d_idx] = 0.0
        d_mh[d_idx] = 0.0
        d_mq[d_idx] = 0.0
        d_mdp[d_idx] = 0.0
        d_mall[d_idx] = 0.0
        for i in range(3):
            d_mg[d_idx*3 + i] = 0.0

    def loop_all(self, d_idx, d_x, d_y, d_z, d_h, s_x, s_y, s_z, s_h, s_m,
                 d_mall, SPH_KERNEL, NBRS, N_NBRS):
        i = declare('int')
        j = declare('long')
        xij = declare('matrix(3)')
        acc = 0.0
        for i in range(N_NBRS):
            j = NBRS[i]
            xij[0] = d_x[d_idx] - s_x[j]
            xij[1] = d_y[d_idx] - s_y[j]
            xij[2] = d_z[d_idx] - s_z[j]
            rij = sqrt(xij[0]*xij[0] + xij[1]*xij[1] + xij[2]*xij[2])
            acc += s_m[j]*SPH_KERNEL.kernel(xij, rij,
                                            0.5*(s_h[j] + d_h[d_idx]))
        d_mall[d_idx] += acc

    def loop(self, d_idx, s_idx, s_m, d_h, s_h, d_mk, d_mh, d_mq, d_mdp,
             d_mg, XIJ, RIJ, HIJ, SPH_KERNEL):
        i = declare('int')
        g = declare('matrix(3)')
        d_mk[d_idx] += s_m[s_idx]*SPH_KERNEL.kernel(XIJ, RIJ, s_h[s_idx])
        d_mh[d_idx] += s_m[s_idx]*SPH_KERNEL.gradient_h(XIJ, RIJ, d_h[d_idx])
        d_mq[d_idx] += s_m[s_idx]*SPH_KERNEL.dwdq(RIJ, HIJ)
        d_mdp[d_idx] += SPH_KERNEL.get_deltap()
        SPH_KERNEL.gradient(XIJ, RIJ, HIJ, g)
        for i in range(3):
            d_mg[d_idx*3 + i] += s_m[s_idx]*g[i]
