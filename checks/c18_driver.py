"""Systematic exploration of the schedules of the *real* CommandManager /
Controller threads under the deterministic scheduler (mbv/sched.py).

usage: c18_driver.py JOB.json OUT.ndjson
JOB: {"progs": [["P","W","C"], ...], "mode": "bounded"|"random",
      "bound": 2, "nrandom": 100, "seed": 0, "maxcp": 6, "limit": 5000}
Each explored schedule yields one trace (event log at primitive granularity
plus API-level call/return/exec/control-point events).
"""
import importlib.util
import json
import random
import sys

import pysph.base.particle_array  # noqa: F401  (imported before the patch)
import pysph.solver               # noqa: F401

from mbv.sched import Scheduler, Op


def load_controller(fake):
    spec = importlib.util.find_spec('pysph.solver.controller')
    mod = importlib.util.module_from_spec(spec)
    saved = {k: sys.modules.get(k) for k in ('threading', 'thread')}
    sys.modules['threading'] = fake
    sys.modules['thread'] = fake
    try:
        spec.loader.exec_module(mod)
    finally:
        for k, v in saved.items():
            if v is None:
                sys.modules.pop(k, None)
            else:
                sys.modules[k] = v
    return mod


class LoggingSet(set):
    """The `pause` set: reads by the solver loop are observable."""
    sched = None

    def __len__(self):
        n = set.__len__(self)
        s = self.sched
        if s is not None and getattr(s._tls, 'rec', None) is not None:
            s.note(ev='prim', th=s.current().name, kind='test_pause',
                   obj='yes' if n else 'no')
        return n

    # changes of the pause set are scheduling points of their own (a thread
    # may be pre-empted between a notification and the update of the set)
    def _point(self, kind):
        s = self.sched
        if s is not None and getattr(s._tls, 'rec', None) is not None:
            s.yield_op(Op(kind))

    def add(self, x):
        self._point('pause_add')
        set.add(self, x)

    def remove(self, x):
        self._point('pause_remove')
        set.remove(self, x)

    def discard(self, x):
        self._point('pause_remove')
        set.discard(self, x)


class NameProbe(object):
    """Compares equal to any name and logs the execution of the command."""

    def __init__(self, sched):
        self.sched = sched

    def __eq__(self, other):
        self.sched.note(ev='exec', id=int(str(other)[1:]),
                        th=self.sched.current().name)
        return True

    def __hash__(self):
        return 0


class FakePA(object):
    def __init__(self, sched):
        self.name = NameProbe(sched)

    def __getattr__(self, a):
        if a.startswith('v') and a[1:].isdigit():
            return int(a[1:]) * 10
        raise AttributeError(a)


class FakeSolver(object):
    def __init__(self, sched):
        self.sched = sched
        self.count = 0
        self.t = 0.0
        self.particles = [FakePA(sched)]


class Chooser(object):
    """Default policy: keep running the last thread while it is enabled
    (switch round-robin at a voluntary yield or when it blocks); `dev` maps a
    step number to the name of the thread to run instead."""

    def __init__(self, dev=None, rng=None, nrand=0):
        self.dev = dev or {}
        self.rng = rng
        self.nrand = nrand
        self.steps = []     # (enabled names, default, chosen)
        # after this step the schedule follows the fair default policy
        self.forced_until = max(self.dev) if self.dev else (
            nrand if rng is not None else -1)

    def __call__(self, en, s):
        names = [t.name for t in en]
        k = len(self.steps)
        last = s.last
        if self.rng is not None and k < self.nrand:
            if last is not None and last in en and self.rng.random() < 0.6:
                d = last
            else:
                d = self.rng.choice(en)
            self.steps.append((names, d.name, d.name))
            return d
        if last is not None and last in en and last.pending.kind != 'step':
            d = last
        else:
            order = s.threads
            i = order.index(last) if last is not None else -1
            d = None
            for j in range(1, len(order) + 1):
                c = order[(i + j) % len(order)]
                if c in en:
                    d = c
                    break
        c = d
        if k in self.dev:
            want = self.dev[k]
            for t in en:
                if t.name == want:
                    c = t
                    break
        self.steps.append((names, d.name, c.name))
        return c


def run_once(progs, chooser, maxcp=6, max_steps=3000):
    s = Scheduler(chooser)
    fake = s.module()
    LoggingSet.sched = None
    ctl = load_controller(fake)
    solver = FakeSolver(s)
    cm = ctl.CommandManager(solver)
    ps = LoggingSet()
    cm.pause = ps
    s.set_name(cm.plock, 'plock')
    s.set_name(cm.qlock, 'qlock')
    s.set_name(cm.res_lock, 'reslock')
    s.set_name(cm.rlock, 'rlock')
    # the private lock of the @synchronized dispatch is the first lock made
    done = [False] * len(progs)
    ntask = [0]

    def solver_main():
        n = 0
        tail = 0
        while not all(done) and tail < 3 and n < 60:
            if s.steps > getattr(chooser, 'forced_until', -1):
                tail += 1
            s.note(ev='cp_enter', n=n)
            cm.execute_commands(solver)
            s.note(ev='cp_leave', n=n)
            s.yield_op(Op('step'))
            n += 1
        s.note(ev='solver_exit', n=n, all_done=all(done))

    def make_iface(i, prog):
        def iface(ctrl):
            me = 'I%d' % (i + 1)
            tids = []
            nq = nr = 0
            for op in prog:
                if op == 'G':
                    s.note(ev='call', th=me, op='G', id=0)
                    ctrl.get('count')
                    s.note(ev='ret', th=me, op='G', id=0, ok=True)
                elif op == 'Q':
                    nq += 1
                    tag = (i + 1) * 10 + nq
                    s.note(ev='call', th=me, op='Q', id=tag)
                    s.current().qtag = tag
                    tid = ctrl.get_named_particle_array('n%d' % tag, ['v%d' % tag])
                    s.current().qtag = None
                    tids.append((tag, tid))
                    s.note(ev='ret', th=me, op='Q', id=tag, ok=True)
                elif op == 'R':
                    tag, tid = tids[nr]
                    nr += 1
                    s.note(ev='call', th=me, op='R', id=tag)
                    res = ctrl.get_result(tid)
                    s.note(ev='ret', th=me, op='R', id=tag,
                           ok=(res == [tag * 10]))
                elif op == 'P':
                    s.note(ev='call', th=me, op='P', id=0)
                    ctrl.pause_on_next()
                    s.note(ev='ret', th=me, op='P', id=0, ok=True)
                elif op == 'W':
                    s.note(ev='call', th=me, op='W', id=0)
                    ctrl.wait()
                    s.note(ev='ret', th=me, op='W', id=0, ok=True)
                elif op == 'C':
                    s.note(ev='call', th=me, op='C', id=0)
                    ctrl.cont()
                    s.note(ev='ret', th=me, op='C', id=0, ok=True)
            done[i] = True
            s.note(ev='iface_done', th=me)
        return iface

    # name the dispatch lock: created at class creation time, first lock
    dl = cm.dispatch.__closure__
    for cell in (dl or ()):
        v = cell.cell_contents
        if isinstance(v, fake.Lock):
            s.set_name(v, 'dlock')
    def name_lock(lock):
        rec = getattr(s._tls, 'rec', None)
        tag = getattr(rec, 'qtag', None) if rec is not None else None
        if tag is not None:
            s.set_name(lock, 't%d' % tag)
    s.new_lock_hook = name_lock
    s.spawn('S', solver_main, ident=0)
    for i, prog in enumerate(progs):
        thr = cm.add_interface(make_iface(i, prog), block=False)
        thr.rec.name = 'I%d' % (i + 1)
    LoggingSet.sched = s
    outcome = s.run(max_steps=max_steps)
    LoggingSet.sched = None
    errors = ['%s: %s: %s' % (n, type(e).__name__, e) for n, e in s.errors]
    return dict(outcome=outcome, events=s.log, blocked=s.blocked,
                errors=errors, done=list(done))


def explore_bounded(progs, bound, maxcp, limit, seed=0):
    """Schedules with at most `bound` deviations from the default policy,
    fewest deviations first: every single deviation is run before any double
    one; when `limit` cuts a level short, its members are taken in a seeded
    random order (not the latest deviation points only)."""
    out = []
    seen = set()
    level = [dict()]
    rng = random.Random('%s:%d' % (json.dumps(progs), seed))
    while level and len(out) < limit:
        nxt = []
        for dev in level:
            if len(out) >= limit:
                break
            key = tuple(sorted(dev.items()))
            if key in seen:
                continue
            seen.add(key)
            ch = Chooser(dev)
            r = run_once(progs, ch, maxcp)
            r['schedule'] = [c for (_, _, c) in ch.steps]
            r['dev'] = sorted([k, v] for k, v in dev.items())
            out.append(r)
            if len(dev) < bound:
                start = max(dev) + 1 if dev else 0
                for k in range(start, len(ch.steps)):
                    names, d, c = ch.steps[k]
                    for a in names:
                        if a != c:
                            nd = dict(dev)
                            nd[k] = a
                            nxt.append(nd)
        rng.shuffle(nxt)
        level = nxt
    return out


def norm_event(e):
    ev = e['ev']
    out = dict(ev=ev, th=e.get('th', 'S'), k=e.get('op', e.get('kind', '')),
               obj=e.get('obj', ''), id=int(e.get('id', e.get('n', 0)) or 0),
               ok=bool(e.get('ok', True)))
    if ev in ('call', 'ret', 'exec'):
        out['obj'] = str(out['id'])
    return out


def main():
    job = json.load(open(sys.argv[1]))
    progs = job['progs']
    res = []
    if job['mode'] == 'bounded':
        res = explore_bounded(progs, job.get('bound', 2), job.get('maxcp', 6),
                              job.get('limit', 5000), job.get('seed', 0))
    elif job['mode'] == 'replay':
        ch = Chooser()
        sched = job['schedule']

        def chooser(en, s, _k=[0]):
            k = _k[0]
            _k[0] += 1
            if k < len(sched):
                for t in en:
                    if t.name == sched[k]:
                        ch.steps.append(([x.name for x in en], t.name, t.name))
                        return t
            return ch(en, s)
        chooser.forced_until = len(sched)
        r = run_once(progs, chooser, job.get('maxcp', 6))
        r['schedule'] = sched
        res = [r]
    else:
        for n in range(job.get('nrandom', 100)):
            rng = random.Random('%s:%d' % (job.get('seed', 0), n))
            ch = Chooser(rng=rng, nrand=rng.randint(10, 120))
            r = run_once(progs, ch, job.get('maxcp', 6))
            r['schedule'] = [c for (_, _, c) in ch.steps]
            res.append(r)
    for r in res:
        r['events'] = [norm_event(e) for e in r['events']]
    with open(sys.argv[2], 'w') as fp:
        for n, r in enumerate(res):
            r['id'] = '%s/%d' % (job.get('name', 'job'), n)
            r['progs'] = progs
            fp.write(json.dumps(r) + '\n')


if __name__ == '__main__':
    main()
