"""C05 - results do not depend on neighbour algorithm, cache, threads or
re-ordering.

Design:  ParLoop.tla - every schedule of a parallel region (threads, dynamic
         chunks) is race free and gives a result that is a function of the
         data alone; TraceSim.tla states the property for whole runs: the
         configuration is a variable no step depends on.
Binding: integer/dyadic-exact problems (free surface, wall, periodic box, two
         fluid arrays, two bodies with per-particle h that meet during the
         run under a predictor-corrector integrator) and real-kernel problems
         are run through
         Application.run(argv) under many configurations; per-step and final
         states (hexadecimal floats, by particle identity) are compared by
         TLC: exact problems must agree bit for bit under every
         configuration, real-kernel problems under every neighbour
         algorithm / cache / thread setting when neighbours are sorted, and a
         repeated run must reproduce itself.
"""
import itertools
import json
import os
import random
import subprocess
import sys
from concurrent.futures import ThreadPoolExecutor

sys.path.insert(0, os.path.dirname(os.path.dirname(os.path.abspath(__file__))))
from mbv import tlc, build                            # noqa: E402
from mbv.harness import Check, MachineryError, main   # noqa: E402

NNPS = ['ll', 'box', 'sh', 'esh', 'ci', 'sfc', 'tree', 'comp_tree',
        'strat_hash', 'strat_sfc']
ZFAM = ('sfc', 'strat_sfc')
EXACT = ['free', 'wall', 'periodic', 'two', 'approach']
REAL = ['free-real', 'two-real']
MULTI = ('wall', 'two', 'two-real', 'approach')


def cfg_args(c):
    a = ['--nnps', c['nnps']]
    if c['cache']:
        a.append('--cache-nnps')
    a.append('--openmp' if c['threads'] else '--no-openmp')
    if c['reorder']:
        a += ['--reorder-freq', str(c['reorder'])]
    if c['sort']:
        a.append('--sort-gids')
    a += KNOBS[c.get('knob', '')]
    return a


# algorithm-specific knobs of the command line
KNOBS = {'': [], 'ts3': ['--spatial-hash-table-size', '3'],
         'nl2': ['--stratified-grid-num-levels', '2'],
         'lf2': ['--tree-leaf-max-particles', '2'],
         'H2': ['--spatial-hash-sub-factor', '2']}
KNOBS_OF = {'sh': ['ts3'], 'esh': ['ts3', 'H2'], 'strat_hash': ['ts3', 'nl2'],
            'strat_sfc': ['nl2'], 'tree': ['lf2'], 'comp_tree': ['lf2']}


def cfg_name(c):
    return 'nnps=%s cache=%d threads=%d reorder=%d sort=%d%s' % (
        c['nnps'], c['cache'], c['threads'], c['reorder'], c['sort'],
        (' knob=' + c['knob']) if c.get('knob') else '')


REORDER_OK = ('ll', 'ci', 'sfc', 'strat_sfc', 'tree', 'comp_tree')


def all_configs(sort_only=False):
    for nn, ca, th, ro, so in itertools.product(
            NNPS, [0, 1], [0, 1, 2, 5], [0, 1, 3], [0, 1]):
        if sort_only and not so:
            continue
        if ro and nn not in REORDER_OK:
            continue      # raises NotImplementedError: re-ordering unsupported
        yield dict(nnps=nn, cache=ca, threads=th, reorder=ro, sort=so)


TRANSIENT = []


def run_one(chk, problem, c, tag):
    r = run_once(chk, problem, c, tag)
    if 'error' in r:
        # a machine under heavy load can fail a run for reasons unrelated to
        # the code (compile lock time-outs): one retry, the first failure is
        # kept in the evidence
        TRANSIENT.append(dict(problem=problem, cfg=r['cfg'],
                              error=r['error'][-300:]))
        r = run_once(chk, problem, c, tag + 'b')
    return r


def run_once(chk, problem, c, tag):
    out = os.path.join(chk.scratch, '%s-%s.json' % (problem, tag))
    env = dict(chk.env)
    env['OMP_NUM_THREADS'] = str(max(1, c['threads']))
    cmd = [build.PY, os.path.join(os.path.dirname(__file__), 'c05_app.py'),
           problem, out] + cfg_args(c)
    try:
        p = subprocess.run(cmd, env=env, capture_output=True, text=True,
                           timeout=900, cwd=chk.scratch)
    except subprocess.TimeoutExpired:
        return dict(cfg=cfg_name(c), error='timeout')
    if p.returncode != 0 or not os.path.exists(out):
        return dict(cfg=cfg_name(c), error='rc=%d %s' % (
            p.returncode, (p.stderr or '')[-400:]))
    d = json.load(open(out))
    os.remove(out)
    return dict(cfg=cfg_name(c), steps=d['steps'], final=d['final'])


def run():
    chk = Check('C05', 'model_checking')
    rng = random.Random(chk.seed + 5)
    quick = chk.tier == 'quick'
    chk.env
    design = tlc.run('ParLoop', 'ParLoop.cfg', workers=8, timeout=1200)
    if design.get('error') or design.get('timeout'):
        raise MachineryError('TLC design failed:\n' + design['out'][-2000:])
    base = dict(nnps='ll', cache=0, threads=0, reorder=0, sort=0)
    plans = {}
    if chk.args.replay:
        obj = json.load(open(chk.args.replay))['case']
        plans[obj['problem']] = [obj['ref'], obj['cfg']]
    else:
        for prob in EXACT + REAL:
            real = prob in REAL
            b = dict(base, sort=1) if real else base
            allc = [c for c in all_configs(sort_only=real) if c != b]
            if quick:
                rng.shuffle(allc)
                # every neighbour algorithm at least once, then random ones
                pick = []
                for nn in NNPS:
                    pick.append(next(c for c in allc if c['nnps'] == nn))
                if prob in ('approach', 'free'):
                    # the most discriminating problems (two bodies with
                    # per-particle h / one array of 144 particles): every
                    # algorithm with the cache and several threads, with the
                    # cache and sorted neighbours, with re-ordering, and with
                    # its own command-line knobs
                    for nn in NNPS:
                        pick.append(next(
                            c for c in allc if c['nnps'] == nn and c['cache']
                            and c['threads'] >= 2 and c not in pick))
                        pick.append(next(
                            c for c in allc if c['nnps'] == nn and c['cache']
                            and c['sort'] and c not in pick))
                        if nn in REORDER_OK:
                            pick.append(next(
                                c for c in allc if c['nnps'] == nn and
                                c['reorder'] and c not in pick))
                        for kn in KNOBS_OF.get(nn, []):
                            pick.append(dict(next(
                                c for c in allc if c['nnps'] == nn), knob=kn))
                pick += [c for c in allc if c not in pick][:6]
            else:
                pick = allc if not real else allc[:160]
                if prob in ('approach', 'free'):
                    for nn in NNPS:
                        for kn in KNOBS_OF.get(nn, []):
                            pick += [dict(c, knob=kn) for c in allc
                                     if c['nnps'] == nn][:8]
            plans[prob] = [b, dict(b)] + pick      # second run = repetition
    # warm the generated-code cache: one run per (problem, openmp on/off)
    warm = []
    for prob, cs in plans.items():
        warm.append((prob, cs[0], 'warm0'))
        warm.append((prob, dict(cs[0], threads=2), 'warm1'))
    with ThreadPoolExecutor(max_workers=12) as ex:
        list(ex.map(lambda w: run_one(chk, *w), warm))
    jobs = [(prob, c, 'r%d' % i) for prob, cs in plans.items()
            for i, c in enumerate(cs)]
    with ThreadPoolExecutor(max_workers=8) as ex:
        results = list(ex.map(lambda j: run_one(chk, *j), jobs))
    recs = {}
    for (prob, c, tag), r in zip(jobs, results):
        recs.setdefault(prob, []).append((c, r))
    files = []
    for prob, lst in recs.items():
        # real-kernel problems: bit identity is promised within one
        # re-ordering frequency (sorted neighbours); exact problems: always
        groups = {}
        for c, r in lst:
            key = c['reorder'] if prob in REAL else 0
            groups.setdefault(key, []).append((c, r))
        for key, g in groups.items():
            if prob in REAL and key != lst[0][0]['reorder']:
                # reference for this group: its first run
                pass
            f = os.path.join(chk.scratch, 'batch-%s-%s.ndjson' % (prob, key))
            with open(f, 'w') as fp:
                fp.write(json.dumps(dict(id='%s/%s' % (prob, key),
                                         runs=[r for c, r in g])) + '\n')
            files.append(f)
    try:
        verdicts, st = tlc.validate_batches('TraceSim', 'TraceSim.cfg', files,
                                            parallel=8)
    except tlc.TLCError as ex:
        raise MachineryError(str(ex))
    cfg_by_name = {}
    for prob, cs in plans.items():
        for c in cs:
            cfg_by_name[(prob, cfg_name(c))] = c
    nruns = 0
    distinct = set()
    for v in verdicts:
        prob = v['id'].split('/')[0]
        nruns += v['nruns']
        ref = plans[prob][0]
        for e in v['errors']:
            c = cfg_by_name.get((prob, e))
            err = next((r.get('error', '') for cc, r in recs[prob]
                        if r['cfg'] == e), '')
            chk.violation('%s: run failed twice under %s: %s' % (
                prob, e, err[-200:].replace('\n', ' ')),
                dict(problem=prob, ref=ref, cfg=c, error=err))
        for d in v['differing']:
            c = cfg_by_name.get((prob, d['cfg']))
            if c and c['nnps'] in ZFAM and prob in MULTI and \
                    chk.known('C05-zorder-nnps-multi-array'):
                chk.known_hit('C05-zorder-nnps-multi-array')
                continue
            chk.violation('%s: state differs from the reference run at step '
                          '%d under %s' % (prob, d['step'], d['cfg']),
                          dict(problem=prob, ref=ref, cfg=c))
    for prob, cs in plans.items():
        for c in cs:
            distinct.add((prob, cfg_name(c)))
    if not design['ok']:
        chk.violation('design model ParLoop: %s' % design['violation'],
                      dict(problem=None, out=design['out'][-2000:]))
    chk.cov.update(dict(
        states=design['distinct'], transitions=design['generated'],
        traces_validated_against_impl=nruns,
        problems=list(plans), configurations_per_problem={
            p: len(c) for p, c in plans.items()},
        evaluations=nruns, distinct_nontrivial=len(distinct),
        first_attempt_failures=TRANSIENT[:20],
        rule='a case is one Application.run of one problem under one '
             'configuration, compared state by state (bit patterns, by '
             'particle identity) with the reference configuration; distinct '
             'by (problem, configuration)',
        exhaustive=not quick,
        samples=[dict(problem='two', reference=cfg_name(plans.get(
            'two', [base])[0]), other=cfg_name(plans.get('two', [base, base]
                                                         )[-1]))],
    ))
    chk.assumptions += [
        'exact problems use a box kernel and integer/dyadic data for 4 steps '
        '(10 steps with prescribed velocities in "approach") so every '
        'floating point operation is exact and summation order cannot matter',
        'real-kernel problems are compared bit for bit only among runs with '
        '--sort-gids and the same re-ordering frequency, as the statement '
        'promises',
        'thread counts via OMP_NUM_THREADS in {1, 2, 5}',
        '--reorder-freq is only combined with the neighbour algorithms that '
        'implement spatial ordering (the others raise NotImplementedError)',
    ]
    chk.finish()


if __name__ == '__main__':
    main(run)
