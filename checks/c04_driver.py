"""Drives the real compiled pysph integrator for C04 and records, for every
case, the observable event log and the particle data before / after.

Runs under the build environment (PYTHONPATH = synchronised copy of /repo).
usage: c04_driver.py <job.json> <traces.ndjson>

job = {"module": M, "cases": [case, ...]}.  One job = one generated probe
module = one compiled extension (plus one per further equation set).

M = {mid, kind, S, ne, arrs: [{name, k0, meth: [{loop, py, mv, pyw}]}],
     variants: [[op, ...], ...]            kind "gen": generated integrator
     cls: "pkg.mod.Class", ops: [...]      kind "shipped": the shipped class,
                                           ops parsed from its source (C04.py)
     stepper: "pkg.mod.Class" or absent    shipped stepper instead of probes}
case = {id, variant, nreal: [..], nghost: [..], steps: [{t, dt}], periodic,
        q, e}   (t, dt in units of q seconds; e = slack in units)

Everything is observed through programs a user may write (no hook in /repo):
  * probe IntegratorStep classes in pysph's DSL doing exact integer
    arithmetic (s = 2 s + au + code + 8 self.k; v += 1; x += mv) and logging
    (method, d_idx, t, dt) into a constant array of their destination;
  * py_stageN hooks, Equation.py_initialize, the post-stage callback and a
    Python subclass of LinkedListNNPS (update / update_domain) append events
    to one Python list; a compiled visit is placed before the first
    Python-level event that saw it.
The trace is the case in the vocabulary of spec/IntegratorProps.tla plus
`log`, `init`, `fin`, `dom`.
"""
import importlib
import json
import os
import sys
import traceback

os.environ.setdefault('OMP_NUM_THREADS', '1')

import numpy as np

CAP = 512                      # visit records per array and case
XMIN, XMAX = -0.25, 12.75      # periodic box (period 13 lattice units)
H = 0.75                       # kernel radius 1.5: |dx| <= 1 are neighbours


# ---------------------------------------------------------------------------
# source generation
# ---------------------------------------------------------------------------
def mname(m):
    return 'initialize' if m == 0 else 'stage%d' % m


def fnum(x):
    return repr(float(x))


def op_source(o):
    if o['op'] == 'stage':
        return 'self.%s()' % mname(o['m'])
    if o['op'] == 'accel':
        if o['nnps']:
            return ('self.compute_accelerations(%d)' % o['i'] if o['i']
                    else 'self.compute_accelerations()')
        form = o.get('form') or 'kw'
        if form == 'pos':
            return 'self.compute_accelerations(%d, False)' % o['i']
        if form == 'kwonly' and o['i'] == 0:
            return 'self.compute_accelerations(update_nnps=False)'
        if form == 'kwboth':
            return ('self.compute_accelerations(update_nnps=False, index=%d)'
                    % o['i'])
        return 'self.compute_accelerations(%d, update_nnps=False)' % o['i']
    if o['op'] == 'domain':
        return 'self.update_domain()'
    if o['op'] == 'post':
        if o['num'] == o['den']:
            return 'self.do_post_stage(dt, %d)' % o['n']
        return 'self.do_post_stage(%s*dt, %d)' % (
            fnum(o['num'] / float(o['den'])), o['n'])
    raise ValueError(o)


def stepper_source(cls, arr):
    L = ['class %s(IntegratorStep):' % cls,
         '    def __init__(self, k=0.0):',
         '        self.k = k', '']
    for m, d in enumerate(arr['meth']):
        if d['py'] and (m > 0 or d['loop']):
            L += ['    def py_%s(self, dest, t, dt):' % mname(m),
                  '        REC.py_hook(self, dest, %d, t, dt, %s, %r)' % (
                      m, bool(d['pyw']), str(d.get('pop') or 'none')), '']
        if d['loop']:
            L += ['    def %s(self, d_idx, d_x, d_s, d_v, d_au, d_elog, '
                  'd_ecnt, t, dt):' % mname(m),
                  "        j = declare('int')",
                  '        d_s[d_idx] = 2.0*d_s[d_idx] + d_au[d_idx] + %s '
                  '+ 8.0*self.k' % fnum(m + 1),
                  '        d_v[d_idx] += 1.0',
                  '        d_x[d_idx] += %s' % fnum(d['mv']),
                  '        j = int(d_ecnt[0])',
                  '        d_elog[4*j] = %s' % fnum(m),
                  '        d_elog[4*j + 1] = d_idx',
                  '        d_elog[4*j + 2] = t',
                  '        d_elog[4*j + 3] = dt',
                  '        d_ecnt[0] += 1.0', '']
    return L


def stepper_class(M, ai):
    """arrays whose steppers have the same methods share ONE class and get
    instances constructed with different parameters (k)"""
    sig = json.dumps(M['arrs'][ai]['meth'], sort_keys=True)
    for aj, arr in enumerate(M['arrs']):
        if json.dumps(arr['meth'], sort_keys=True) == sig:
            return 'Step%s' % arr['name'].upper()


def equation_source(i, log):
    L = ['class Acc%s%d(Equation):' % ('Log' if log else '', i)]
    if log:
        L += ['    def py_initialize(self, dst, t, dt):',
              '        REC.accel(%d, t, dt)' % i, '']
    L += ['    def initialize(self, d_idx, d_au):',
          '        d_au[d_idx] = %s' % fnum(8 * (i + 1)), '',
          '    def loop(self, d_idx, d_au):',
          '        d_au[d_idx] += 1.0', '']
    return L


def swap_ops(ops):
    """selftest: exchange the first two adjacent ops that differ"""
    ops = list(ops)
    for k in range(len(ops) - 1):
        if ops[k] != ops[k + 1]:
            ops[k], ops[k + 1] = ops[k + 1], ops[k]
            break
    return ops


def gen_source(M, mutate):
    L = ['"""generated by checks/c04_driver.py for module %s"""' % M['mid'],
         'from pysph.sph.integrator import Integrator',
         'from pysph.sph.integrator_step import IntegratorStep',
         'from pysph.sph.equation import Equation', '',
         'REC = None', '']
    if not M.get('stepper'):
        done = set()
        for ai, arr in enumerate(M['arrs']):
            cls = stepper_class(M, ai)
            if cls not in done:
                done.add(cls)
                L += stepper_source(cls, arr)
    for i in range(M['ne']):
        L += equation_source(i, True)
        L += equation_source(i, False)
    if M['kind'] == 'gen':
        L += ['class ProbeIntegrator(Integrator):',
              '    def one_timestep(self, t, dt):',
              '        v = self.integrator.variant']
        for vi, ops in enumerate(M['variants']):
            if mutate == 'swap':
                ops = swap_ops(ops)
            L.append('        %s v == %d:' % ('if' if vi == 0 else 'elif', vi))
            L += ['            ' + op_source(o) for o in ops]
        L.append('')
    return '\n'.join(L) + '\n'


# ---------------------------------------------------------------------------
# recorder
# ---------------------------------------------------------------------------
class Recorder(object):
    def __init__(self, names):
        self.names = names
        self.arrays = None
        self.active = False
        self.log = []
        self.cur = None
        self.q = 1.0
        self.dom = []
        self.periodic = False
        self.vis = True

    def start(self, arrays, q, periodic):
        self.arrays = arrays
        self.q = q
        self.periodic = periodic
        self.log = []
        self.dom = []
        self.cur = [0] * len(arrays)
        self.nadd = [0] * len(arrays)
        for pa in arrays:
            if self.vis:
                pa.ecnt[0] = 0.0
        self.active = True

    def tq(self, x):
        v = int(round(x / self.q))
        if abs(v) >= (1 << 30):
            raise OverflowError('time out of range: %r' % x)
        return v

    def flush(self):
        if not self.vis:
            return
        for ai, pa in enumerate(self.arrays):
            n = int(pa.ecnt[0])
            if n > CAP:
                raise RuntimeError('visit log overflow')
            el = pa.elog
            for r in range(self.cur[ai], n):
                self.log.append(dict(
                    ev='visit', a=self.names[ai], m=int(el[4 * r]),
                    i=int(el[4 * r + 1]), t=self.tq(el[4 * r + 2]),
                    dt=self.tq(el[4 * r + 3]), n=0))
            self.cur[ai] = n

    def event(self, ev, a='', m=0, i=0, t=0.0, dt=0.0, n=0):
        if not self.active:
            return
        self.flush()
        self.log.append(dict(ev=ev, a=a, m=m, i=i, t=self.tq(t),
                             dt=self.tq(dt), n=int(n)))

    # -- the hooks ---------------------------------------------------------
    def change_population(self, dest, pop):
        """hooks that add a particle, turn one into a ghost (tag + align) or
        remove one - exactly what Integrator.tla PopApply says"""
        ai = self.names.index(dest.name)
        nr = dest.get_number_of_particles(real=True)
        uid = dest.get('uid', only_real_particles=False)[:nr]
        if pop == 'add':
            k = self.nadd[ai]
            self.nadd[ai] += 1
            dest.add_particles(
                x=np.array([20.0 + 8 * (ai + 1) + k]), h=np.array([H]),
                m=np.array([1.0]), s=np.array([3.0]), v=np.array([0.0]),
                au=np.array([0.0]), uid=np.array([100.0 + k]),
                tag=np.array([0], dtype=np.int32))
        elif pop == 'ghost' and nr > 0:
            k = int(np.argmin(uid))
            dest.get_carray('tag').get_npy_array()[k] = 2
            dest.align_particles()
        elif pop == 'remove' and nr > 0:
            k = int(np.argmax(uid))
            dest.remove_particles(np.array([k], dtype=np.int64))

    def py_hook(self, stepper, dest, m, t, dt, pyw, pop='none'):
        self.event('py', a=dest.name, m=m, t=t, dt=dt)
        if not self.active:
            return
        if pop != 'none':
            self.change_population(dest, pop)
        nr = dest.get_number_of_particles(real=True)
        s = dest.get_carray('s').get_npy_array()
        s[:nr] += 32.0
        if pyw:
            stepper.k += 1.0

    def accel(self, i, t, dt):
        self.event('accel', i=i, t=t, dt=dt)

    def post(self, t, dt, n):
        self.event('post', t=t, dt=dt, n=n)

    def after_domain(self):
        if not (self.active and self.periodic):
            return
        per = []
        for pa in self.arrays:
            nr = pa.get_number_of_particles(real=True)
            x = pa.get('x', only_real_particles=False)
            uid = pa.get('uid', only_real_particles=False)
            g = []
            for p in range(nr, len(x)):
                src = int(uid[p])
                g.append(dict(src=src, sh=int(round(x[p] - x[src]))))
            per.append(g)
        self.dom.append(per)


# ---------------------------------------------------------------------------
# run time: one compiled module, many cases
# ---------------------------------------------------------------------------
def resolve(path):
    mod, cls = path.rsplit('.', 1)
    return getattr(importlib.import_module(mod), cls)


def apply_mutation(mutate):
    """--selftest: change the code generator / integrator in THIS process
    only (nothing under /repo is touched)."""
    if not mutate or mutate == 'swap':
        return
    from pysph.sph import integrator_cython_helper as H_
    from pysph.sph.integrator import Integrator
    orig = H_.IntegratorCythonHelper.get_code
    if mutate == 'ghosts':
        def get_code(self):
            return orig(self).replace('dst.size(real=True)',
                                      'dst.size(real=False)')
        H_.IntegratorCythonHelper.get_code = get_code
    elif mutate == 'stale_t':
        def get_code(self):
            return orig(self).replace('self.t = self.orig_t + stage_dt',
                                      'self.t = self.orig_t')
        H_.IntegratorCythonHelper.get_code = get_code
    elif mutate == 'swapsrc':
        orig_ts = H_.IntegratorCythonHelper.get_timestep_code

        def get_timestep_code(self):
            lines = [l for l in orig_ts(self).splitlines()
                     if l.strip() and not l.strip().startswith('#')]
            for k in range(len(lines) - 1):
                a, b = lines[k].strip(), lines[k + 1].strip()
                if a.startswith('self.') and b.startswith('self.') and a != b:
                    lines[k], lines[k + 1] = lines[k + 1], lines[k]
                    break
            return '\n'.join(lines) + '\n'
        H_.IntegratorCythonHelper.get_timestep_code = get_timestep_code
    elif mutate == 'countfirst':
        # the number of real particles is read BEFORE the py hook
        def get_code(self):
            import re
            code = orig(self)
            pat = re.compile(
                r'(\n[ ]*dst = self\.\w+\n)((?:.*\n)*?)'
                r'([ ]*NP_DEST = dst\.size\(real=True\)\n)')

            def mv(m):
                if 'dst = self.' in m.group(2):
                    return m.group(0)
                return m.group(1) + m.group(3) + m.group(2)
            return pat.sub(mv, code)
        H_.IntegratorCythonHelper.get_code = get_code
    elif mutate == 'alwaysrefresh':
        # update_nnps is not forwarded by the compiled integrator
        def get_code(self):
            return orig(self).replace(
                'self.integrator.compute_accelerations(index, update_nnps)',
                'self.integrator.compute_accelerations(index)')
        H_.IntegratorCythonHelper.get_code = get_code
    elif mutate == 'sharestepper':
        # later arrays of a stepper class get the first array's compiled
        # stepper (its parameters)
        def get_stepper_init(self):
            first, lines = {}, []
            for dest, stepper in self.object.steppers.items():
                cls = stepper.__class__.__name__
                src = first.setdefault(cls, dest)
                lines.append('self.%s_stepper = %s(**steppers["%s"].__dict__)'
                             % (dest, cls, src))
            return '\n'.join(lines)
        H_.IntegratorCythonHelper.get_stepper_init = get_stepper_init
    elif mutate == 'lazyrefresh':
        # refresh only if step() started or update_domain() ran since the
        # last refresh
        o_step, o_dom = Integrator.step, Integrator.update_domain

        def step(self, time, dt):
            self._stale = True
            o_step(self, time, dt)

        def update_domain(self):
            o_dom(self)
            self._stale = True

        def compute_accelerations(self, index=0, update_nnps=True):
            if update_nnps and self._stale:
                self._stale = False
                self.nnps.update()
            c = self.c_integrator
            self.acceleration_evals[index].compute(c.t, c.dt)
        Integrator.step = step
        Integrator.update_domain = update_domain
        Integrator.compute_accelerations = compute_accelerations
    elif mutate == 'norefresh':
        def compute_accelerations(self, index=0, update_nnps=True):
            c = self.c_integrator
            self.acceleration_evals[index].compute(c.t, c.dt)
        Integrator.compute_accelerations = compute_accelerations
    else:
        raise SystemExit('unknown mutation %r' % mutate)


class Uncovered(Exception):
    pass


def tree_hash(root):
    """hash of every .py / .mako below <root>/pysph/sph and /base (what the
    code generator reads).  All checks share one synchronised copy of the
    tree under test: if another run re-synchronised it to a different tree
    while this driver was working, the traces say nothing about the tree
    this check was asked to decide."""
    import hashlib
    h = hashlib.sha256()
    for sub in ('sph', 'base'):
        top = os.path.join(root, 'pysph', sub)
        for d, dn, fn in sorted(os.walk(top)):
            dn[:] = sorted(x for x in dn if x != '__pycache__')
            for f in sorted(fn):
                if f.endswith(('.py', '.mako')):
                    p = os.path.join(d, f)
                    h.update(os.path.relpath(p, root).encode())
                    try:
                        with open(p, 'rb') as fp:
                            h.update(hashlib.sha256(fp.read()).digest())
                    except OSError:
                        h.update(b'?')
    return h.hexdigest()[:20]


def source_ok():
    want = os.environ.get('C04_TREE_HASH')
    return (not want) or tree_hash(os.environ['VERIF_SRC']) == want


class Runtime(object):
    def __init__(self, M, mutate):
        from pysph.base.utils import get_particle_array
        from pysph.base.kernels import CubicSpline
        from pysph.base.nnps import LinkedListNNPS, DomainManager
        from pysph.sph.equation import MultiStageEquations
        from pysph.sph.acceleration_eval import make_acceleration_evals
        from pysph.sph.sph_compiler import SPHCompiler
        import pysph
        if not pysph.__file__.startswith(os.environ.get('VERIF_SRC', '/')):
            raise SystemExit('wrong pysph imported: %s' % pysph.__file__)
        self.M = M
        apply_mutation(mutate)
        src = gen_source(M, mutate)
        modname = 'c04gen_%s_%d' % (M['mid'], os.getpid())
        with open(modname + '.py', 'w') as fp:
            fp.write(src)
        sys.path.insert(0, os.getcwd())
        G = importlib.import_module(modname)
        self.G = G
        names = [a['name'] for a in M['arrs']]
        self.names = names
        rec = Recorder(names)
        G.REC = rec
        self.rec = rec
        self.shipped_stepper = M.get('stepper')
        rec.vis = not self.shipped_stepper
        # arrays (their properties decide the generated code)
        self.arrays = []
        self.stepper_objs = []
        for ai, arr in enumerate(M['arrs']):
            pa = get_particle_array(name=arr['name'], x=np.zeros(0))
            for p in ('s', 'v', 'au', 'uid'):
                pa.add_property(p)
            if self.shipped_stepper:
                st = resolve(self.shipped_stepper)()
                self._add_stepper_props(pa, st)
            else:
                pa.add_constant('elog', np.zeros(4 * CAP))
                pa.add_constant('ecnt', [0.0])
                st = getattr(G, stepper_class(M, ai))(k=float(arr['k0']))
            self.arrays.append(pa)
            self.stepper_objs.append(st)
        if M['kind'] == 'gen':
            cls = G.ProbeIntegrator
        else:
            cls = resolve(M['cls'])
        # keyword order deliberately not sorted
        kw = dict((names[ai], self.stepper_objs[ai])
                  for ai in reversed(range(len(names))))
        self.integrator = cls(**kw)
        self.integrator.variant = 0
        groups = []
        for i in range(M['ne']):
            g = []
            for ai, nm in enumerate(names):
                ecls = getattr(G, 'Acc%s%d' % ('Log' if ai == 0 else '', i))
                g.append(ecls(dest=nm, sources=list(names)))
            groups.append(g)
        eqs = MultiStageEquations(groups) if M['ne'] > 1 else groups[0]
        kernel = CubicSpline(dim=1)
        self.a_evals = make_acceleration_evals(self.arrays, eqs, kernel)
        comp = SPHCompiler(self.a_evals, self.integrator)
        comp.compile()

        outer = self

        class LogNNPS(LinkedListNNPS):
            def update(self):
                outer.rec.event('nnps')
                LinkedListNNPS.update(self)

            def update_domain(self):
                outer.rec.event('domain')
                LinkedListNNPS.update_domain(self)
                outer.rec.after_domain()

        self.LogNNPS = LogNNPS
        self.DomainManager = DomainManager
        self.nnps = {}
        self.integrator.set_post_stage_callback(rec.post)

    def _add_stepper_props(self, pa, st):
        """a shipped stepper needs its own properties: every d_* argument of
        its methods becomes a double property; the stride is read off the
        index expressions (d_p[d_idx] / d_p[d_idx*N + ..]); anything else is
        not covered (reported, never guessed)"""
        import inspect
        import re
        strides = {}
        for name in dir(st):
            if not (name == 'initialize' or (name.startswith('stage')
                                             and name[5:].isdigit())):
                continue
            meth = getattr(st, name)
            src = inspect.getsource(meth)
            for arg in inspect.getfullargspec(meth).args:
                if arg.startswith('d_') and arg != 'd_idx':
                    strides.setdefault(arg[2:], 1)
            for m in re.finditer(r'\bd_(\w+)\[([^\]]*)\]', src):
                p, ix = m.group(1), m.group(2).strip()
                if ix == 'd_idx':
                    continue
                mm = re.match(r'^(?:d_idx\s*\*\s*(\d+)|(\d+)\s*\*\s*d_idx)'
                              r'\s*(\+\s*\w+)?$', ix)
                if not mm:
                    raise Uncovered('%s.%s indexes d_%s[%s]' % (
                        type(st).__name__, name, p, ix))
                strides[p] = max(strides.get(p, 1),
                                 int(mm.group(1) or mm.group(2)))
        for p, n in sorted(strides.items()):
            if p in pa.constants:
                continue
            if p in pa.properties:
                if n != pa.stride.get(p, 1):
                    raise Uncovered('property %s needs stride %d' % (p, n))
                continue
            pa.add_property(p, stride=n)

    def get_nnps(self, periodic):
        if periodic not in self.nnps:
            dom = None
            if periodic:
                dom = self.DomainManager(xmin=XMIN, xmax=XMAX,
                                         periodic_in_x=True)
            # dim=3 although the particles lie on a line (cf. c19_driver)
            n = self.LogNNPS(dim=3, particles=self.arrays, radius_scale=2.0,
                             domain=dom)
            self.nnps[periodic] = n
        return self.nnps[periodic]

    # -- data ----------------------------------------------------------------
    def x0(self, ai, p, ghost):
        if ai == 0:
            return 2.0 if ghost else float(p)
        if ai == 1:
            return 6.0 if ghost else float(2 * p + 3)
        return 10.0 if ghost else float(8 + p)

    def fill(self, case):
        rng = np.random.RandomState(case.get('seed', 0) + 7)
        for ai, pa in enumerate(self.arrays):
            n = pa.get_number_of_particles()
            if n:
                pa.remove_particles(np.arange(n, dtype=np.int64))
            nr, ng = case['nreal'][ai], case['nghost'][ai]
            if case['periodic']:
                ng = 0
            tot = nr + ng
            if tot == 0:
                pa.align_particles()
                continue
            x = np.array([self.x0(ai, p, False) for p in range(nr)] +
                         [self.x0(ai, p, True) for p in range(ng)])
            props = dict(
                x=x, h=H * np.ones(tot), m=np.ones(tot),
                s=np.array([2.0 + p + 4 * (ai + 1) for p in range(nr)] +
                           [2.0 + p + 4 * (ai + 1) for p in range(ng)]),
                v=np.zeros(tot), au=np.zeros(tot),
                uid=np.arange(tot, dtype=float),
                tag=np.array([0] * nr + [2] * ng, dtype=np.int32))
            if self.shipped_stepper:
                # shipped steppers: dyadic, non-zero data in every property
                for p in pa.properties:
                    if p in props or p in ('gid', 'pid', 'tag'):
                        continue
                    props[p] = rng.randint(
                        1, 8, size=tot * pa.stride.get(p, 1)) / 4.0
                props['au'] = np.zeros(tot)
            pa.add_particles(**props)
            pa.align_particles()

    def snapshot(self):
        out = []
        for pa in self.arrays:
            nr = pa.get_number_of_particles(real=True)
            g = lambda k: pa.get(k, only_real_particles=False)  # noqa: E731
            x, s, v, au, tag = g('x'), g('s'), g('v'), g('au'), g('tag')
            uid = g('uid')
            ps = []
            for p in range(len(x)):
                vals = [x[p], s[p], v[p], au[p]]
                iv = [int(round(z)) for z in vals]
                if any(abs(a - b) > 0 for a, b in zip(vals, iv)) or \
                        any(abs(z) >= (1 << 30) for z in iv):
                    raise OverflowError('non-integer / large data %r' % vals)
                ps.append(dict(x=iv[0], s=iv[1], v=iv[2], au=iv[3],
                               g=bool(tag[p] != 0), uid=int(uid[p])))
            if any(ps[p]['g'] != (p >= nr) for p in range(len(ps))):
                raise RuntimeError('ghosts not at the end of the array')
            out.append(ps)
        return out

    def raw(self):
        """bit patterns of every property of every particle (shipped
        steppers: which particles did the step touch?)"""
        out = []
        for pa in self.arrays:
            d = {}
            for p in sorted(pa.properties):
                d[p] = pa.get(p, only_real_particles=False).copy()
            out.append(d)
        return out

    # -- one case ------------------------------------------------------------
    def run_case(self, case):
        M = self.M
        rec = self.rec
        q = case['q']
        periodic = bool(case['periodic'])
        self.fill(case)
        nnps = self.get_nnps(periodic)
        for ae in self.a_evals:
            ae.set_nnps(nnps)
        self.integrator.set_nnps(nnps)
        self.integrator.variant = case['variant']
        for ai, st in enumerate(self.stepper_objs):
            if not self.shipped_stepper:
                st.k = float(M['arrs'][ai]['k0'])
        rec.active = False
        LL = self.LogNNPS.__mro__[1]
        LL.update_domain(nnps)       # creates the periodic images
        LL.update(nnps)              # neighbours fresh at the first step
        ops = (M['variants'][case['variant']] if M['kind'] == 'gen'
               else M['ops'])
        tr = dict(id=case['id'], mid=M['mid'], e=int(case['e']),
                  vis=bool(rec.vis), ops=ops,
                  steps=case['steps'], periodic=periodic,
                  variant=case['variant'], q=q)
        init = self.snapshot()
        tr['arrs'] = [dict(name=a['name'], k0=a['k0'], meth=a['meth'],
                           nreal=self.arrays[ai].get_number_of_particles(
                               real=True))
                      for ai, a in enumerate(M['arrs'])]
        tr['init'] = init
        before = self.raw() if self.shipped_stepper else None
        rec.start(self.arrays, q, periodic)
        err = None
        try:
            for st in case['steps']:
                self.integrator.step(st['t'] * q, st['dt'] * q)
            rec.flush()
        except Exception as ex:
            err = '%s: %s' % (type(ex).__name__, ex)
        rec.active = False
        tr['log'] = rec.log
        tr['dom'] = rec.dom
        if err is None:
            try:
                tr['fin'] = self.snapshot()
            except (OverflowError, RuntimeError) as ex:
                if not self.shipped_stepper:
                    err = '%s: %s' % (type(ex).__name__, ex)
                tr['fin'] = init
        else:
            tr['fin'] = init
        if self.shipped_stepper:
            after = self.raw()
            touched = []
            for ai in range(len(self.arrays)):
                n = len(init[ai])
                t_ = []
                for p in range(n):
                    ch = any(
                        before[ai][k].reshape(n, -1)[p].tobytes() !=
                        after[ai][k].reshape(n, -1)[p].tobytes()
                        for k in before[ai]
                        if len(after[ai][k]) == len(before[ai][k]))
                    t_.append(bool(ch))
                touched.append(t_)
            tr['touched'] = touched
            tr['fin'] = init
        else:
            tr['touched'] = [[False] * len(a) for a in init]
        if err:
            tr['error'] = err
        return tr


def main():
    import resource
    resource.setrlimit(resource.RLIMIT_AS, (8 << 30, 8 << 30))
    resource.setrlimit(resource.RLIMIT_CORE, (0, 0))
    job = json.load(open(sys.argv[1]))
    mutate = os.environ.get('C04_MUTATE') or None
    out = open(sys.argv[2], 'w')
    if not source_ok():
        out.write(json.dumps(dict(stale_source=True)) + '\n')
        out.close()
        sys.exit(0)
    try:
        rt = Runtime(job['module'], mutate)
    except Uncovered as ex:
        out.write(json.dumps(dict(uncovered=str(ex))) + '\n')
        out.close()
        sys.exit(0)
    except BaseException:
        out.write(json.dumps(dict(setup_error=traceback.format_exc()[-3000:]))
                  + '\n')
        out.close()
        sys.exit(3)
    out.write(json.dumps(dict(ready=job['module']['mid'])) + '\n')
    out.flush()
    for case in job['cases']:
        try:
            tr = rt.run_case(case)
        except OverflowError as ex:
            tr = dict(id=case['id'], skipped=str(ex))
        out.write(json.dumps(tr) + '\n')
        out.flush()
    # still the tree we were asked about?
    out.write(json.dumps(dict(end=True, source_ok=source_ok())) + '\n')
    out.close()


if __name__ == '__main__':
    main()
