"""C07 - periodic and mirror domains create exactly the right ghosts.

Design:  Domain.tla - the per-axis passes of the implementation (remove
         ghosts, wrap, x then y then z images of reals and earlier images;
         mirror passes on everything present) produce exactly the declarative
         image set, without duplicates, and a second update changes nothing,
         for every input of small 1-D and 2-D instances.
Binding: scenarios on an integer lattice are run through the real
         DomainManager; per round and array the reals before, all rows after
         the update and after a second update are decided by TLC
         (TraceDomain.tla): Wrapped, RealsFirst, GhostsTagged, NoneMissing,
         NoneSpurious, NoDuplicates, Idempotent.
"""
import json
import os
import random
import sys
from concurrent.futures import ThreadPoolExecutor

sys.path.insert(0, os.path.dirname(os.path.dirname(os.path.abspath(__file__))))
from mbv import tlc                                   # noqa: E402
from mbv.harness import Check, MachineryError, main   # noqa: E402


def scenarios(rng, n, tag='r'):
    for k in range(n):
        dim = rng.choice([1, 2, 2, 3])
        # box limits per axis (different lengths and offsets per axis)
        lo3 = [rng.choice([0, 0, 1, -2]) for c in range(3)]
        len3 = [rng.choice([6, 8, 12]) for c in range(3)]
        if rng.random() < 0.3:
            len3 = [len3[0]] * 3
        hi3 = [lo3[c] + len3[c] for c in range(3)]
        L = min(len3)
        kind = rng.choice(['per', 'per', 'mir', 'mix'])
        per = [False] * 3
        mir = [False] * 3
        for a in range(dim):
            r = rng.random()
            if kind == 'per' and r < 0.75:
                per[a] = True
            elif kind == 'mir' and r < 0.75:
                mir[a] = True
            elif kind == 'mix':
                if r < 0.4:
                    per[a] = True
                elif r < 0.8:
                    mir[a] = True
        if not any(per) and not any(mir):
            (per if kind != 'mir' else mir)[0] = True
        rs = rng.choice([1, 2])
        nl = rng.choice([1, 2, 3])
        hvals = rng.choice([(1,), (1,), (1, 2)])
        if nl * rs * max(hvals) >= L:
            nl, rs, hvals = 1, 1, (1,)
        na = rng.choice([1, 1, 2])
        arrays = []
        pid = 0
        for a in range(na):
            ps = []
            for i in range(rng.choice([0, 1, 2, 3, 5])):
                p = dict(id=pid, h=rng.choice(hvals), u=rng.randint(-3, 3),
                         v=rng.randint(-3, 3), w=rng.randint(-3, 3),
                         q=rng.randint(1, 9))
                pid += 1
                for c, ax in enumerate('xyz'):
                    if c >= dim:
                        p[ax] = 0
                    elif per[c]:
                        p[ax] = lo3[c] + rng.choice(
                            [0, len3[c], -1, len3[c] + 1, -2, 1, len3[c] - 1,
                             rng.randint(-2, len3[c] + 2)])
                    else:
                        p[ax] = lo3[c] + rng.choice(
                            [0, len3[c], 1, len3[c] - 1,
                             rng.randint(0, len3[c])])
                ps.append(p)
            arrays.append(dict(particles=ps))
        hmax = max([p['h'] for a in arrays for p in a['particles']] or [1])
        moves = []
        for r in range(rng.choice([0, 0, 1, 2, 3])):
            mv = []
            for a, arr in enumerate(arrays):
                for p in arr['particles']:
                    if rng.random() < 0.5:
                        d = [rng.randint(-2, 2) if c < dim and per[c] else 0
                             for c in range(3)]
                        mv.append([a, p['id']] + d)
            moves.append(mv)
        unit, origin = rng.choice([(0.5, 0.0), (0.25, 0.0), (0.5, 64.0),
                                   (2.0 ** -8, 0.0)])
        yield dict(
            id='%s%d' % (tag, k), dim=dim, rs=rs, n_layers=nl, unit=unit,
            origin=origin, arrays=arrays, moves=moves,
            cfg=dict(lo=lo3, hi=hi3, per=per, mir=mir, layer=nl * rs * hmax,
                     copyq=rng.random() < 0.6))


def run():
    chk = Check('C07', 'model_checking')
    rng = random.Random(chk.seed + 7)
    quick = chk.tier == 'quick'
    sc = chk.scratch
    if chk.args.replay:
        scens = [json.load(open(chk.args.replay))['case']['scenario']]
        designs = []
    else:
        chk.env

        def des(n):
            r = tlc.run('Domain', 'Domain.%s.cfg' % n, workers=6, timeout=2400)
            if r.get('error') or r.get('timeout'):
                raise MachineryError('TLC design %s failed:\n%s' % (
                    n, r['out'][-2000:]))
            return n, r
        pool = ThreadPoolExecutor(max_workers=2)
        dfut = [pool.submit(des, n) for n in ('d1', 'd2')]
        scens = list(scenarios(rng, 6000 if quick else 60000))
        designs = None
    nproc = 16
    files = []
    for i in range(nproc):
        part = scens[i::nproc]
        if not part:
            continue
        fi = os.path.join(sc, 'scen%d.ndjson' % i)
        with open(fi, 'w') as fp:
            for s in part:
                fp.write(json.dumps(s) + '\n')
        files.append((fi, os.path.join(sc, 'out%d.ndjson' % i)))
    with ThreadPoolExecutor(max_workers=nproc) as ex:
        list(ex.map(lambda io: chk.run_py('checks/c07_driver.py', list(io),
                                          timeout=7000), files))
    recs = []
    for fi, fo in files:
        recs += [l for l in open(fo)]
    batches = []
    for i in range(0, len(recs), 250):
        f = os.path.join(sc, 'batch%d.ndjson' % (i // 250))
        open(f, 'w').writelines(recs[i:i + 250])
        batches.append(f)
    try:
        verdicts, st = tlc.validate_batches('TraceDomain', 'TraceDomain.cfg',
                                            batches, parallel=12)
    except tlc.TLCError as ex:
        raise MachineryError(str(ex))
    if len(verdicts) != len(recs):
        raise MachineryError('verdicts %d != records %d' % (
            len(verdicts), len(recs)))
    if designs is None:
        designs = [f.result() for f in dfut]
    by_id = {s['id']: s for s in scens}
    nontrivial = set()
    nghost = 0
    kinds = {}
    for line in recs:
        r = json.loads(line)
        if 'rounds' in r:
            g = sum(1 for rd in r['rounds'] for a in rd for p in a['after']
                    if p['tag'] != 0)
            nghost += g
            if g >= 2:
                nontrivial.add(r['id'])
    for v in verdicts:
        s = by_id[v['id']]
        if not v['failed']:
            continue
        clauses = sorted(set(f[2] for f in v['failed']))
        known = []
        # C07-mirror-second-array: translations of array 1 reused for array 2
        if any(s['cfg']['mir']) and len(s['arrays']) > 1 and \
                all(f[1] >= 2 for f in v['failed']) and \
                chk.known('C07-mirror-second-array'):
            known.append('C07-mirror-second-array')
        if known:
            for k in known:
                chk.known_hit(k)
        else:
            for c in clauses:
                kinds[c] = kinds.get(c, 0) + 1
            chk.violation('scenario %s: %s' % (v['id'], clauses),
                          dict(scenario=s, failed=v['failed']))
    dstates = dtrans = 0
    for n, r in designs:
        dstates += r['distinct']
        dtrans += r['generated']
        if not r['ok']:
            chk.violation('design model Domain.%s: %s' % (n, r['violation']),
                          dict(scenario=None, design=n, out=r['out'][-3000:]))
    ex = scens[min(5, len(scens) - 1)]
    chk.cov.update(dict(
        states=dstates or st['distinct'], transitions=dtrans or st['generated'],
        traces_validated_against_impl=len(verdicts),
        ghost_rows_checked=nghost, failing_clauses=kinds,
        evaluations=len(verdicts), distinct_nontrivial=len(nontrivial),
        rule='a case is one scenario (box, periodic/mirror flags, n_layers, '
             '1-2 arrays, up to 3 move-then-update rounds) run through the '
             'real DomainManager; non-trivial when at least 2 ghost rows are '
             'created',
        samples=[ex],
    ))
    chk.assumptions += [
        'lattice unit is a power of two; layer = n_layers*radius_scale*hmax '
        'is an integer number of units and smaller than the box',
        'an axis is periodic or mirrored, not both; particles leave a '
        'periodic box by less than one period',
    ]
    chk.finish()


if __name__ == '__main__':
    main(run)
