"""Builds logging probe equations from a program description (group tree),
compiles the real AccelerationEval once per program and runs it on several
data sets / condition / convergence scripts, recording the order in which the
compiled code invokes every hook (C03).

usage: c03_driver.py PROGRAMS.ndjson OUT.ndjson WORKDIR
Every program runs in a forked child (a crash is recorded for that program).
"""
import importlib
import json
import os
import sys
import traceback

import numpy as np

HOOKS = ['py_initialize', 'initialize', 'initialize_pair', 'loop_all', 'loop',
         'post_loop', 'reduce']
CODE = {'py_initialize': 1, 'initialize': 2, 'initialize_pair': 3,
        'loop_all': 4, 'loop': 5, 'post_loop': 6, 'reduce': 7,
        'condition': 10, 'pre': 11, 'post': 12, 'update_domain': 13,
        'nnps_update': 14}
NAME = {v: k for k, v in CODE.items()}
W = 5
LOGN = 40000

C_BODY = '''        k = declare('int')
        k = int(d_cnt[0])
        d_log[5*k] = self.eid
        d_log[5*k+1] = %(code)d
        d_log[5*k+2] = d_idx
        d_log[5*k+3] = %(s)s
        d_log[5*k+4] = %(a)s
        d_cnt[0] += 1
'''
PY_BODY = '''        k = int(dst.cnt[0])
        dst.log[5*k:5*k+5] = [self.eid, %(code)d, -1, -1, -1]
        dst.cnt[0] += 1
'''


def class_source(mask):
    hooks = [h for i, h in enumerate(HOOKS) if mask & (1 << i)]
    s = ['class Pm%d(Equation):' % mask,
         '    def __init__(self, dest, sources, eid, script):',
         '        self.eid = eid',
         '        self.script = np.asarray(script, dtype=float)',
         '        self.ncalls = 0',
         '        super(Pm%d, self).__init__(dest, sources)' % mask, '']
    for h in hooks:
        if h == 'py_initialize':
            s += ['    def py_initialize(self, dst, t, dt):',
                  PY_BODY % dict(code=CODE[h])]
        elif h == 'reduce':
            s += ['    def reduce(self, dst, t, dt):',
                  PY_BODY % dict(code=CODE[h])]
        elif h == 'initialize':
            s += ['    def initialize(self, d_idx, d_log, d_cnt):',
                  C_BODY % dict(code=CODE[h], s='-1', a='-1')]
        elif h == 'post_loop':
            s += ['    def post_loop(self, d_idx, d_log, d_cnt):',
                  C_BODY % dict(code=CODE[h], s='-1', a='-1')]
        elif h == 'initialize_pair':
            s += ['    def initialize_pair(self, d_idx, d_log, d_cnt, s_aid):',
                  C_BODY % dict(code=CODE[h], s='-1', a='s_aid[0]')]
        elif h == 'loop_all':
            s += ['    def loop_all(self, d_idx, d_log, d_cnt, s_aid, NBRS, '
                  'N_NBRS):',
                  C_BODY % dict(code=CODE[h], s='-1', a='s_aid[0]')]
        elif h == 'loop':
            s += ['    def loop(self, d_idx, s_idx, d_log, d_cnt, s_aid):',
                  C_BODY % dict(code=CODE[h], s='s_idx', a='s_aid[0]')]
    s += ['    def converged(self):',
          "        i = declare('int')",
          '        i = self.ncalls',
          '        self.ncalls += 1',
          '        if self.script[i] > 0.5:',
          '            return 1.0',
          '        else:',
          '            return -1.0', '']
    return '\n'.join(s)


def mask_of(hooks):
    return sum(1 << HOOKS.index(h) for h in hooks)


def all_eqs(prog):
    for g in prog:
        if g['sub']:
            for sg in g['sub']:
                for e in sg['eqs']:
                    yield e
        else:
            for e in g['eqs']:
                yield e


def write_module(prog, workdir, name):
    masks = sorted(set(mask_of(e['hooks']) for e in all_eqs(prog)))
    src = ['import numpy as np', 'from pysph.sph.equation import Equation',
           'from compyle.api import declare', '']
    for m in masks:
        src.append(class_source(m))
    path = os.path.join(workdir, name + '.py')
    with open(path, 'w') as fp:
        fp.write('\n'.join(src))
    if workdir not in sys.path:
        sys.path.insert(0, workdir)
    return importlib.import_module(name)


class Env(object):
    """Scripts for condition() answers; logs Python-level callables."""

    def __init__(self):
        self.cond = {}
        self.ncond = {}
        self.log = None
        self.cnt = None
        self.nnps = None
        self.narrays = 0
        self.ndisturb = 0

    def disturb(self):
        # a user callable may use the shared NNPS for its own queries
        nn = self.nnps
        if nn is not None and self.narrays:
            self.ndisturb += 1
            a = self.ndisturb % self.narrays
            b = (self.ndisturb // self.narrays) % self.narrays
            nn.set_context(a, b)

    def event(self, gid, code):
        if gid >= 0:
            self.disturb()
        k = int(self.cnt[0])
        self.log[W * k:W * k + W] = [gid, code, -1, -1, -1]
        self.cnt[0] += 1

    def mk_pre(self, gid):
        return lambda: self.event(gid, CODE['pre'])

    def mk_post(self, gid):
        return lambda: self.event(gid, CODE['post'])

    def mk_cond(self, gid):
        def cond(t, dt):
            self.event(gid, CODE['condition'])
            k = self.ncond.get(gid, 0)
            self.ncond[gid] = k + 1
            return bool(self.cond[str(gid)][k])
        return cond


def build(prog, arrays, mod, env):
    from pysph.base.utils import get_particle_array
    from pysph.base.kernels import CubicSpline
    from pysph.sph.equation import Group
    from pysph.sph.acceleration_eval import AccelerationEval
    from pysph.sph.sph_compiler import SPHCompiler
    pas = []
    log = np.zeros(W * LOGN)
    for i, a in enumerate(arrays):
        n = a['nall']
        pa = get_particle_array(name='a%d' % i, x=np.zeros(n),
                                h=np.ones(n) * 0.75)
        pa.add_constant('log', log)
        pa.add_constant('cnt', [0.0])
        pa.add_constant('aid', [float(i)])
        pa.add_constant('stv', [0.0])
        pa.add_constant('spv', [0.0])
        pas.append(pa)
    for pa in pas[1:]:
        pa.constants['log'] = pas[0].constants['log']
        pa.constants['cnt'] = pas[0].constants['cnt']
    env.log = pas[0].constants['log'].get_npy_array()
    env.cnt = pas[0].constants['cnt'].get_npy_array()
    eq_objs = {}

    def mk_eq(e):
        cls = getattr(mod, 'Pm%d' % mask_of(e['hooks']))
        o = cls('a%d' % e['dest'], ['a%d' % s for s in e['srcs']] or None,
                float(e['eid']), [1.0] * 16)
        eq_objs[e['eid']] = o
        return o

    def mk_group(g, top=True):
        kw = dict(real=bool(g['real']), update_nnps=bool(g['upd']))
        if g['sprop']:
            kw['start_idx'] = 'stv'
        else:
            kw['start_idx'] = g['start']
        if g['pprop']:
            kw['stop_idx'] = 'spv'
        elif g['stop'] >= 0:
            kw['stop_idx'] = g['stop']
        if g.get('iterate'):
            kw.update(iterate=True, max_iterations=g['maxit'],
                      min_iterations=g['minit'])
        if g['haspre']:
            kw['pre'] = env.mk_pre(g['gid'])
        if g['haspost']:
            kw['post'] = env.mk_post(g['gid'])
        if g['hascond']:
            kw['condition'] = env.mk_cond(g['gid'])
        if g.get('name'):
            kw['name'] = g['name']
        if g['sub']:
            eqs = [mk_group(sg, False) for sg in g['sub']]
        else:
            eqs = [mk_eq(e) for e in g['eqs']]
        return Group(equations=eqs, **kw)
    groups = [mk_group(g) for g in prog]
    ae = AccelerationEval(pas, groups, CubicSpline(dim=1))
    SPHCompiler(ae, None).compile()
    return pas, ae, eq_objs


def make_nnps(pas, env):
    from pysph.base.nnps import LinkedListNNPS

    class LoggingNNPS(LinkedListNNPS):
        armed = False

        def update_domain(self):
            if self.armed:
                env.event(-1, CODE['update_domain'])
            return LinkedListNNPS.update_domain(self)

        def update(self):
            if self.armed:
                env.event(-1, CODE['nnps_update'])
            return LinkedListNNPS.update(self)
    return LoggingNNPS(dim=1, particles=pas, radius_scale=2.0)


def run_program(p, workdir):
    prog = p['prog']
    env = Env()
    mod = write_module(prog, workdir, 'probe_%s' % p['pid'])
    pas, ae, eq_objs = build(prog, p['runs'][0]['arr'], mod, env)
    out = []
    for r in p['runs']:
        # set the data of this run
        for pa, a in zip(pas, r['arr']):
            n = a['nall']
            if pa.get_number_of_particles() != n:
                pa.resize(n)
            x = pa.get_carray('x').get_npy_array()
            x[:] = np.array(a['pos'], dtype=float)
            pa.get_carray('h').get_npy_array()[:] = 0.75
            for nm in ('y', 'z'):
                pa.get_carray(nm).get_npy_array()[:] = 0.0
            tag = pa.get_carray('tag').get_npy_array()
            tag[:a['nreal']] = 0
            tag[a['nreal']:] = 2
            pa.align_particles()
            pa.stv[0] = a['stv']
            pa.spv[0] = a['spv']
        env.cnt[0] = 0
        env.cond = r['env']['cond']
        env.ncond = {}
        c = ae.c_acceleration_eval
        for eid, o in eq_objs.items():
            co = getattr(c, o.var_name)
            co.ncalls = 0
            co.script = np.asarray(r['env']['conv'][str(eid)], dtype=float)
        nn = make_nnps(pas, env)
        ae.set_nnps(nn)
        env.nnps = nn
        env.narrays = len(pas)
        nn.armed = True
        ae.compute(0.0, 0.125)
        nn.armed = False
        n = int(env.cnt[0])
        L = env.log[:W * n].reshape(n, W)
        log = [dict(k=NAME[int(row[1])], id=int(row[0]), d=int(row[2]),
                    s=int(row[3]), a=int(row[4])) for row in L]
        vc = {str(eid): int(getattr(c, o.var_name).ncalls)
              for eid, o in eq_objs.items()}
        out.append(dict(id='%s/%d' % (p['pid'], r['rid']), prog=prog,
                        arr=r['arr'], env=r['env'], log=log, vc=vc))
    return out


def main():
    import resource
    import signal
    import pysph.base.utils        # noqa: F401
    import pysph.sph.equation      # noqa: F401
    progs = [json.loads(l) for l in open(sys.argv[1])]
    workdir = sys.argv[3]
    os.makedirs(workdir, exist_ok=True)
    with open(sys.argv[2], 'w') as fo:
        for p in progs:
            r, w = os.pipe()
            pid = os.fork()
            if pid == 0:
                os.close(r)
                resource.setrlimit(resource.RLIMIT_AS, (8 << 30, 8 << 30))
                signal.alarm(900)
                try:
                    recs = run_program(p, workdir)
                except Exception as ex:
                    recs = [dict(id='%s/0' % p['pid'], prog=p['prog'],
                                 error='%s: %s' % (type(ex).__name__, ex),
                                 tb=traceback.format_exc()[-1500:])]
                with os.fdopen(w, 'w') as wf:
                    for rec in recs:
                        wf.write(json.dumps(rec) + '\n')
                os._exit(0)
            os.close(w)
            with os.fdopen(r) as rf:
                data = rf.read()
            _, st = os.waitpid(pid, 0)
            if os.WIFSIGNALED(st) or not data.endswith('\n'):
                fo.write(json.dumps(dict(id='%s/0' % p['pid'], prog=p['prog'],
                                         crash='signal')) + '\n')
            else:
                fo.write(data)


if __name__ == '__main__':
    main()
