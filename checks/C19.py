"""C19 - the adaptive time step is the documented minimum over all particles.

Design:   TLC runs TimeStepMC.tla: the decision structure of
          Integrator.compute_time_step / Solver._compute_timestep (mechanism
          layer of TimeStep.tla, the code as it is: Df = {}) over EVERY case
          of a small input universe; `Documented` (the property layer,
          Allowed / PBounds, no masking) and `Functional` must hold.  Side
          runs re-introduce each repaired defect in the model (Df = {id}):
          TLC must exhibit a violating case, which measures that the
          universe is sensitive to it.
Binding:  TLC prints every case of the universe (Call action); each one is
          run through the real code by checks/c19_driver.py (real
          ParticleArrays, real NNPS, real Integrator and Solver), together
          with random larger cases; TraceTimeStep.tla evaluates the property
          layer on every recorded result (verdict) and compares it with the
          mechanism model (drift).  Only findings of status "known" in
          known_findings.json can explain a failure (none at present).
Selftest: --selftest re-introduces a repaired defect in the driver process
          only and demands that the check reports violations.
"""
import json
import os
import random
import shutil
import sys
import time
from concurrent.futures import ThreadPoolExecutor
from fractions import Fraction

sys.path.insert(0, os.path.dirname(os.path.dirname(os.path.abspath(__file__))))
from mbv import tlc                                   # noqa: E402
from mbv.harness import Check, MachineryError, main   # noqa: E402

BASE = dict(MaxArr=2, MaxReal=2, MaxGhost=1, MaxPart=2, MaxFlags=2,
            HVals='H5', AVals='A3', CVals='C3', FVals='F3', VVals='V3',
            CflVals='Cfl1', Dt='Dt1000')
# design universes per tier (constants of TimeStepMC.tla; value sets by name)
UNIVERSES = {
    'quick': [dict(BASE, HVals='H4', CVals='C2', FVals='F2', VVals='V2')],
    'thorough': [dict(BASE),
                 dict(BASE, MaxArr=3, HVals='H3', VVals='V2')],
}
NRANDOM = {'quick': 6000, 'thorough': 60000}
# history leg (constants of TimeStepHistMC.tla)
HBASE = dict(NArr=2, NAsks=3, MaxOps=1, MaxReal=2, HVals='H2', AVals='A1',
             CVals='C1', NDamps='{0, 2}', Cfl='CflHalf', Dt='Dt1000')
HUNIVERSES = {
    'quick': [dict(HBASE)],
    'thorough': [dict(HBASE, HVals='H3', NDamps='{0, 2, 3}')],
}
NRANDOMH = {'quick': 2000, 'thorough': 20000}
HDEFECTS = ('H-cache-nonempty', 'H-double-damp')
MAXREPLAYS = 40
# run leg (constants of TimeStepRunMC.tla)
RBASE = dict(NStates=3, MaxSteps=3, CVals='RC3', BH='RBH2', NDamps='{0, 2}',
             OutSets='ROut2', Tfs='RTf1', Dt='RDtQuarter')
RUNIVERSES = {
    'quick': [dict(RBASE)],
    'thorough': [dict(RBASE, OutSets='ROut4', Tfs='RTf2')],
}
NRANDOMR = {'quick': 3000, 'thorough': 30000}
RDEFECTS = ('R-prev-dt-reused', 'R-ask-before-initial')
RINPUT_KEYS = ('cfl', 'dt', 'ndamp', 'tf', 'outs', 'pfreq', 'maxsteps',
               'states')
DEFECTS = ('C19-hmin-starts-at-1', 'C19-empty-array-hmin',
           'C19-dt-adapt-ghost-only', 'C19-dt-adapt-no-particles')
INPUT_KEYS = ('cfl', 'dt', 'fixed_h', 'late', 'arrays')
HINPUT_KEYS = ('cfl', 'dt', 'fixed_h', 'ndamp', 'init')


def write_cfg(path, b, invariants, emit, defects=()):
    with open(path, 'w') as fp:
        fp.write('SPECIFICATION Spec\nCONSTANTS\n')
        for k, v in b.items():
            fp.write('  %s %s %s\n' % (k, '<-' if isinstance(v, str) else '=',
                                       v))
        fp.write('  Df = {%s}\n' % ', '.join('"%s"' % d for d in defects))
        fp.write('  Emit = %s\n' % ('TRUE' if emit else 'FALSE'))
        for i in invariants:
            fp.write('INVARIANT %s\n' % i)
        fp.write('CHECK_DEADLOCK FALSE\n')


def write_hcfg(path, b, emit, defects=(), dname='HDf'):
    with open(path, 'w') as fp:
        fp.write('SPECIFICATION Spec\nCONSTANTS\n')
        for k, v in b.items():
            named = isinstance(v, str) and not v.startswith('{')
            fp.write('  %s %s %s\n' % (k, '<-' if named else '=', v))
        fp.write('  %s = {%s}\n' % (dname, ', '.join('"%s"' % d
                                                     for d in defects)))
        fp.write('  Emit = %s\n' % ('TRUE' if emit else 'FALSE'))
        fp.write('INVARIANT Functional\nINVARIANT Documented\n'
                 'CHECK_DEADLOCK FALSE\n')


def run_tlc(cfg, workers, module='TimeStepMC'):
    """TLC on a design model; one retry when the JVM died without a
    verdict."""
    for attempt in (0, 1):
        r = tlc.run(module, cfg, workers=workers, timeout=3000)
        if not (r.get('error') or r.get('timeout')):
            return r
    raise MachineryError('TLC design run failed:\n' + r['out'][-3000:])


def design(chk):
    """Design runs.  Returns (cases printed by TLC, info for the evidence)."""
    sc = chk.scratch
    cases = []
    info = dict(states=0, transitions=0, universes=[], sensitivity={})
    for ui, b in enumerate(UNIVERSES[chk.tier]):
        # (1) sensitivity: each repaired defect, re-introduced in the model
        # alone, must make TLC find a case violating the statement
        finds = []
        for fid in DEFECTS:
            c = os.path.join(sc, 'sens-%d-%s.cfg' % (ui, fid))
            write_cfg(c, b, ['Documented'], False, defects=(fid,))
            finds.append((fid, c))
        # (2) the complete run on the code as it is: the statement holds on
        # every case, no masking; cases printed
        c1 = os.path.join(sc, 'full-%d.cfg' % ui)
        write_cfg(c1, b, ['Functional', 'Documented'], True)
        with ThreadPoolExecutor(max_workers=6) as ex:
            ffind = [(fid, ex.submit(run_tlc, c, 2)) for fid, c in finds]
            full = run_tlc(c1, 12)
            found = [(fid, f.result()) for fid, f in ffind]
        if not full['ok']:
            # The model of the current decision structure violates the
            # statement on some case.  The model does not read /repo: this
            # is a fault of the specification (or the model must follow a
            # change of the code); the universe cannot be completed.
            raise MachineryError(
                'design model: invariant %s violated\n%s' % (
                    full['violation'], full['out'][-2500:]))
        got = tlc.parse_prints(full['out'], 'CASE')
        for i, c in enumerate(got):
            c['id'] = 'u%d-%d' % (ui, i)
            c['late'] = False
        cases += got
        info['states'] += full['distinct']
        info['transitions'] += full['generated']
        info['universes'].append(dict(constants=b, cases=len(got),
                                      states=full['distinct']))
        for fid, r in found:
            if r['violation'] != 'Documented':
                raise MachineryError(
                    'universe %d is not sensitive to defect %s (TLC found no '
                    'violating case)\n%s' % (ui, fid, r['out'][-1500:]))
            if fid not in info['sensitivity']:
                st = tlc.counterexample(r['out'])
                info['sensitivity'][fid] = (st[-1]['text'][:1500]
                                            if st else '')
    return cases, info


def design_hist(chk, leg='hist'):
    """Design runs of the history leg (TimeStepHistMC.tla) or of the run leg
    (TimeStepRunMC.tla).  Returns the histories / runs printed by TLC and
    info for the evidence."""
    sc = chk.scratch
    if leg == 'run':
        universes, defects, module, dname, tag, pre = (
            RUNIVERSES, RDEFECTS, 'TimeStepRunMC', 'RDf', 'RUN', 'ru')
    else:
        universes, defects, module, dname, tag, pre = (
            HUNIVERSES, HDEFECTS, 'TimeStepHistMC', 'HDf', 'HIST', 'hu')
    hists = []
    info = dict(states=0, transitions=0, universes=[], sensitivity={})
    for ui, b in enumerate(universes[chk.tier]):
        sens = []
        for d in defects:
            c = os.path.join(sc, '%ssens-%d-%s.cfg' % (pre, ui, d))
            write_hcfg(c, b, False, defects=(d,), dname=dname)
            sens.append((d, c))
        c1 = os.path.join(sc, '%sfull-%d.cfg' % (pre, ui))
        write_hcfg(c1, b, True, dname=dname)
        with ThreadPoolExecutor(max_workers=3) as ex:
            fs = [(d, ex.submit(run_tlc, c, 1, module))
                  for d, c in sens]
            full = run_tlc(c1, 4, module)
            found = [(d, f.result()) for d, f in fs]
        if not full['ok']:
            raise MachineryError(
                '%s design model: invariant %s violated\n%s' % (
                    module, full['violation'], full['out'][-2500:]))
        got = tlc.parse_prints(full['out'], tag)
        for i, h in enumerate(got):
            h['id'] = '%s%d-%d' % (pre, ui, i)
        hists += got
        info['states'] += full['distinct']
        info['transitions'] += full['generated']
        info['universes'].append(dict(constants=b, histories=len(got),
                                      states=full['distinct']))
        for d, r in found:
            if r['violation'] != 'Documented':
                raise MachineryError(
                    '%s universe %d is not sensitive to %s\n%s' % (
                        module, ui, d, r['out'][-1500:]))
            if d not in info['sensitivity']:
                st = tlc.counterexample(r['out'])
                info['sensitivity'][d] = (st[-1]['text'][:1500]
                                          if st else '')
    return hists, info


# -- random cases (well formed by construction, see TimeStep.tla) ------------
def fr(x):
    x = Fraction(x)
    return [x.numerator, x.denominator]


def random_case(rng, i):
    narr = rng.choice([1, 1, 2, 2, 3])
    flags = []
    for a in range(narr):
        p = rng.choice([0.0, 0.3, 0.6, 1.0])
        flags.append(dict((k, rng.random() < p)
                          for k in ('adapt', 'cfl', 'force', 'visc')))
    if rng.random() < 0.5:
        for f in flags:
            f['adapt'] = False
    squares = any(f['force'] for f in flags)
    regime = rng.choice(['gt1', 'lt1', 'mixed', 'mixed', 'one'])

    def hval():
        while True:
            a, b = rng.randint(1, 4), rng.randint(1, 4)
            h = Fraction(a, b) ** 2 if squares else \
                Fraction(rng.randint(1, 6), rng.randint(1, 6))
            if regime == 'one':
                return Fraction(1)
            if (regime == 'mixed' or (regime == 'gt1' and h > 1) or
                    (regime == 'lt1' and h < 1)):
                return h

    zero = rng.choice([0.0, 0.15, 0.15, 1.0])

    def val(kind):
        if rng.random() < zero:
            return Fraction(0)
        if kind == 'adapt':
            return Fraction(rng.randint(1, 8), rng.randint(1, 16))
        if kind == 'force':
            return Fraction(rng.randint(1, 3), rng.randint(1, 3)) ** 4
        return Fraction(rng.randint(1, 8), rng.randint(1, 4))

    def particle(has):
        p = dict(h=fr(hval()))
        for k in ('adapt', 'cfl', 'force', 'visc'):
            p[k] = fr(val(k) if has[k] else 0)
        return p

    arrays = []
    for has in flags:
        nr = rng.choice([0, 1, 1, 2, 3, 4])
        ng = rng.choice([0, 0, 0, 1, 2])
        arrays.append(dict(has=has,
                           real=[particle(has) for _ in range(nr)],
                           ghost=[particle(has) for _ in range(ng)]))
    fixed_h = rng.random() < 0.4
    return dict(id='r%d' % i,
                cfl=fr(rng.choice([Fraction(1, 2), Fraction(1, 4),
                                   Fraction(3, 10), Fraction(1), Fraction(2),
                                   Fraction(1, 8), Fraction(9, 10)])),
                dt=fr(rng.choice([Fraction(1000), Fraction(1, 1024),
                                  Fraction(1, 8)])),
                fixed_h=fixed_h,
                late=(not fixed_h) and rng.random() < 0.5,
                arrays=arrays)


def random_history(rng, i):
    """A random history on 1-3 arrays without ghosts: 3-4 asks, 1-3 changes
    between two asks (inlet-like additions, draining, removals, new h)."""
    base = random_case(rng, i)
    squares = any(a['has']['force'] for a in base['arrays'])

    def hval():
        if squares:
            return fr(Fraction(rng.randint(1, 4), rng.randint(1, 4)) ** 2)
        return fr(Fraction(rng.randint(1, 6), rng.randint(1, 6)))

    def particle(has):
        p = dict(h=hval())
        for k in ('adapt', 'cfl', 'force', 'visc'):
            if not has[k] or rng.random() < 0.15:
                v = Fraction(0)
            elif k == 'adapt':
                v = Fraction(rng.randint(1, 8), rng.randint(1, 16))
            elif k == 'force':
                v = Fraction(rng.randint(1, 3), rng.randint(1, 3)) ** 4
            else:
                v = Fraction(rng.randint(1, 8), rng.randint(1, 4))
            p[k] = fr(v)
        return p

    cur = []
    for a in base['arrays']:
        n = rng.choice([0, 0, 1, 2])
        cur.append(dict(has=a['has'], ghost=[],
                        real=[particle(a['has']) for _ in range(n)]))
    init = json.loads(json.dumps(cur))
    asks = [dict(ops=[], arrays=json.loads(json.dumps(cur)), count=0)]
    for k in range(1, rng.choice([3, 3, 4])):
        ops = []
        for _ in range(rng.choice([1, 1, 2, 3])):
            a = rng.randrange(len(cur))
            arr = cur[a]
            kind = rng.choice(['add', 'add', 'removeall', 'removelast',
                               'seth'])
            o = dict(op=kind, a=a + 1, i=0, h=[0, 1], parts=[])
            if kind == 'add' or not arr['real']:
                o['op'] = 'add'
                o['parts'] = [particle(arr['has'])
                              for _ in range(rng.choice([1, 1, 2]))]
                arr['real'] = arr['real'] + json.loads(json.dumps(o['parts']))
            elif kind == 'removeall':
                arr['real'] = []
            elif kind == 'removelast':
                arr['real'] = arr['real'][:-1]
            else:
                o['i'] = rng.randint(1, len(arr['real']))
                o['h'] = hval()
                arr['real'][o['i'] - 1]['h'] = o['h']
            ops.append(o)
        asks.append(dict(ops=ops, arrays=json.loads(json.dumps(cur)),
                         count=k))
    return dict(id='rh%d' % i, cfl=base['cfl'], dt=base['dt'], fixed_h=False,
                ndamp=rng.choice([0, 1, 2, 3]), init=init, asks=asks)


def random_run(rng, i):
    """A random run: 1-3 arrays in random order (often one without
    particles), fixed particle counts, a different state (h and criteria)
    after the initial evaluation and after every step; all values dyadic so
    that every time and step is an exact small rational."""
    narr = rng.choice([1, 2, 2, 3, 3])
    flags = []
    for a in range(narr):
        p = rng.choice([0.3, 0.6, 1.0])
        flags.append(dict((k, rng.random() < p)
                          for k in ('adapt', 'cfl', 'force', 'visc')))
    if rng.random() < 0.6:
        for f in flags:
            f['adapt'] = False
    squares = any(f['force'] for f in flags)
    counts = [rng.choice([0, 1, 1, 2, 3]) for _ in range(narr)]
    if narr > 1 and rng.random() < 0.6:
        counts[rng.randrange(narr)] = 0
    hset = [Fraction(1, 4), Fraction(1), Fraction(4)] if squares else \
        [Fraction(1, 4), Fraction(1, 2), Fraction(1), Fraction(2),
         Fraction(4)]
    vals = dict(adapt=[Fraction(1, 16), Fraction(1, 8), Fraction(3, 16),
                       Fraction(1, 4)],
                cfl=[Fraction(1), Fraction(2), Fraction(4), Fraction(8),
                     Fraction(16)],
                visc=[Fraction(1), Fraction(2), Fraction(4), Fraction(16)],
                force=[Fraction(1), Fraction(16), Fraction(256)])
    nsteps = rng.choice([3, 4, 5, 6])
    zero = rng.choice([0.0, 0.2, 0.5])
    h0 = [[rng.choice(hset) for _ in range(n)] for n in counts]

    def state(first):
        arrs = []
        for a, (has, n) in enumerate(zip(flags, counts)):
            real = []
            for j in range(n):
                # the initial evaluation does not change h
                h = h0[a][j] if first or rng.random() < 0.5 else \
                    rng.choice(hset)
                p = dict(h=fr(h))
                for k in ('adapt', 'cfl', 'force', 'visc'):
                    p[k] = fr(rng.choice(vals[k])
                              if has[k] and rng.random() >= zero else 0)
                real.append(p)
            arrs.append(dict(has=has, real=real, ghost=[]))
        return arrs

    states = [state(True)] + [state(False) for _ in range(nsteps - 1)]
    nouts = rng.choice([0, 1, 1, 2, 3])
    outs = sorted(set(Fraction(rng.randint(1, 96), 64)
                      for _ in range(nouts)))
    tf = rng.choice([Fraction(16), Fraction(16), Fraction(rng.randint(4, 48),
                                                          16)])
    return dict(id='rr%d' % i,
                cfl=fr(rng.choice([Fraction(1, 2), Fraction(1, 4),
                                   Fraction(1)])),
                dt=fr(rng.choice([Fraction(1, 4), Fraction(1, 2),
                                  Fraction(1)])),
                ndamp=rng.choice([0, 0, 1, 2, 3]), tf=fr(tf),
                outs=[fr(x) for x in outs if x < tf],
                pfreq=rng.choice([1, 2, 3]), maxsteps=nsteps, states=states)


# -- real code ---------------------------------------------------------------
def drive(chk, cases, tag, nproc=16, chunk=6000, seed_defect=None):
    """Run the real code over `cases` (driver subprocesses, <= chunk cases
    each).  A driver that dies costs only the case it was working on
    (recorded as k = 'crash')."""
    sc = chk.scratch
    nch = max(1, (len(cases) + chunk - 1) // chunk)
    nch = max(nch, min(nproc, len(cases)))

    def one(i):
        todo = cases[i::nch]
        traces = []
        rnd = 0
        while todo:
            fi = os.path.join(sc, '%s-cases-%d-%d.ndjson' % (tag, i, rnd))
            fo = os.path.join(sc, '%s-traces-%d-%d.ndjson' % (tag, i, rnd))
            with open(fi, 'w') as fp:
                for c in todo:
                    fp.write(json.dumps(c) + '\n')
            env = {'OMP_NUM_THREADS': '1'}
            if seed_defect:
                env['C19_SEED_DEFECT'] = seed_defect
            p = chk.run_py('checks/c19_driver.py', [fi, fo], check=False,
                           env_extra=env)
            got = []
            if os.path.exists(fo):
                with open(fo) as fp:
                    for line in fp:
                        try:
                            got.append(json.loads(line))
                        except ValueError:
                            break
            traces += got
            if len(got) == len(todo) and p.returncode <= 0:
                break           # (a signal after the last case is harmless)
            if p.returncode >= 0:
                # a Python-level failure of the driver itself (set-up of the
                # case, import): not a statement about the code under test
                raise MachineryError('driver failed rc=%d\n%s' % (
                    p.returncode, (p.stderr or '')[-3000:]))
            # killed by a signal while working on the next case
            bad = dict(todo[len(got)])
            bad.update(res=dict(k='crash', v=[0, 1]),
                       sres=dict(k='crash', v=[0, 1]),
                       msg='driver died rc=%d' % p.returncode)
            traces.append(bad)
            todo = todo[len(got) + 1:]
            rnd += 1
        return traces

    with ThreadPoolExecutor(max_workers=nproc) as ex:
        parts = list(ex.map(one, range(nch)))
    return [t for p in parts for t in p]


def validate(chk, traces, tag, per_batch=6000):
    sc = chk.scratch
    files = []
    # batches of about equal cost: an ask of a history costs about as much
    # as a case
    batch, cost = [], 0
    batches = []
    for t in traces:
        batch.append(t)
        cost += (len(t['asks']) + 1 if 'asks' in t else
                 len(t['steps']) + 1 if 'steps' in t else 1)
        if cost >= per_batch:
            batches.append(batch)
            batch, cost = [], 0
    if batch:
        batches.append(batch)
    for i, b in enumerate(batches):
        f = os.path.join(sc, '%s-batch-%d.ndjson' % (tag, i))
        with open(f, 'w') as fp:
            for t in b:
                fp.write(json.dumps(t) + '\n')
        files.append(f)
    try:
        verdicts, st = tlc.validate_batches('TraceTimeStep',
                                            'TraceTimeStep.cfg', files,
                                            parallel=12)
    except tlc.TLCError as ex:
        raise MachineryError(str(ex))
    if len(verdicts) != len(traces):
        raise MachineryError('verdict count %d != traces %d' % (
            len(verdicts), len(traces)))
    return verdicts, st


def inputs_of(t):
    if 'states' in t:
        return {k: t[k] for k in RINPUT_KEYS}
    if 'asks' in t:
        d = {k: t[k] for k in HINPUT_KEYS}
        d['asks'] = [{k: q[k] for k in ('ops', 'arrays', 'count')}
                     for q in t['asks']]
        return d
    return {k: t[k] for k in INPUT_KEYS}


def results_of(t):
    if 'states' in t:
        return 'integrator.step(t, dt) calls: %s' % json.dumps(t['steps'])
    if 'asks' in t:
        return json.dumps([[q['res'], q['kept'], q['step']]
                           for q in t['asks']])
    return 'compute_time_step -> %s, _compute_timestep -> %s' % (
        json.dumps(t['res']), json.dumps(t['sres']))


def judge(chk, traces_by_id, verdicts):
    ndrift = 0
    for r in verdicts:
        v = r['v']
        tr = traces_by_id[v['id']]
        if not v['wellformed']:
            raise MachineryError('case %s is not well formed (inexact root)'
                                 % v['id'])
        if not v['failed']:
            if not r['mech']:
                ndrift += 1
                chk.note_drift('TimeStep', 'case %s: real result %s '
                               'differs from the mechanism model' % (
                                   v['id'], results_of(tr)))
            continue
        what = 'clauses %s fail%s: %s %s' % (
            sorted(v['failed']),
            ' at ask/step %d' % v['step'] if 'step' in v else '',
            results_of(tr), tr.get('msg', ''))
        if v['explained'] and v['known'] and \
                all(chk.known(k) for k in v['known']):
            for k in v['known']:
                chk.known_hit(k)
        elif len(chk.violations) < MAXREPLAYS:
            chk.violation(what, dict(case=inputs_of(tr), id=v['id'],
                                     trace=tr, verdict=r))
        else:
            # (replay files only for the first ones; all are counted)
            chk.cov['violations_without_replay_file'] = \
                chk.cov.get('violations_without_replay_file', 0) + 1
    return ndrift


def nontrivial(t):
    """Some criterion applies: a positive value of an optional property on a
    real particle (the answer is not trivially None)."""
    if 'states' in t:
        return any(nontrivial(dict(arrays=a)) for a in t['states'])
    if 'asks' in t:
        return any(nontrivial(q) for q in t['asks'])
    for a in t['arrays']:
        for p in a['real']:
            for k in ('adapt', 'cfl', 'force', 'visc'):
                if a['has'][k] and p[k][0] > 0:
                    return True
    return False


def selftest(chk, cases):
    """The binding must be live: with a defect re-introduced in the driver
    process (the real code otherwise), the verdicts must contain failures
    that nothing explains.  Writes no evidence and no replay."""
    seeds = [os.environ['C19_SEED_DEFECT']] if \
        os.environ.get('C19_SEED_DEFECT') else \
        ['hmin1', 'cachenonempty', 'doubledamp', 'prevdt', 'askearly',
         'breakempty']
    sub = [c for i, c in enumerate(cases)
           if 'asks' in c or 'states' in c or i % 5 == 0]
    for seed in seeds:
        traces = drive(chk, sub, 's-' + seed, seed_defect=seed)
        verdicts, st = validate(chk, traces, 'sv-' + seed)
        by_tr = {t['id']: t for t in traces}
        caught = [r for r in verdicts
                  if r['v']['failed'] and not r['v']['explained']]
        for r in caught[:2]:
            tr = by_tr[r['v']['id']]
            print('SELFTEST caught: VIOLATION property=C19 seeded=%s clauses '
                  '%s fail%s: inputs %s -> %s' % (
                      seed, sorted(r['v']['failed']),
                      ' at ask %d' % r['v']['step'] if 'step' in r['v']
                      else '', json.dumps(inputs_of(tr))[:700],
                      results_of(tr)))
        print('C19 selftest: seeded defect %r, %d cases/histories, %d '
              'reported as violations' % (seed, len(traces), len(caught)))
        if not caught:
            raise MachineryError('selftest: seeded defect %r was not caught'
                                 % seed)
    sys.exit(0)


def run():
    chk = Check('C19', 'model_checking')
    try:
        check(chk)
    finally:
        if not os.environ.get('VERIF_KEEP_SCRATCH'):
            shutil.rmtree(chk.scratch, ignore_errors=True)


def check(chk):
    rng = random.Random(chk.seed)
    info = hinfo = rinfo = None
    nuni = nhuni = nrand = nruni = 0
    hists = []
    runs = []
    phase = {}
    t0 = time.time()
    if chk.args.replay:
        obj = json.load(open(chk.args.replay))['case']
        c = dict(obj['case'])
        c['id'] = obj.get('id', 'replay')
        cases = [c]
    else:
        with ThreadPoolExecutor(max_workers=3) as ex:
            fh = ex.submit(design_hist, chk)
            fr_ = ex.submit(design_hist, chk, 'run')
            cases, info = design(chk)
            hists, hinfo = fh.result()
            runs, rinfo = fr_.result()
        nruni = len(runs)
        runs += [random_run(rng, i) for i in range(NRANDOMR[chk.tier])]
        nuni = len(cases)
        nhuni = len(hists)
        cases += [random_case(rng, i) for i in range(NRANDOM[chk.tier])]
        nrand = len(cases) - nuni
        hists += [random_history(rng, i) for i in range(NRANDOMH[chk.tier])]
        cases += hists
        cases += runs
    # only findings of status "known" may explain a failure (TraceTimeStep)
    known_ids = sorted(f['id'] for f in chk.findings
                       if f['status'] == 'known')
    for c in cases:
        c['known_ids'] = known_ids
    phase['design_tlc'] = round(time.time() - t0, 1)
    t0 = time.time()
    if chk.args.selftest:
        return selftest(chk, cases)
    traces = drive(chk, cases, 't')
    phase['real_code'] = round(time.time() - t0, 1)
    t0 = time.time()
    if len(traces) != len(cases):
        raise MachineryError('traces %d != cases %d' % (len(traces),
                                                       len(cases)))
    by_tr = {t['id']: t for t in traces}
    verdicts, st = validate(chk, traces, 'v')
    ndrift = judge(chk, by_tr, verdicts)
    phase['trace_validation'] = round(time.time() - t0, 1)
    by_v = {r['v']['id']: r for r in verdicts}
    keys = set()
    kinds = {}
    nasks = 0
    fallback_damped = 0
    nsteps = ncutsteps = 0
    for t in traces:
        if 'steps' in t:
            nsteps += len(t['steps'])
            outs = set(Fraction(*o) for o in t['outs'])
            for q in t['steps'][1:]:
                if Fraction(*q['t']) in outs:
                    ncutsteps += 1      # the previous step ended on a
                    #                     requested output time
        elif 'asks' in t:
            nasks += len(t['asks'])
            for q in t['asks']:
                kinds[q['res']['k']] = kinds.get(q['res']['k'], 0) + 1
                if (q['res']['k'] == 'none' and t['ndamp'] > 0 and
                        q['count'] < t['ndamp']):
                    fallback_damped += 1
        else:
            kinds[t['res']['k']] = kinds.get(t['res']['k'], 0) + 1
        if nontrivial(t):
            keys.add(json.dumps(inputs_of(t), sort_keys=True))
    singles = [t for t in traces if 'asks' not in t and 'steps' not in t]
    run_tr = [t for t in traces if 'steps' in t]
    hist_tr = [t for t in traces if 'asks' in t]
    samples = []
    smp = next((t for t in singles if nontrivial(t) and
                not by_v[t['id']]['v']['failed'] and len(t['arrays']) > 1),
               singles[0] if singles else None)
    if smp is not None:
        samples.append(dict(inputs=inputs_of(smp), res=smp['res'],
                            sres=smp['sres'], verdict=by_v[smp['id']]))
    hsmp = next((t for t in hist_tr if nontrivial(t) and t['ndamp'] > 0),
                hist_tr[0] if hist_tr else None)
    if hsmp is not None:
        samples.append(dict(history=dict(hsmp), verdict=by_v[hsmp['id']]))
    rsmp = next((t for t in run_tr if nontrivial(t) and t['outs'] and
                 t['ndamp'] > 0), run_tr[0] if run_tr else None)
    if rsmp is not None:
        samples.append(dict(run=dict(rsmp), verdict=by_v[rsmp['id']]))
    bad = next((t for t in traces if by_v[t['id']]['v']['failed']), None)
    if bad is not None:
        samples.append(dict(inputs=inputs_of(bad), results=results_of(bad),
                            msg=bad['msg'], verdict=by_v[bad['id']]))
    info = info or dict(states=0, transitions=0)
    hinfo = hinfo or dict(states=0, transitions=0)
    rinfo = rinfo or dict(states=0, transitions=0)
    chk.cov.update(dict(
        states=(info['states'] + hinfo['states'] + rinfo['states']) or
        st['distinct'],
        transitions=(info['transitions'] + hinfo['transitions'] +
                     rinfo['transitions']) or st['generated'],
        run_design_model='TimeStepRunMC.tla; universes: %s' % json.dumps(
            rinfo.get('universes', [])),
        design_model='TimeStepMC.tla; universes: %s; TimeStepHistMC.tla; '
                     'universes: %s' % (json.dumps(info.get('universes', [])),
                                        json.dumps(hinfo.get('universes',
                                                             []))),
        design_result='Documented (the statement, no masking) and Functional '
                      'hold on every case for the mechanism as it is; with '
                      'each repaired defect re-introduced in the model TLC '
                      'finds a violating case (defect_sensitivity)',
        defect_sensitivity=dict(info.get('sensitivity', {}),
                                **dict(hinfo.get('sensitivity', {}),
                                       **rinfo.get('sensitivity', {}))),
        known_ids_that_may_mask=known_ids,
        traces_validated_against_impl=len(verdicts),
        universe_cases=nuni,
        random_cases=nrand,
        universe_histories=nhuni,
        random_histories=len(hists) - nhuni,
        universe_runs=nruni,
        random_runs=len(runs) - nruni,
        run_steps=nsteps,
        run_steps_after_a_step_cut_for_an_output_time=ncutsteps,
        history_asks=nasks,
        asks_falling_back_while_damped=fallback_damped,
        evaluations=len(traces),
        result_kinds=kinds,
        failing_cases=sum(1 for r in verdicts if r['v']['failed']),
        mechanism_drift=ndrift,
        phase_s=phase,
        distinct_nontrivial=len(keys),
        rule='a case is one configuration (particle arrays with their real '
             'and ghost particles, presence and values of dt_adapt/dt_cfl/'
             'dt_force/dt_visc, h, cfl, fixed step, fixed_h, values written '
             'at set-up or during the step) run through the real '
             'compute_time_step and _compute_timestep; the universe cases '
             'are printed by TLC (every case of the design model), the '
             'random ones are generated; distinct by those inputs; '
             'non-trivial when some optional property has a positive value '
             'on a real particle.  A history is one sequence of 3-4 asks on '
             'ONE Integrator/NNPS/Solver driven through the real '
             'Solver.solve() with changes of the arrays between the asks '
             '(universe histories printed by TLC, random ones generated); '
             'distinct by initial arrays, ops, n_damp, cfl, dt; non-trivial '
             'when a criterion applies at some ask.  A run is one execution '
             'of the real Solver.solve() (adaptive, n_damp, output_at_times, '
             'pfreq, max_steps) with an integrator that leaves a scripted '
             'state after the initial evaluation and after every step '
             '(universe runs printed by TLC, random ones generated); '
             'distinct by all those inputs; non-trivial when a criterion '
             'applies in some state',
        exhaustive=True,
        samples=samples,
    ))
    chk.assumptions += [
        'the acceleration evaluator is replaced by an object holding only '
        '.particle_arrays (nothing else of it is read by compute_time_step); '
        'no code is generated, the integrator is not compiled',
        'protocol as the solver: NNPS constructor, set_fixed_h, then '
        'nnps.update(), [stage], nnps.update_domain() before asking; the '
        'driver never refreshes carray minima itself',
        'values are exact rationals with exact roots (h squares and dt_force '
        'fourth powers whenever a positive dt_force occurs); float results '
        'are reduced to fractions with numerator, denominator <= 8191 and '
        'compared to 1 part in 2^20',
        'Solver built without setup() (no compilation)',
        'histories: real Solver.solve() with output disabled; only '
        'integrator.step (needs the compiled integrator) and '
        'initial_acceleration are replaced on the instance: step applies the '
        'changes to the real arrays, then nnps.update_domain(), '
        'nnps.update(); n_damp in 0..3 (damping factors exact rationals)',
        'runs: real Solver.solve(); integrator.initial_acceleration and '
        'integrator.step replaced on the instance by scripts writing the '
        'states (the initial evaluation writes criteria only); all values '
        'dyadic so times and steps are exact; what happens exactly when an '
        'output time or tf lies inside a step is left to C10 (only dt <= '
        'documented step is demanded there)',
    ]
    if chk.cov.get('violations_without_replay_file'):
        print('C19: %d further violations (no replay file written)' %
              chk.cov['violations_without_replay_file'])
    chk.finish()


if __name__ == '__main__':
    main(run)
