"""Probe kernel for C14 (device D2 of DESIGN.md).

A plain Python class with the interface of pysph.base.kernels.CubicSpline
that pysph's code generator transpiles like any shipped kernel.  On lattice
data (coordinates, h multiples of a power of two) every operation below is
exact in IEEE double, no sqrt is used (rij is ignored in favour of the
components of xij), so WIJ/WI/WJ and DWIJ have exact integer values that
spec/Interp.tla computes as well:

    W(xij, h)      = max(0, (2 h)^2 - |xij|^2)
    grad W(xij, h) = -2 xij   inside the support, 0 outside

With h = HIJ = (h_i + h_j)/2 this is (h_i + h_j)^2 - |xij|^2.
"""


class ProbeKernel(object):
    def __init__(self, dim=1):
        self.radius_scale = 2.0
        self.dim = dim
        self.fac = 1.0

    def get_deltap(self):
        return 1.0

    def kernel(self, xij=[0., 0, 0], rij=1.0, h=1.0):
        r2 = xij[0]*xij[0] + xij[1]*xij[1] + xij[2]*xij[2]
        s2 = 4.0*h*h
        val = 0.0
        if r2 < s2:
            val = s2 - r2
        return val

    def dwdq(self, rij=1.0, h=1.0):
        return -2.0*rij*h

    def gradient(self, xij=[0., 0, 0], rij=1.0, h=1.0, grad=[0, 0, 0]):
        r2 = xij[0]*xij[0] + xij[1]*xij[1] + xij[2]*xij[2]
        s2 = 4.0*h*h
        tmp = 0.0
        if r2 < s2:
            tmp = -2.0
        grad[0] = tmp * xij[0]
        grad[1] = tmp * xij[1]
        grad[2] = tmp * xij[2]

    def gradient_h(self, xij=[0., 0, 0], rij=1.0, h=1.0):
        r2 = xij[0]*xij[0] + xij[1]*xij[1] + xij[2]*xij[2]
        s2 = 4.0*h*h
        val = 0.0
        if r2 < s2:
            val = 8.0*h
        return val
