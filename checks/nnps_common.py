"""Scenario and configuration generators shared by C01 and C17."""
import itertools
import json
import os
from concurrent.futures import ThreadPoolExecutor

ZFAMILY = ('zo', 'ezo', 'sfc')
REORDER_CLASSES = ('ll', 'ci', 'zo', 'ezo', 'sfc', 'oct', 'coct')


def mkarr(pts, hs, ids):
    return dict(x=[p[0] for p in pts], y=[p[1] for p in pts],
                z=[p[2] for p in pts], h=list(hs), id=list(ids))


def coords(dim, L):
    if dim == 1:
        return [(x, 0, 0) for x in range(L + 1)]
    if dim == 2:
        return [(x, y, 0) for x in range(L + 1) for y in range(L + 1)]
    return [(x, y, z) for x in range(L + 1) for y in range(L + 1)
            for z in range(L + 1)]


def small_scenarios(dim, L, n1max, n2max, hvals=(1, 2)):
    """The initial-state space of the design configuration NNPS.d<dim>.cfg."""
    C = coords(dim, L)
    k = 0
    for n1 in range(n1max + 1):
        for n2 in range(n2max + 1):
            for p1 in itertools.product(C, repeat=n1):
                for p2 in itertools.product(C, repeat=n2):
                    for h1 in itertools.product(hvals, repeat=n1):
                        for h2 in itertools.product(hvals, repeat=n2):
                            k += 1
                            yield dict(
                                id='sm%d-%d' % (dim, k), dim=dim, rs=2,
                                unit=0.25, origin=0.0, steps=[dict(arrays=[
                                    mkarr(p1, h1, range(n1)),
                                    mkarr(p2, h2, range(100, 100 + n2))])])


def random_cloud(rng, dim, na, nmax, L, hchoices, clustered):
    arrays = []
    base = 0
    for a in range(na):
        n = rng.choice([0, 1, 2, nmax // 2, nmax]) if rng.random() < 0.5 \
            else rng.randint(0, nmax)
        pts = []
        for i in range(n):
            if clustered and pts and rng.random() < 0.7:
                q = rng.choice(pts)
                p = [min(L, max(0, q[c] + rng.randint(-2, 2))) for c in range(3)]
            else:
                p = [rng.randint(0, L) for c in range(3)]
            for c in range(dim, 3):
                p[c] = 0
            pts.append(tuple(p))
        kind = rng.random()
        if kind < 0.15 and n:        # collinear / coplanar
            pts = [(p[0], 0 if dim < 3 else p[1], 0) for p in pts]
        elif kind < 0.25 and n:      # coincident
            pts = [pts[0]] * n
        hs = [rng.choice(hchoices) for i in range(n)]
        arrays.append(mkarr(pts, hs, range(base, base + n)))
        base += 1000
    return arrays


def mutate_step(rng, arrays, dim, L, hchoices, nextid):
    new = []
    for ai, a in enumerate(arrays):
        n = len(a['h'])
        pts = list(zip(a['x'], a['y'], a['z']))
        hs = list(a['h'])
        ids = list(a['id'])
        for r in range(n):
            if rng.random() < 0.4:
                p = list(pts[r])
                for c in range(dim):
                    p[c] = min(L, max(0, p[c] + rng.randint(-3, 3)))
                pts[r] = tuple(p)
            if rng.random() < 0.2:
                hs[r] = rng.choice(hchoices)
        if n and rng.random() < 0.4:
            for r in sorted(rng.sample(range(n), rng.randint(1, max(1, n // 3))),
                            reverse=True):
                del pts[r], hs[r], ids[r]
        if rng.random() < 0.4:
            for k in range(rng.randint(1, 3)):
                p = [rng.randint(0, L) if c < dim else 0 for c in range(3)]
                pts.append(tuple(p))
                hs.append(rng.choice(hchoices))
                nextid[0] += 1
                ids.append(nextid[0])
        new.append(mkarr(pts, hs, ids))
    return new


def random_scenarios(rng, n, histories=True, domain=False, nmax=24):
    for k in range(n):
        dim = rng.choice([1, 2, 3])
        na = rng.choice([1, 2, 2, 3])
        L = rng.choice([6, 12, 30])
        hch = rng.choice([(1, 2), (1, 2, 3), (2,), (1, 8), (1, 4, 16)])
        unit, origin = rng.choice([(0.25, 0.0), (2.0 ** -10, 0.0),
                                   (0.25, 2.0 ** 20), (1.0, -64.0)])
        arrays = random_cloud(rng, dim, na, nmax, L, hch, rng.random() < 0.5)
        steps = [dict(arrays=arrays)]
        if histories and rng.random() < 0.5:
            nextid = [5000]
            for s in range(rng.randint(1, 4)):
                arrays = mutate_step(rng, arrays, dim, L, hch, nextid)
                steps.append(dict(arrays=arrays))
        if unit < 0.25 and any(
                len(set((x, y, z) for a in st['arrays'] for x, y, z in
                        zip(a['x'], a['y'], a['z']))) <= 1 for st in steps):
            # all particles at one point: NNPS falls back to a box of unit
            # size whatever h is, and the algorithms with dense cell tables
            # (StratifiedSFCNNPS) then need memory ~ (1/h)^3 (22 GB here);
            # that is outside the resources the check runs with
            unit, origin = 0.25, 0.0
        sc = dict(id='r%d' % k, dim=dim, rs=rng.choice([2, 2, 2, 3, 1]),
                  unit=unit, origin=origin, steps=steps)
        if domain and rng.random() < 0.7:
            sc['domain'] = dict(lo=0, hi=L + 1,
                                periodic=[rng.random() < 0.7
                                          for c in range(dim)])
            if not any(sc['domain']['periodic']):
                sc['domain']['periodic'][0] = True
            # keep the cut-off below half the period
            hmax = max([h for st in steps for a in st['arrays'] for h in a['h']]
                       or [1])
            if 2 * sc['rs'] * hmax >= L + 1:
                sc.pop('domain')
        yield sc


def all_configs(reorder=False):
    """(cls, kw) knob table."""
    base = [
        ('ll', {}), ('box', {}), ('dbox', {}),
        ('sh', {}), ('sh', {'table_size': 1}), ('sh', {'table_size': 2}),
        ('esh', {}), ('esh', {'H': 1}), ('esh', {'H': 2}),
        ('esh', {'table_size': 2}),
        ('ci', {}),
        ('zo', {}), ('zo', {'H': 2}), ('zo', {'H': 3}),
        ('zo', {'asymmetric': True}),
        ('ezo', {}), ('ezo', {'H': 1}), ('ezo', {'asymmetric': True}),
        ('sth', {}), ('sth', {'H': 2, 'num_levels': 2}),
        ('sth', {'H': 3, 'num_levels': 3}), ('sth', {'table_size': 2}),
        ('sfc', {}), ('sfc', {'num_levels': 2}), ('sfc', {'num_levels': 3}),
        ('oct', {}), ('oct', {'leaf_max_particles': 1}),
        ('oct', {'leaf_max_particles': 2}),
        ('coct', {}), ('coct', {'leaf_max_particles': 1}),
    ]
    out = []
    for cls, kw in base:
        if reorder and cls not in REORDER_CLASSES:
            continue
        out.append(dict(cls=cls, kw=kw, cache=False))
        if not kw and cls == 'dbox':
            # DictBoxSortNNPS documents that it cannot be used with the cache
            # or OpenMP (it needs the GIL) and switches the cache off itself;
            # filling its caches from several threads is a data race
            out.append(dict(cls=cls, kw=dict(sort_gids=True), cache=False))
        elif not kw:
            out.append(dict(cls=cls, kw=kw, cache=True))
            out.append(dict(cls=cls, kw=kw, cache=True, fill=True, threads=4))
            out.append(dict(cls=cls, kw=dict(sort_gids=True), cache=False))
            # both knobs together: lists sorted in place inside the cache's
            # per-thread arrays (lazily filled, and filled by 4 threads)
            out.append(dict(cls=cls, kw=dict(sort_gids=True), cache=True,
                            always=True))
            out.append(dict(cls=cls, kw=dict(sort_gids=True), cache=True,
                            fill=True, threads=4))
    for i, c in enumerate(out):
        c['ci'] = i
    return out


def run_driver(chk, scens, cfgs, reorder=False, nproc=16, tag='c01'):
    """Split the work by configuration over nproc driver processes."""
    sc = chk.scratch
    sf = os.path.join(sc, '%s-scen.ndjson' % tag)
    with open(sf, 'w') as fp:
        for s in scens:
            fp.write(json.dumps(s) + '\n')
    chunks = [cfgs[i::nproc] for i in range(nproc)]
    chunks = [c for c in chunks if c]
    jobs = []
    for i, c in enumerate(chunks):
        cf = os.path.join(sc, '%s-cfg%d.json' % (tag, i))
        json.dump(c, open(cf, 'w'))
        jobs.append((cf, os.path.join(sc, '%s-out%d.ndjson' % (tag, i))))

    def one(j):
        args = [sf, j[1], j[0]] + (['--reorder'] if reorder else [])
        chk.run_py('checks/c01_driver.py', args, timeout=20000,
                   env_extra={'OMP_NUM_THREADS': '1'})
        return j[1]
    with ThreadPoolExecutor(max_workers=nproc) as ex:
        return list(ex.map(one, jobs))


def batches(chk, outs, scen_by_id, cfgs, per=300, tag='c01'):
    """Write TLC batch files; every record gets rs, cls, anyempty."""
    files = []
    cur = []
    n = 0
    cfg_by = {c['ci']: c for c in cfgs}

    def flush():
        f = os.path.join(chk.scratch, '%s-batch%d.ndjson' % (tag, len(files)))
        open(f, 'w').writelines(cur)
        files.append(f)
        del cur[:]
    for o in outs:
        for line in open(o):
            r = json.loads(line)
            s = scen_by_id[r['sid']]
            r['rs'] = s['rs']
            r['cls'] = cfg_by[r['cfg']]['cls']
            r['anyempty'] = any(len(a['h']) == 0 for st in s['steps']
                                for a in st['arrays'])
            c = cfg_by[r['cfg']]
            r['H'] = c['kw'].get('H', {'zo': 1, 'ezo': 3}.get(c['cls'], 1))
            r['leaf'] = c['kw'].get('leaf_max_particles', 10)
            r['threads'] = c.get('threads', 1) if c.get('fill') else 1
            if 'crash' in r:
                r['plan'] = [[dict(x=a['x'], y=a['y'], z=a['z'])
                              for a in st['arrays']] for st in s['steps']]
            cur.append(json.dumps(r) + '\n')
            n += 1
            if len(cur) >= per:
                flush()
    if cur:
        flush()
    return files, n
