"""C06 - a particle array stays coherent under any sequence of operations.

Design:  ParticleArrayMC.tla - the permutation mechanisms (swap-with-last
         removal, align index algorithm + gather) satisfy the declarative
         relations of ParticleArray.tla on all histories of a small instance.
Binding: random valid API histories on real ParticleArray objects; every call
         is logged with its arguments and the full projection of all arrays;
         TraceParticleArray.tla checks every step against the operation's
         relation and the well-formedness invariants.
"""
import json
import os
import sys
from concurrent.futures import ThreadPoolExecutor

sys.path.insert(0, os.path.dirname(os.path.dirname(os.path.abspath(__file__))))
from mbv import tlc                                   # noqa: E402
from mbv.harness import Check, MachineryError, main   # noqa: E402


def run():
    chk = Check('C06', 'model_checking')
    sc = chk.scratch
    quick = chk.tier == 'quick'
    if chk.args.replay:
        obj = json.load(open(chk.args.replay))['case']
        seed, idx, length = obj['id'].split(':')
        jobs = [(os.path.join(sc, 'tr-0.ndjson'), int(seed), int(idx) + 1,
                 int(length))]
        design = None
    else:
        design = tlc.run('ParticleArrayMC',
                         'ParticleArrayMC.quick.cfg' if quick
                         else 'ParticleArrayMC.cfg', workers=16, timeout=3000)
        if design.get('error') or design.get('timeout'):
            raise MachineryError('TLC design run failed:\n' +
                                 design['out'][-3000:])
        ntr, lengths = (150, [8, 20, 40]) if quick else (1200, [8, 20, 40, 80])
        jobs = []
        for w in range(16):
            L = lengths[w % len(lengths)]
            jobs.append((os.path.join(sc, 'tr-%d.ndjson' % w),
                         chk.seed * 1000 + w, ntr, L))
    with ThreadPoolExecutor(max_workers=16) as ex:
        list(ex.map(lambda j: chk.run_py(
            'checks/c06_driver.py', [j[0], str(j[1]), str(j[2]), str(j[3])]),
            jobs))
    traces = {}
    files = []
    for j in jobs:
        per = 150
        cur = []
        for line in open(j[0]):
            t = json.loads(line)
            if chk.args.replay and t['id'] != obj['id']:
                continue
            traces[t['id']] = t
            cur.append(line)
            if len(cur) == per:
                f = '%s.b%d' % (j[0], len(files))
                open(f, 'w').writelines(cur)
                files.append(f)
                cur = []
        if cur:
            f = '%s.b%d' % (j[0], len(files))
            open(f, 'w').writelines(cur)
            files.append(f)
    try:
        verdicts, st = tlc.validate_batches(
            'TraceParticleArray', 'TraceParticleArray.cfg', files, parallel=12)
    except tlc.TLCError as ex:
        raise MachineryError(str(ex))
    if len(verdicts) != len(traces):
        raise MachineryError('verdicts %d != traces %d' % (
            len(verdicts), len(traces)))
    nev = 0
    ops = {}
    distinct = set()
    for v in verdicts:
        t = traces[v['id']]
        nev += v['m']
        for e in t['events'][:v['m']]:
            ops[e['op']] = ops.get(e['op'], 0) + 1
            distinct.add(json.dumps([e['op'], e['post']], sort_keys=True))
        if v['m'] < v['n']:
            e = t['events'][v['m']]
            chk.violation(
                'step %d (%s) breaks %s' % (v['m'] + 1, e['op'],
                                            sorted(v['why'])),
                dict(id=t['id'], failing_event={k: x for k, x in e.items()
                                                if k != 'post'},
                     why=v['why'], post=e['post']))
        elif 'error' in t:
            er = t['error']
            chk.violation('%s raised %s on valid arguments' % (
                er['op'], er['error']), dict(id=t['id'], error=er))
    if design is not None and not design['ok']:
        chk.violation('design model: %s violated (mechanism does not imply '
                      'the relation)' % design['violation'],
                      dict(id='design', out=design['out'][-4000:]))
    some = next(iter(traces.values()))
    for t in traces.values():
        if len(t['events']) >= 5:
            some = t
            break
    chk.cov.update(dict(
        states=(design or st)['distinct'] if design else st['distinct'],
        transitions=(design or st)['generated'] if design else st['generated'],
        design_model='ParticleArrayMC.tla (%s)' % chk.tier,
        traces_validated_against_impl=len(verdicts),
        trace_states=st['distinct'],
        events_validated=nev,
        per_operation=ops,
        evaluations=nev,
        distinct_nontrivial=len(distinct),
        rule='a case is one API call on a real ParticleArray checked by TLC '
             'against the operation relation; distinct by (operation, '
             'resulting projection of all arrays)',
        samples=[dict(id=some['id'], events=[
            {k: x for k, x in e.items() if k != 'post'}
            for e in some['events'][:8]])],
    ))
    chk.assumptions += [
        'values are small integers exactly representable in every C type',
        'resize() is followed by the harness filling the new region (its '
        'contents are unspecified)',
        'arguments are valid in the sense of the docstrings: distinct '
        'in-range indices, matching lengths, same stride/type for properties '
        'shared by two arrays',
    ]
    chk.finish()


if __name__ == '__main__':
    main(run)
