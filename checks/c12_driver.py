"""Drives the real pysph Scheme classes for C12 and records, for every
configuration, the abstraction of the set-up simulation that
spec/Schemes.tla talks about.

Runs under the build environment (PYTHONPATH = synchronised copy of /repo).

usage:
  c12_driver.py list OUT.json
      discover every Scheme subclass of the source tree, the options each
      one documents (constructor signature + add_user_options) and write
      {schemes: [...], not_covered: [...]}: per scheme the option axes, the
      admissible dimensions, whether solids are taken.
  c12_driver.py run CASES.ndjson OUT.ndjson
      one forked child per case (RLIMIT_AS 8 GB, alarm); pysph is imported
      before forking.  A case is
        {id, cls: "module:Class", dim, solids, clean, opts: {name: value},
         ctor_opts: {name: value} (default: opts), route: "same" | "flip",
         layout: "single" | "multi" | "multi0",
         integrator: null | "module:Class", chooser: bool,
         mode: "gen" | "run"}
      The scheme is CONSTRUCTED with ctor_opts (for the options that are
      constructor parameters) and the option assignment `opts` is then
      applied through scheme.configure(**opts) before configure_solver /
      setup_properties - the documented protocol (create_scheme, later
      configure / consume_user_options).  route same: ctor_opts = opts;
      route flip: every option has ANOTHER value at construction, so that
      anything a scheme derives from its options at construction time and
      does not re-derive is stale.
      mode gen: configure / configure_solver / setup_properties /
                get_equations / get_solver on plain particle arrays, extract
                the abstraction, build AccelerationEval + SPHCompiler and
                render the Cython source (nothing is compiled);
      mode run: the same, then compile, Solver.setup, solve 3 steps and test
                every property of every array for finiteness.  The check
                asks for mode run only for cases whose Complete clause TLC
                has already established (compiled code reads missing
                properties through NULL pointers).

A trace (see spec/TraceSchemes.tla):
  id, scheme, dim, solids, clean, chooser, integrator, opts [{k, v}],
  route, ctor [{k, v}]              construction-time values of the options
  layout                            single: fluids=[fluid], solids=[solid]|[];
                                    multi: fluids=[fluid, fluid2, fluid3],
                                    solids=[solid, solid2] with DIFFERENT
                                    particle counts (fluid3: 1 particle;
                                    multi0: fluid3 has no particle)
  setup  {ok, stage, msg}           which set-up call raised, if any
  arrays [{name, props[], n, lens [{size, props[]}], idx[], strides}]
                                    properties + constants after set-up; n =
                                    number of particles, lens = the
                                    properties grouped by (carray length /
                                    stride), idx = the values of orig_idx
                                    (when the scheme added it)
  eqs    [{cls, dest, sources[], d[], s[], syms[], stage, gd[], gs[]}]
         d/s: explicit d_*/s_* argument names of initialize,
         initialize_pair, loop, loop_all, post_loop; syms: the other
         arguments of loop; gd/gs: what the real Group machinery
         (Group([eq]).get_array_names()) says the equation reads, explicit
         and symbol-implied - used to bind the symbol table of the spec;
         need [{r, p, k}]: the values per particle (stride) the methods
         address in d_p / s_p, read off their source (needed_strides);
         strides [{p, k}] of an array: the declared strides other than 1;
         mod: the module of the equation's class
  steppers [{array, cls, methods [{m, names[]}]}]
  symtab [{sym, d[], s[], deps[]}]  pysph.sph.equation.precomputed_symbols
  gen    {done, ok, kind, eq, msg}  code generation outcome; kind rejected =
         the code's own fail-fast property checks raised (eq = class name)
  run    {done, ok, kind, bad [{array, prop}], msg}
  ms_setup, ms_gen                  wall time of the two legs (profiling)
"""
import hashlib
import importlib
import importlib.util
import inspect
import io
import json
import os
import re
import sys
import time
import traceback

os.environ.setdefault('OMP_NUM_THREADS', '1')

import numpy as np

DX = 0.1
HDX = 1.2
H0 = HDX * DX
RHO0 = 1.0
C0 = 10.0
NU = 0.01
DT = 1e-4
NSTEPS = 3
CASE_TIMEOUT = {'gen': 240, 'run': 900}

# ---------------------------------------------------------------------------
# Hand-written table: admissible constructor arguments per scheme, the
# dimensions it supports, numeric options whose value toggles equations
# (value lists: off / on), extra array roles.  Boolean and enumerated options
# are NOT listed here: they are discovered from the constructor signature
# and add_user_options.  A Scheme subclass of the tree that has no entry is
# reported as not covered.
# ---------------------------------------------------------------------------
TABLE = {
    'pysph.sph.scheme:WCSPHScheme': dict(
        ctor=dict(rho0=RHO0, c0=C0, h0=H0, hdx=HDX),
        toggles=dict(nu=[0.0, NU]),
        integrators=[None, 'pysph.sph.integrator:TVDRK3Integrator']),
    'pysph.sph.scheme:TVFScheme': dict(
        ctor=dict(rho0=RHO0, c0=C0, p0=C0 * C0 * RHO0, pb=C0 * C0 * RHO0,
                  h0=H0),
        # run leg: the inverse volume V of fluids and walls is an INPUT of
        # the TVF equations: examples/cavity.py, poiseuille.py, couette.py
        # set fluid.V and solid.V in create_particles
        init_V=True,
        toggles=dict(nu=[0.0, NU], alpha=[0.0, 0.1])),
    'pysph.sph.scheme:AdamiHuAdamsScheme': dict(
        ctor=dict(rho0=RHO0, c0=C0, h0=H0),
        toggles=dict(nu=[0.0, NU], alpha=[0.0, 0.1])),
    'pysph.sph.scheme:GasDScheme': dict(
        ctor=dict(gamma=1.4, kernel_factor=1.2), gas=True),
    'pysph.sph.scheme:GSPHScheme': dict(
        ctor=dict(gamma=1.4, kernel_factor=1.2), gas=True),
    'pysph.sph.scheme:ADKEScheme': dict(ctor=dict(), gas=True),
    'pysph.sph.wc.gtvf:GTVFScheme': dict(
        ctor=dict(rho0=RHO0, c0=C0, h0=H0, pref=C0 * C0 * RHO0),
        # the default kernel (WendlandQuintic) has no 1-D form
        dims=(2, 3),
        init_V=True,       # same equations and convention as TVFScheme
        toggles=dict(nu=[0.0, NU], alpha=[0.0, 0.1])),
    'pysph.sph.wc.edac:EDACScheme': dict(
        ctor=dict(c0=C0, rho0=RHO0, h=H0),
        toggles=dict(nu=[0.0, NU], alpha=[0.0, 0.1],
                     pb=[0.0, C0 * C0 * RHO0]),
        # an extra array role taken by name list
        lists=dict(inviscid_solids=[[], ['wall']]),
        unbuildable=dict(inlet_outlet_manager='needs an InletOutletManager '
                         'with inlet/outlet descriptions and their arrays')),
    'pysph.sph.wc.crksph:CRKSPHScheme': dict(
        ctor=dict(rho0=RHO0, c0=C0, h0=H0, p0=C0 * C0 * RHO0),
        toggles=dict(nu=[0.0, NU])),
    'pysph.sph.wc.pcisph:PCISPHScheme': dict(
        ctor=dict(rho0=RHO0), toggles=dict(nu=[0.0, NU]),
        # run leg only: a method for internal flows - on a free block the
        # density deficit of the free surface drives the pressure
        # iterations (delta ~ 1/dt^2, up to 500 passes) to infinity
        # whatever the properties; the block is made periodic instead
        periodic=True),
    'pysph.sph.iisph:IISPHScheme': dict(
        ctor=dict(rho0=RHO0), toggles=dict(nu=[0.0, NU])),
    'pysph.sph.isph.isph:ISPHScheme': dict(
        ctor=dict(rho0=RHO0, c0=C0),
        # run leg only: PPESolve.py_initialize solves with scipy.sparse
        requires=('scipy',),
        toggles=dict(nu=[0.0, NU], alpha=[0.0, 0.1])),
    'pysph.sph.isph.sisph:SISPHScheme': dict(
        # pref is only read with gtvf=True and has no usable default (None)
        ctor=dict(rho0=RHO0, c0=C0, pref=C0 * C0 * RHO0),
        toggles=dict(nu=[0.0, NU], alpha=[0.0, 0.1])),
    'pysph.sph.gas_dynamics.magma2:MAGMA2Scheme': dict(
        ctor=dict(gamma=1.4, hfact=1.2, ndes=12), gas=True),
    'pysph.sph.gas_dynamics.tsph:TSPHScheme': dict(
        ctor=dict(gamma=1.4, hfact=1.2), gas=True),
    'pysph.sph.gas_dynamics.psph:PSPHScheme': dict(
        ctor=dict(gamma=1.4, hfact=1.2), gas=True),
}
# Scheme subclasses that cannot be driven automatically, with the reason
NOT_COVERED = {
    'pysph.sph.scheme:Scheme':
        'abstract base class: setup_properties, get_equations and '
        'configure_solver raise NotImplementedError',
    'pysph.sph.scheme:SchemeChooser':
        'wrapper around other schemes: covered through the `chooser` axis '
        '(every scheme is also driven through a SchemeChooser)',
    'pysph.sph.solid_mech.basic:ElasticSolidsScheme':
        'does not provide setup_properties (the property quantifies over '
        'schemes that do); its arrays come from '
        'get_particle_array_elastic_dynamics',
    'pysph.tools.particle_packing:ParticlePacking':
        'pre-processing tool driven by its own Application: solids is a '
        'dict of boundary / boundary-node arrays built from a geometry '
        'file, the constants nu, pb, k come from its command line (the '
        'constructor defaults are None and setup_properties raises on '
        'them), configure_solver accepts neither dt nor tf',
}


# ---------------------------------------------------------------------------
def load(path):
    mod, name = path.split(':')
    return getattr(importlib.import_module(mod), name)


def discover(src_root):
    """Scheme subclasses of the source tree: grep 'class X(...Scheme...)'
    under pysph/ (tests and examples excluded), import, keep real subclasses
    of pysph.sph.scheme.Scheme."""
    from pysph.sph.scheme import Scheme
    found = {}
    pat = re.compile(r'^class\s+(\w+)\s*\(([^)]*Scheme[^)]*)\)\s*:', re.M)
    base = os.path.join(src_root, 'pysph')
    for d, dn, fn in os.walk(base):
        dn[:] = [x for x in dn if x not in ('tests', 'examples',
                                            '__pycache__')]
        for f in fn:
            if not f.endswith('.py'):
                continue
            p = os.path.join(d, f)
            with open(p) as fp:
                txt = fp.read()
            for m in pat.finditer(txt):
                mod = os.path.relpath(p, src_root)[:-3].replace(os.sep, '.')
                try:
                    cls = getattr(importlib.import_module(mod), m.group(1))
                except Exception as ex:       # optional dependency missing
                    found['%s:%s' % (mod, m.group(1))] = \
                        'import failed: %s' % ex
                    continue
                if inspect.isclass(cls) and issubclass(cls, Scheme):
                    found['%s:%s' % (mod, m.group(1))] = cls
    if 'pysph.sph.scheme:Scheme' not in found:
        found['pysph.sph.scheme:Scheme'] = Scheme
    return found


def has_own(cls, name):
    from pysph.sph.scheme import Scheme
    return getattr(cls, name, None) is not getattr(Scheme, name)


FLUIDS = {'single': ['fluid'], 'multi': ['fluid', 'fluid2', 'fluid3'],
          'multi0': ['fluid', 'fluid2', 'fluid3']}
SOLIDS = {'single': ['solid'], 'multi': ['solid', 'solid2'],
          'multi0': ['solid', 'solid2']}


def construct(path, dim, solids, opts, layout='single'):
    """Instance with the table's constructor arguments; every option of
    `opts` that is a constructor parameter is given there as well (the
    final assignment is applied afterwards through configure, the
    documented way to change options)."""
    cls = load(path)
    ent = TABLE[path]
    params = inspect.signature(cls.__init__).parameters
    kw = dict(ent['ctor'])
    kw['fluids'] = list(FLUIDS[layout])
    kw['dim'] = dim
    if 'solids' in params:
        kw['solids'] = list(SOLIDS[layout]) if solids else []
    for k, v in opts.items():
        if k in params:
            kw[k] = v
    for k, vals in ent.get('toggles', {}).items():
        if k in params and k not in kw and \
                params[k].default is inspect.Parameter.empty:
            kw[k] = vals[-1]
    return cls(**kw)


def scheme_axes(path):
    """Option axes of one scheme: {name: [values]} from the signature
    (booleans), add_user_options (flags and choices) and the table."""
    import argparse
    cls = load(path)
    ent = TABLE[path]
    params = inspect.signature(cls.__init__).parameters
    axes = {}
    origin = {}
    for k, p in params.items():
        if isinstance(p.default, bool):
            axes[k] = [False, True]
            origin[k] = 'signature'
    obj = construct(path, 2, False, {})
    parser = argparse.ArgumentParser()
    group = parser.add_argument_group('scheme')
    obj.add_user_options(group)
    cli = []
    for a in parser._actions:
        if a.dest == 'help':
            continue
        cli.append(a.dest)
        if isinstance(a, (argparse._StoreTrueAction,
                          argparse._StoreFalseAction)):
            axes.setdefault(a.dest, [False, True])
            origin.setdefault(a.dest, 'add_user_options')
        elif a.choices is not None:
            ch = getattr(obj, a.dest + '_choices', None)
            if isinstance(ch, dict):      # CLI names -> attribute values
                vals = sorted(ch[c] for c in a.choices)
            else:
                vals = sorted(a.choices)
            axes[a.dest] = vals
            origin[a.dest] = 'add_user_options'
    for k, vals in ent.get('toggles', {}).items():
        axes[k] = list(vals)
        origin[k] = 'table (value toggles equations)'
    for k, vals in ent.get('lists', {}).items():
        axes[k] = list(vals)
        origin[k] = 'table (array role)'
    for k in axes:
        if not hasattr(obj, k):
            raise RuntimeError('%s: option %s is not an attribute' % (path, k))
    numeric = sorted(set(cli) - set(axes))
    return dict(cls=path, name=cls.__name__, axes=axes, origin=origin,
                dims=list(ent.get('dims', (1, 2, 3))),
                solids='solids' in params,
                ctor_options=sorted(k for k in axes if k in params),
                integrators=ent.get('integrators', [None]),
                numeric_cli_options_not_varied=numeric,
                unbuildable=ent.get('unbuildable', {}),
                run_requires_missing=[
                    m for m in ent.get('requires', ())
                    if importlib.util.find_spec(m) is None],
                defaults={k: getattr(obj, k) for k in axes})


def do_list(out):
    src = os.environ.get('VERIF_SRC') or os.path.dirname(os.path.dirname(
        importlib.import_module('pysph').__file__))
    found = discover(src)
    schemes, notcov = [], []
    for path in sorted(found):
        cls = found[path]
        if isinstance(cls, str):
            notcov.append(dict(cls=path, reason=cls))
        elif path in TABLE:
            schemes.append(scheme_axes(path))
        else:
            notcov.append(dict(
                cls=path, reason=NOT_COVERED.get(
                    path, 'no entry in the table of constructor arguments '
                    '(checks/c12_driver.py TABLE)'),
                provides_setup_properties=has_own(cls, 'setup_properties')))
    for path in TABLE:
        if path not in found:
            raise RuntimeError('table entry %s not found in the tree' % path)
    with open(out, 'w') as fp:
        json.dump(dict(schemes=schemes, not_covered=notcov,
                       pysph=importlib.import_module('pysph').__file__),
                  fp, indent=1)


# ---------------------------------------------------------------------------
def lattice(dim, n, origin):
    ax = [origin[i] + DX * np.arange(n[i]) for i in range(dim)]
    g = np.meshgrid(*ax, indexing='ij')
    out = [a.ravel().copy() for a in g]
    while len(out) < 3:
        out.append(np.zeros_like(out[0]))
    return out


def make_arrays(dim, names, layout='single'):
    """Plain particle arrays: a block of fluid, two layers of `solid` below
    it and two layers of `wall` above it (along the last axis).  The extra
    arrays of the multi layouts have other particle counts: fluid2 a row of
    5 beside the block, fluid3 one particle (none in multi0), solid2 a row
    of 3 below the solid."""
    from pysph.base.utils import get_particle_array
    nf = 6 if dim == 1 else 4
    m = RHO0 * DX ** dim
    pas = []
    for name in names:
        n = [nf] * dim
        org = [0.0] * dim
        if name == 'solid':
            n[-1] = 2
            org[-1] = -2 * DX
        elif name == 'wall':
            n[-1] = 2
            org[-1] = nf * DX
        elif name == 'fluid2':
            n = [1] * dim
            n[0] = 5
            org[0] = (nf + 3) * DX
        elif name == 'fluid3':
            n = [1] * dim
            n[0] = 0 if layout == 'multi0' else 1
            org[0] = -(2 + (dim == 1) * 4) * DX
        elif name == 'solid2':
            n = [1] * dim
            n[0] = 3
            org[-1] = -3 * DX
            if dim == 1:
                org[0] = -5 * DX
        x, y, z = lattice(dim, n, org)
        k = len(x)
        pas.append(get_particle_array(
            name=name, x=x, y=y, z=z, h=H0 * np.ones(k), m=m * np.ones(k),
            rho=RHO0 * np.ones(k)))
    return pas


def array_abstraction(pa):
    """name, property + constant names, particle count, the properties
    grouped by (carray length / stride), the values of orig_idx."""
    n = pa.get_number_of_particles()
    groups = {}
    for name, arr in pa.properties.items():
        stride = pa.stride.get(name, 1)
        ln = arr.length
        size = ln // stride if ln % stride == 0 else -1
        groups.setdefault(size, []).append(name)
    idx = []
    if 'orig_idx' in pa.properties:
        idx = [int(v) for v in pa.get('orig_idx', only_real_particles=False)]
    return dict(name=pa.name,
                props=sorted(set(pa.properties) | set(pa.constants)),
                n=int(n),
                lens=[dict(size=int(k), props=sorted(v))
                      for k, v in sorted(groups.items())],
                strides=[dict(p=k, k=int(v))
                         for k, v in sorted(pa.stride.items()) if v != 1],
                idx=idx)


def flatten(eqs):
    """[(stage, equation)] in evaluation order: MultiStageEquations ->
    stages, Groups (and sub-groups) flattened."""
    from pysph.sph.equation import Group, MultiStageEquations
    stages = eqs.groups if isinstance(eqs, MultiStageEquations) else [eqs]
    out = []

    def walk(items, si):
        for it in items:
            if isinstance(it, Group):
                walk(it.equations, si)
            else:
                out.append((si, it))
    for si, st in enumerate(stages):
        walk(st, si)
    return out


EQ_METHODS = ('initialize', 'initialize_pair', 'loop', 'loop_all',
              'post_loop')


_STRIDE_CACHE = {}


def needed_strides(meth):
    """{argument name: K}: the values per particle a method addresses in an
    array, read off its source: subscripts `name[K*d_idx + j]`,
    `name[d_idx*K + j]`, `name[K*s_idx + ...]` (also through a local
    variable assigned such an expression, and with loop variables of
    `for j in range(N)`): K is the coefficient of the particle index, or
    1 + the largest offset when that is larger.  Unrecognised index
    expressions demand nothing."""
    import ast
    import textwrap
    fn = getattr(meth, '__func__', meth)
    if fn in _STRIDE_CACHE:
        return _STRIDE_CACHE[fn]
    out = {}
    try:
        tree = ast.parse(textwrap.dedent(inspect.getsource(fn)))
    except Exception:
        _STRIDE_CACHE[fn] = out
        return out
    fdef = tree.body[0]
    args = set(a.arg for a in fdef.args.args)
    loops = {}              # loop variable -> N of range(N) (largest seen)
    assigns = {}            # local -> [expressions]
    for node in ast.walk(fdef):
        if isinstance(node, ast.For) and isinstance(node.target, ast.Name) \
                and isinstance(node.iter, ast.Call) \
                and getattr(node.iter.func, 'id', '') == 'range':
            a = node.iter.args
            n = a[-1] if len(a) <= 2 else None
            prev = loops.get(node.target.id, 0)
            if isinstance(n, ast.Constant) and isinstance(n.value, int) \
                    and prev is not None:
                loops[node.target.id] = max(prev, n.value)
            else:
                loops[node.target.id] = None
        elif isinstance(node, ast.Assign) and len(node.targets) == 1 \
                and isinstance(node.targets[0], ast.Name):
            assigns.setdefault(node.targets[0].id, []).append(node.value)
        elif isinstance(node, ast.AugAssign) and \
                isinstance(node.target, ast.Name):
            assigns.setdefault(node.target.id, []).append(None)

    def lin(e, depth=0):
        """(coefficient of the particle index, largest offset, exact)"""
        if isinstance(e, ast.Constant) and isinstance(e.value, int):
            return (0, e.value, True)
        if isinstance(e, ast.Name):
            if e.id in ('d_idx', 's_idx'):
                return (1, 0, True)
            if e.id in loops:
                n = loops[e.id]
                return (0, n - 1, True) if n else (0, 0, False)
            if e.id in assigns and depth < 4:
                vals = [lin(v, depth + 1) if v is not None else None
                        for v in assigns[e.id]]
                vals = [v for v in vals if v is not None]
                # `idx = declare('int')` and the like are not recognised
                if len(vals) == 1:
                    return vals[0]
                if vals and len(set(v[0] for v in vals)) == 1:
                    return (vals[0][0], max(v[1] for v in vals), False)
            return None
        if isinstance(e, ast.BinOp):
            a, b = lin(e.left, depth), lin(e.right, depth)
            if isinstance(e.op, ast.Add):
                if a is None and b is None:
                    return None
                if a is None or b is None:
                    k = a or b       # K*d_idx + <unknown>: keep K only
                    return (k[0], k[1], False) if k[0] else None
                return (a[0] + b[0], a[1] + b[1], a[2] and b[2])
            if isinstance(e.op, ast.Mult) and a is not None \
                    and b is not None:
                for c, x in ((a, b), (b, a)):
                    if c[0] == 0 and c[2] and isinstance(
                            e.left if c is a else e.right, ast.Constant):
                        return (c[1] * x[0], c[1] * x[1], x[2])
            return None
        return None

    for node in ast.walk(fdef):
        if isinstance(node, ast.Subscript) and \
                isinstance(node.value, ast.Name) and \
                node.value.id in args and \
                node.value.id.startswith(('d_', 's_')):
            idx = node.slice
            r = lin(idx)
            if r is None or r[0] < 2:
                continue
            k = max(r[0], r[1] + 1) if r[2] else r[0]
            out[node.value.id] = max(out.get(node.value.id, 1), k)
    _STRIDE_CACHE[fn] = out
    return out


def eq_abstraction(eq, stage):
    from pysph.sph.equation import Group, get_array_names
    d, s, syms = set(), set(), set()
    need = {}
    for mn in EQ_METHODS:
        meth = getattr(eq, mn, None)
        if meth is None:
            continue
        for a, k in needed_strides(meth).items():
            need[a] = max(need.get(a, 1), k)
        args = inspect.getfullargspec(meth).args
        ss, dd = get_array_names(args)
        d |= set(a[2:] for a in dd)
        s |= set(a[2:] for a in ss)
        if mn == 'loop':
            syms |= set(a for a in args if a not in ('self', 'd_idx', 's_idx')
                        and not a.startswith(('d_', 's_')))
    gs, gd = Group([eq]).get_array_names()
    return dict(cls=type(eq).__name__, dest=str(eq.dest),
                sources=[str(x) for x in (eq.sources or [])],
                d=sorted(d), s=sorted(s), syms=sorted(syms), stage=stage,
                need=[dict(r=a[0], p=a[2:], k=int(need[a]))
                      for a in sorted(need)],
                mod=type(eq).__module__,
                gd=sorted(a[2:] for a in gd), gs=sorted(a[2:] for a in gs))


def stepper_abstraction(name, stepper):
    from pysph.sph.equation import get_array_names
    methods = []
    for mn in sorted(dir(stepper)):
        if mn.startswith('stage') or mn == 'initialize':
            meth = getattr(stepper, mn)
            if not callable(meth):
                continue
            args = inspect.getfullargspec(meth).args
            ss, dd = get_array_names(args)
            nd = needed_strides(meth)
            methods.append(dict(m=mn, names=sorted(a[2:] for a in ss | dd),
                                need=[dict(r=a[0], p=a[2:], k=int(nd[a]))
                                      for a in sorted(nd)]))
    return dict(array=name, cls=type(stepper).__name__, methods=methods)


def symtab():
    from pysph.sph.equation import Group
    pre = Group.pre_comp
    out = []
    for sym in sorted(pre.keys()):
        cb = pre[sym]
        out.append(dict(sym=sym, d=sorted(a[2:] for a in cb.dest_arrays),
                        s=sorted(a[2:] for a in cb.src_arrays),
                        deps=sorted(x for x in cb.symbols
                                    if x in pre and x != sym)))
    return out


def sval(v):
    if isinstance(v, (list, tuple)):
        return '+'.join(str(x) for x in v) or 'none'
    return str(v)


class Stage(Exception):
    def __init__(self, stage, ex):
        self.stage = stage
        self.msg = '%s: %s' % (type(ex).__name__, ex)


def step(stage, fn, *a, **kw):
    try:
        return fn(*a, **kw)
    except Exception as ex:
        raise Stage(stage, ex)


def set_initial_state(pas, gas, init_v=False):
    """What a create_particles would do after setup_properties: a fluid at
    rest with a physically meaningful thermodynamic state (the arrays are
    otherwise zero).  Only used before the 3-step run."""
    for pa in pas:
        props = pa.properties
        if gas and 'e' in props:
            pa.e[:] = 2.5                        # p = (gamma-1) rho e = 1
            if 'p' in props:
                pa.p[:] = 0.4 * RHO0 * 2.5
            if 'cs' in props:
                pa.cs[:] = np.sqrt(1.4 * 0.4 * 2.5)
        if init_v and 'V' in props:
            pa.V[:] = 1.0 / DX ** 2
        if 'rho0' in props:
            pa.rho0[:] = pa.rho
        if 'h0' in props:
            pa.h0[:] = pa.h


def run_case(case):
    path = case['cls']
    ent = TABLE[path]
    opts = dict(case['opts'])
    copts = dict(case.get('ctor_opts') or opts)
    layout = case.get('layout', 'single')
    names = list(FLUIDS[layout]) + (list(SOLIDS[layout]) if case['solids']
                                    else [])
    for k, v in opts.items():
        if k in ent.get('lists', {}) and v:
            names += list(v)
    tr = dict(id=case['id'], scheme=path.split(':')[1], dim=case['dim'],
              solids=bool(case['solids']), clean=bool(case['clean']),
              chooser=bool(case.get('chooser')),
              integrator=(case.get('integrator') or 'default').split(':')[-1],
              opts=[dict(k=k, v=sval(opts[k])) for k in sorted(opts)],
              route=case.get('route', 'same'), layout=layout,
              ctor=[dict(k=k, v=sval(copts[k])) for k in sorted(copts)],
              setup=dict(ok=True, stage='', msg=''),
              arrays=[], eqs=[], steppers=[], symtab=symtab(),
              gen=dict(done=False, ok=False, kind='skipped', eq='', msg=''),
              run=dict(done=False, ok=False, kind='skipped', bad=[], msg=''),
              ms_setup=0, ms_gen=0)
    rejected = []
    t0 = time.time()
    try:
        pas = make_arrays(case['dim'], names, layout)
        sch = step('construct', construct, path, case['dim'],
                   case['solids'], copts, layout)
        if case.get('chooser'):
            from pysph.sph.scheme import SchemeChooser
            other = step('construct', construct, path, case['dim'],
                         case['solids'], {}, layout)
            sch = step('construct', SchemeChooser, default='main', main=sch,
                       other=other)
        step('configure', sch.configure, **opts)
        kw = dict(dt=DT, tf=NSTEPS * DT)
        if case.get('integrator'):
            kw['integrator_cls'] = load(case['integrator'])
        step('configure_solver', sch.configure_solver, **kw)
        step('setup_properties', sch.setup_properties, pas,
             clean=bool(case['clean']))
        eqs = step('get_equations', sch.get_equations)
        solver = step('get_solver', sch.get_solver)
        if solver is None:
            raise Stage('get_solver', RuntimeError('no solver'))
        flat = step('extract', flatten, eqs)
        tr['arrays'] = [step('extract', array_abstraction, pa)
                        for pa in pas]
        tr['eqs'] = [step('extract', eq_abstraction, eq, si)
                     for si, eq in flat]
        tr['steppers'] = [
            step('extract', stepper_abstraction, n, st)
            for n, st in sorted(solver.integrator.steppers.items())]
    except Stage as st:
        tr['setup'] = dict(ok=False, stage=st.stage, msg=st.msg[:400])
        return tr
    tr['ms_setup'] = int(1000 * (time.time() - t0))
    t0 = time.time()

    # ---- code generation (the binding of the abstraction to the code) -----
    import pysph.sph.acceleration_eval as AE
    import pysph.sph.integrator_cython_helper as ICH
    from pysph.sph.sph_compiler import SPHCompiler
    orig_check = AE.check_equation_array_properties
    orig_icheck = ICH.IntegratorCythonHelper._check_arrays_for_properties

    def check(equation, particle_arrays):
        try:
            return orig_check(equation, particle_arrays)
        except RuntimeError:
            rejected.append(type(equation).__name__)
            raise

    def icheck(self, dest, args):
        try:
            return orig_icheck(self, dest, args)
        except RuntimeError:
            rejected.append(type(self.object.steppers[dest]).__name__)
            raise
    AE.check_equation_array_properties = check
    ICH.IntegratorCythonHelper._check_arrays_for_properties = icheck
    comp = None
    try:
        aes = AE.make_acceleration_evals(pas, eqs, solver.kernel)
        comp = SPHCompiler(aes, solver.integrator)
        code = comp._get_code()
        for h in comp.acceleration_eval_helpers[1:]:
            code += h.get_code()
        tr['gen'] = dict(done=True, ok=True, kind='ok', eq='',
                         msg='%d bytes sha1 %s' % (
                             len(code), hashlib.sha1(
                                 code.encode()).hexdigest()[:12]))
    except Exception as ex:
        tr['gen'] = dict(done=True, ok=False,
                         kind='rejected' if rejected else 'error',
                         eq=rejected[0] if rejected else '',
                         msg=('%s: %s' % (type(ex).__name__, ex))[:400])
    finally:
        AE.check_equation_array_properties = orig_check
        ICH.IntegratorCythonHelper._check_arrays_for_properties = orig_icheck
    tr['ms_gen'] = int(1000 * (time.time() - t0))
    if case.get('mode') != 'run' or not tr['gen']['ok']:
        return tr

    # ---- compile, 3 steps, finiteness --------------------------------------
    try:
        from pysph.base.nnps import LinkedListNNPS
        set_initial_state(pas, ent.get('gas', False),
                          ent.get('init_V', False))
        domain = None
        if ent.get('periodic'):
            from pysph.base.nnps import DomainManager
            nf = 6 if case['dim'] == 1 else 4
            lim = dict(xmin=-DX / 2, xmax=(nf - 0.5) * DX,
                       ymin=-DX / 2, ymax=(nf - 0.5) * DX,
                       zmin=-DX / 2, zmax=(nf - 0.5) * DX)
            domain = DomainManager(
                periodic_in_x=True, periodic_in_y=case['dim'] > 1,
                periodic_in_z=case['dim'] > 2, **lim)
        nnps = LinkedListNNPS(dim=case['dim'], particles=pas, domain=domain,
                              radius_scale=solver.kernel.radius_scale)
        # what Application._configure_solver does before Solver.setup
        solver.set_parallel_manager(None)
        solver.set_disable_output(True)
        solver.set_output_directory(os.getcwd())
        solver.setup(pas, eqs, nnps)
        solver.set_max_steps(NSTEPS)
        solver.solve(show_progress=False)
        bad = []
        for pa in pas:
            for name in sorted(pa.properties):
                a = pa.get(name, only_real_particles=False)
                if a.dtype.kind == 'f' and not np.all(np.isfinite(a)):
                    bad.append(dict(array=pa.name, prop=name))
        tr['run'] = dict(done=True, ok=not bad,
                         kind='ok' if not bad else 'nonfinite', bad=bad,
                         msg='%d steps t=%g' % (solver.count, solver.t))
    except ModuleNotFoundError as ex:
        # e.g. ISPHScheme solves its pressure system with scipy, which is
        # not installed in this environment: the run cannot be made here
        tr['run'] = dict(done=True, ok=False, kind='unavailable', bad=[],
                         msg=str(ex)[:200])
    except Exception as ex:
        tr['run'] = dict(done=True, ok=False, kind='error', bad=[],
                         msg=('%s: %s' % (type(ex).__name__, ex))[:400] +
                         ' | ' + traceback.format_exc()[-600:])
    return tr


def failed_trace(case, kind, msg):
    """The child died (signal / timeout): nothing could be extracted."""
    opts = case['opts']
    copts = case.get('ctor_opts') or opts
    mode_run = case.get('mode') == 'run'
    return dict(
        id=case['id'], scheme=case['cls'].split(':')[1], dim=case['dim'],
        solids=bool(case['solids']), clean=bool(case['clean']),
        chooser=bool(case.get('chooser')),
        integrator=(case.get('integrator') or 'default').split(':')[-1],
        opts=[dict(k=k, v=sval(opts[k])) for k in sorted(opts)],
        route=case.get('route', 'same'),
        layout=case.get('layout', 'single'),
        ctor=[dict(k=k, v=sval(copts[k])) for k in sorted(copts)],
        setup=dict(ok=False, stage=kind, msg=msg), arrays=[], eqs=[],
        steppers=[], symtab=symtab(), ms_setup=0, ms_gen=0,
        gen=dict(done=False, ok=False, kind='skipped', eq='', msg=''),
        run=dict(done=mode_run, ok=False, kind=kind if mode_run else 'skipped',
                 bad=[], msg=msg))


def do_run(inp, outp):
    import resource
    import signal
    # import everything before forking
    import pysph.base.utils               # noqa: F401
    import pysph.base.nnps                # noqa: F401
    import pysph.solver.solver            # noqa: F401
    import pysph.sph.sph_compiler         # noqa: F401
    import pysph.sph.integrator_cython_helper   # noqa: F401
    import pysph.sph.acceleration_eval_cython_helper   # noqa: F401
    for path in TABLE:
        load(path)
    cases = [json.loads(l) for l in open(inp)]
    with open(outp, 'w') as fo:
        for case in cases:
            tmo = CASE_TIMEOUT[case.get('mode', 'gen')] * int(
                os.environ.get('C12_TIMEOUT_SCALE', '1'))
            r, w = os.pipe()
            sys.stdout.flush()
            pid = os.fork()
            if pid == 0:
                os.close(r)
                try:
                    resource.setrlimit(resource.RLIMIT_AS,
                                       (8 << 30, 8 << 30))
                    signal.alarm(tmo)
                    dn = os.open(os.devnull, os.O_WRONLY)
                    os.dup2(dn, 1)
                    os.dup2(dn, 2)
                    sys.stdout = io.StringIO()
                    try:
                        tr = run_case(case)
                    except Exception as ex:
                        tr = failed_trace(case, 'driver', '%s: %s | %s' % (
                            type(ex).__name__, ex,
                            traceback.format_exc()[-800:]))
                    with os.fdopen(w, 'w') as wf:
                        wf.write(json.dumps(tr) + '\n')
                finally:
                    os._exit(0)
            os.close(w)
            with os.fdopen(r) as rf:
                data = rf.read()
            _, st = os.waitpid(pid, 0)
            if os.WIFSIGNALED(st) or not data.endswith('\n'):
                sig = os.WTERMSIG(st) if os.WIFSIGNALED(st) else 0
                kind = 'timeout' if sig == signal.SIGALRM else 'crash'
                data = json.dumps(failed_trace(
                    case, kind, 'child died with signal %d' % sig)) + '\n'
            fo.write(data)
            fo.flush()


def main():
    if sys.argv[1] == 'list':
        do_list(sys.argv[2])
    elif sys.argv[1] == 'run':
        do_run(sys.argv[2], sys.argv[3])
    else:
        raise SystemExit(__doc__)


if __name__ == '__main__':
    main()
