"""Drives the real dense linear-algebra helpers of pysph on given cases and
records what they return, as scaled integers (see spec/LinAlg.tla, part 6).

Runs under the build environment (PYTHONPATH = synchronised copy of /repo).
usage: c13_driver.py CASES.ndjson TRACES.ndjson [--mutant NAME]

Functions driven
  pysph.sph.wc.linalg: gj_solve, mat_mult, mat_vec_mult, identity,
      augmented_matrix, dot              form "py": called as Python
                                         form "cy": called from a probe
      equation compiled by pysph's own code generator (the transpiled form)
  pysph.base.linalg3: py_eigen_decompose_eispack, py_get_eigenvalvec,
      py_get_eigenvalues, py_transform_diag_inv, py_transform_diag,
      py_transform, py_det

Every recorded field is an input chosen by the check or a value returned by
the function; quantisation (round(x * 2^q), two 13-bit limbs for the eigen
results) is the only processing.  Traces are flushed one by one so that a
crash of compiled code loses only the case being run.
"""
import json
import math
import sys

import numpy as np


def ldexp(x, e):
    return math.ldexp(float(x), int(e))


def load_linalg(mutant):
    import pysph.sph.wc.linalg as L
    if not mutant:
        return L
    import inspect
    import types
    src = inspect.getsource(L)
    reltol = [
        ("    rr, rrcol, rb, rbr, kup, kupr, kleft, kleftr = "
         "declare('int', 8)\n",
         "    rr, rrcol, rb, rbr, kup, kupr, kleft, kleftr = "
         "declare('int', 8)\n"
         "    big = 0.0\n"
         "    for i in range(n):\n"
         "        for j in range(n):\n"
         "            if abs(m[nt*i + j]) > big:\n"
         "                big = abs(m[nt*i + j])\n"),
        ("            if abs(dnr) < 1e-12:\n",
         "            if abs(dnr) <= 1e-14*big:\n")]
    if mutant == 'no-exchange':
        # undo the repair of C13-no-pivoting: the row search stays, the
        # exchange is skipped
        edits = [('        if bigrow != rrcol:\n', '        if False:\n')]
    elif mutant == 'stale-big':
        # the pivot search compares with the original pivot only: it takes
        # the last row exceeding it instead of the largest
        edits = [('abs(m[nt*row + rrcol]) > abs(m[nt*bigrow + rrcol])',
                  'abs(m[nt*row + rrcol]) > abs(m[nt*rrcol + rrcol])')]
    elif mutant == 'reltol-fix':
        # proposed repair of C13-abs-pivot-tol: a singularity threshold
        # relative to the largest entry of the matrix
        edits = reltol
    elif mutant == 'matmul-transposed':
        edits = [('a[n*i + j] * b[n*j + k]', 'a[n*i + j] * b[n*k + j]')]
    elif mutant == 'backsub-sign':
        edits = [('kk = -m[nt*kup + rb] / m[nt*rb + rb]',
                  'kk = m[nt*kup + rb] / m[nt*rb + rb]')]
    elif mutant == 'aug-stride':
        edits = [('A[nmax * i + j]', 'A[n * i + j]')]
    else:
        raise SystemExit('unknown mutant %r' % mutant)
    for old, new in edits:
        if src.count(old) != 1:
            raise SystemExit('mutant %s: pattern not found exactly once: %r'
                             % (mutant, old))
        src = src.replace(old, new)
    mod = types.ModuleType('c13_mutant_linalg')
    exec(compile(src, '<mutant %s>' % mutant, 'exec'),
         mod.__dict__)
    return mod


# --------------------------------------------------------------------------
# quantisation
def quant(x, q, lim):
    """round(x * 2^q) or None when not finite / out of the agreed range."""
    if not math.isfinite(x):
        return None
    v = math.ldexp(x, q)
    if not abs(v) < lim:
        return None
    return int(round(v))


def limbs(x):
    """x * 2^26 = h * 2^13 + l, -4096 <= l < 4096; None if |x| >= 16."""
    if not math.isfinite(x) or abs(x) >= 16.0:
        return None
    v = int(round(math.ldexp(x, 26)))
    h = (v + 4096) >> 13
    return h, v - (h << 13)


def as_int(x):
    if math.isfinite(x) and x == int(x) and abs(x) < 2 ** 30:
        return int(x)
    return None


# --------------------------------------------------------------------------
# the real inputs
def gj_inputs(c):
    n, nb = c['n'], c['nb']
    nt = n + nb
    m = [0.0] * (n * nt)
    for i in range(n):
        for j in range(n):
            m[nt * i + j] = ldexp(c['A'][i][j], c['re'][i] + c['ce'][j])
        for j in range(nb):
            m[nt * i + n + j] = ldexp(c['B'][i][j], c['re'][i])
    return m


def gj_record(c, ret, res):
    n, nb = c['n'], c['nb']
    ok = True
    X, XF = [], []
    for i in range(n):
        row, frow = [], []
        for j in range(nb):
            # undo the column scaling exactly, then quantise
            v = res[nb * i + j]
            v = math.ldexp(v, c['ce'][i]) if math.isfinite(v) else v
            k = quant(v, c['q'], c['lim'])
            f = 0
            if k is None:
                ok = False
                k = 0
            else:
                # the next 20 bits: x * 2^(q+20) ~ k * 2^20 + f
                f = int(round(math.ldexp(math.ldexp(v, c['q']) - k, 20)))
            row.append(k)
            frow.append(f)
        X.append(row)
        XF.append(frow)
    t = dict(c)
    t.update(ret=0 if ret == 0.0 else 1, X=X, XF=XF, ok=ok)
    return t


def hl_inputs(c):
    return [float(x) for x in c['a']], [float(x) for x in c['b']]


def hl_record(c, vals):
    r = [as_int(v) for v in vals]
    ok = all(v is not None for v in r)
    t = dict(c)
    t.update(r=[v if v is not None else 0 for v in r], ok=ok)
    return t


def hl_len(c):
    n = c['n']
    return {'mm': n * n, 'mv': n, 'id': n * n, 'dot': 1,
            'aug': (n + c['na']) * n}[c['op']]


# --------------------------------------------------------------------------
def run_py(L, c):
    kind = c['kind']
    if kind == 'gj':
        m = gj_inputs(c)
        res = [0.0] * (c['n'] * c['nb'])
        try:
            ret = L.gj_solve(m, c['n'], c['nb'], res)
        except ArithmeticError:
            # recorded as "did not return 0"; ret = 2 marks the exception
            t = gj_record(c, 1.0, res)
            t['ret'] = 2
            return t
        return gj_record(c, ret, res)
    if kind == 'hl':
        a, b = hl_inputs(c)
        n, op = c['n'], c['op']
        if op == 'dot':
            return hl_record(c, [L.dot(a, b, n)])
        res = [-77.0] * max(hl_len(c), 1)
        if op == 'mm':
            L.mat_mult(a, b, n, res)
        elif op == 'mv':
            L.mat_vec_mult(a, b, n, res)
        elif op == 'id':
            L.identity(res, n)
        elif op == 'aug':
            L.augmented_matrix(a, b, n, c['na'], c['nmax'], res)
        return hl_record(c, res[:hl_len(c)])
    raise ValueError(kind)


def run_eig(c):
    from pysph.base import linalg3
    s = c['s']
    A = np.array([[ldexp(x, s) for x in row] for row in c['A']], dtype=float)
    fn = c['fn']
    V = None
    if fn == 'eispack':
        d, V = linalg3.py_eigen_decompose_eispack(A)
    elif fn == 'valvec':
        d, V = linalg3.py_get_eigenvalvec(A)
    elif fn == 'values':
        d = linalg3.py_get_eigenvalues(A)
    else:
        raise ValueError(fn)
    d = [float(x) for x in np.asarray(d)]
    ok = True
    dh, dl = [], []
    for x in d:
        hl = limbs(math.ldexp(x, -s)) if math.isfinite(x) else None
        if hl is None:
            ok = False
            hl = (0, 0)
        dh.append(hl[0])
        dl.append(hl[1])
    vh = [[0] * 3 for i in range(3)]
    vl = [[0] * 3 for i in range(3)]
    if V is not None:
        V = np.asarray(V)
        for j in range(3):
            for i in range(3):
                hl = limbs(float(V[j, i]))
                if hl is None:
                    ok = False
                    hl = (0, 0)
                vh[j][i], vl[j][i] = hl
    t = dict(c)
    t.update(ok=ok, dh=dh, dl=dl, vh=vh, vl=vl)
    return t


def run_xf(c):
    from pysph.base import linalg3
    op = c['op']
    P = np.array(c['P'], dtype=float)
    A = np.array(c['A'], dtype=float)
    d = np.array(c['d'], dtype=float)
    if op == 'tdi':
        r = linalg3.py_transform_diag_inv(d, P)
    elif op == 'td':
        r = linalg3.py_transform_diag(d, P)
    elif op == 'tr':
        r = linalg3.py_transform(A, P)
    elif op == 'det3':
        r = [[linalg3.py_det(A)]]
    else:
        raise ValueError(op)
    r = [[as_int(float(x)) for x in row] for row in np.asarray(r)]
    ok = all(x is not None for row in r for x in row)
    t = dict(c)
    t.update(ok=ok, r=[[x if x is not None else 0 for x in row] for row in r])
    return t


# --------------------------------------------------------------------------
from compyle.api import declare                          # noqa: E402
from pysph.sph.equation import Equation                  # noqa: E402
from pysph.sph.wc.linalg import (gj_solve, augmented_matrix, mat_mult,  # noqa
                                 mat_vec_mult, identity, dot)


class C13Probe(Equation):
    def _get_helpers_(self):
        return [gj_solve, augmented_matrix, mat_mult, mat_vec_mult,
                identity, dot]

    def initialize(self, d_idx, d_meta, d_data, d_out):
        m, a, b, res = declare('matrix(64)', 4)
        j, op, n, nb, nmax = declare('int', 5)
        op = int(d_meta[4*d_idx])
        n = int(d_meta[4*d_idx + 1])
        nb = int(d_meta[4*d_idx + 2])
        nmax = int(d_meta[4*d_idx + 3])
        for j in range(64):
            a[j] = d_data[128*d_idx + j]
            b[j] = d_data[128*d_idx + 64 + j]
            m[j] = d_data[128*d_idx + j]
            res[j] = -77.0
        ret = 0.0
        if op == 0:
            ret = gj_solve(m, n, nb, res)
        elif op == 1:
            mat_mult(a, b, n, res)
        elif op == 2:
            mat_vec_mult(a, b, n, res)
        elif op == 3:
            identity(res, n)
        elif op == 4:
            augmented_matrix(a, b, n, nb, nmax, res)
        elif op == 5:
            ret = dot(a, b, n)
        for j in range(64):
            d_out[65*d_idx + j] = res[j]
        d_out[65*d_idx + 64] = ret


# the transpiled form: one particle per case, a probe equation calls the
# helpers on local matrices the way the shipped equations do
def run_cy(cases):
    from pysph.base.utils import get_particle_array
    from pysph.base.kernels import CubicSpline
    from pysph.base.nnps import LinkedListNNPS
    from pysph.sph.acceleration_eval import AccelerationEval
    from pysph.sph.sph_compiler import SPHCompiler

    N = len(cases)
    pa = get_particle_array(name='p', x=np.arange(N) * 1.0, h=1.0)
    pa.add_property('meta', stride=4)
    pa.add_property('data', stride=128)
    pa.add_property('out', stride=65)
    meta, data = pa.meta, pa.data
    ops = {'mm': 1, 'mv': 2, 'id': 3, 'aug': 4, 'dot': 5}
    for k, c in enumerate(cases):
        if c['kind'] == 'gj':
            m = gj_inputs(c)
            meta[4*k:4*k + 4] = [0, c['n'], c['nb'], c['n']]
            data[128*k:128*k + len(m)] = m
        else:
            a, b = hl_inputs(c)
            meta[4*k:4*k + 4] = [ops[c['op']], c['n'], c['na'], c['nmax']]
            data[128*k:128*k + len(a)] = a
            data[128*k + 64:128*k + 64 + len(b)] = b
    a_eval = AccelerationEval(
        particle_arrays=[pa],
        equations=[C13Probe(dest='p', sources=None)],
        kernel=CubicSpline(dim=1))
    SPHCompiler(a_eval, integrator=None).compile()
    nnps = LinkedListNNPS(dim=1, particles=[pa])
    nnps.update()
    a_eval.set_nnps(nnps)
    a_eval.compute(0.0, 0.1)
    out = pa.out
    traces = []
    for k, c in enumerate(cases):
        o = [float(x) for x in out[65*k:65*k + 65]]
        if c['kind'] == 'gj':
            traces.append(gj_record(c, o[64], o[:c['n'] * c['nb']]))
        elif c['op'] == 'dot':
            traces.append(hl_record(c, [o[64]]))
        else:
            traces.append(hl_record(c, o[:hl_len(c)]))
    return traces


def n3_matrix(index):
    """The index-th 3x3 matrix with entries in -2..2 (base-5 digits, row
    major, most significant first)."""
    e = []
    for k in range(9):
        e.append(index % 5 - 2)
        index //= 5
    e.reverse()
    return [e[0:3], e[3:6], e[6:9]]


def expand(c):
    """A "bulk-n3" line stands for the gj cases of a range of matrices."""
    if c['kind'] != 'bulk-n3':
        yield c
        return
    for index in range(c['from'], c['to']):
        yield dict(kind='gj', fam='n3-all', form='py', n=3, nb=len(c['B'][0]),
                   A=n3_matrix(index), B=c['B'], re=[0, 0, 0], ce=[0, 0, 0],
                   q=c['q'], lim=c['lim'], mode='resid', den=1,
                   X0=[[0] * len(c['B'][0])] * 3, id='x%d' % index)


def main():
    args = sys.argv[1:]
    mutant = None
    if '--mutant' in args:
        k = args.index('--mutant')
        mutant = args[k + 1]
        del args[k:k + 2]
    fin, fout = args
    with open(fin) as fp:
        cases = [json.loads(l) for l in fp if l.strip()]
    L = load_linalg(mutant)
    cy = [c for c in cases if c.get('form') == 'cy']
    with open(fout, 'w') as out:
        for c in (x for c0 in cases for x in expand(c0)):
            if c.get('form') == 'cy':
                continue
            try:
                if c['kind'] in ('gj', 'hl'):
                    t = run_py(L, c)
                elif c['kind'] == 'eig':
                    t = run_eig(c)
                elif c['kind'] == 'xf':
                    t = run_xf(c)
                else:
                    raise ValueError(c['kind'])
            except Exception as ex:          # the helper raised
                t = dict(c, error='%s: %s' % (type(ex).__name__, ex))
            out.write(json.dumps(t) + '\n')
            out.flush()
        if cy:
            for t in run_cy(cy):
                out.write(json.dumps(t) + '\n')


if __name__ == '__main__':
    main()
