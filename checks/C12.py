"""C12 - every shipped scheme yields a complete, generatable simulation.

Spec:    spec/Schemes.tla.  (P) Required(eq, role) = explicit d_*/s_* names
         + what the precomputed symbols of loop() read (closure of SymTab);
         Witnesses = offending (equation | stepper, role, array, missing
         names); clauses SetUp / Complete / Generated / RunFinite; Failed.
         (M) the symbol table, how a Group derives the arrays it declares,
         the code's fail-fast checks.  Known findings by signature
         (scheme, option condition, equation, role, array, missing names).
Design:  spec/SchemesMC.tla - the mechanism "options toggle equations in
         get_equations() / steppers in configure_solver() while
         setup_properties() declares the properties in another method", run
         by TLC over every option assignment x solids x clean x user-carried
         properties of four toy schemes: the complete one satisfies Complete;
         for the incomplete / role-mixing / stale-order ones TLC exhibits the
         violating combinations and proves their exact characterisation.
Binding: checks/c12_driver.py drives the REAL Scheme classes: every Scheme
         subclass found in the tree x every combination of its boolean /
         enumerated options (discovered from the constructor signature and
         add_user_options) and of the numeric options that toggle equations
         x dim x with/without solids x clean x route (the scheme is
         constructed with OTHER option values and the assignment applied by
         scheme.configure before configure_solver - the documented protocol -
         so that state derived from options at construction is stale unless
         the scheme re-derives it); the abstraction (array name
         sets, explicit names and symbols of every equation from the real
         method signatures, stepper names) is validated by TLC
         (spec/TraceSchemes.tla), which computes the verdict of every
         configuration; AccelerationEval + SPHCompiler render the Cython
         source for every configuration (the code's own fail-fast checks
         included); a seed-rotated subset of the configurations TLC found
         Complete is compiled and run for 3 steps with a finiteness check.
         The code's table of precomputed symbols and the arrays the real
         Group machinery derives per equation are compared with the spec's
         (mismatch = MODEL-DRIFT).
"""
import hashlib
import itertools
import json
import os
import random
import shutil
import sys
import time
from concurrent.futures import ThreadPoolExecutor

sys.path.insert(0, os.path.dirname(os.path.dirname(os.path.abspath(__file__))))
from mbv import tlc                                   # noqa: E402
from mbv.harness import Check, MachineryError, main   # noqa: E402

NPROC = 16
TOYS = ('complete', 'incomplete', 'rolemix', 'stale')
NRUN = {'quick': 16, 'thorough': 96}
RUN_PARALLEL = {'quick': 16, 'thorough': 12}
BIG = 300          # option products above this are thinned in quick
LAYOUTS = ('multi', 'single', 'multi0')
MANY = 32          # quick: more assignments than this -> dims rotate


# -- design -------------------------------------------------------------------
def write_cfg(path, toy, invariants):
    with open(path, 'w') as fp:
        fp.write('SPECIFICATION Spec\nCONSTANTS\n  Toy = "%s"\n' % toy)
        for i in invariants:
            fp.write('INVARIANT %s\n' % i)
        fp.write('CHECK_DEADLOCK FALSE\n')


def design(chk):
    """TLC on SchemesMC for the four toy schemes."""
    sc = chk.scratch
    jobs = []
    for toy in TOYS:
        full = ['Characterised', 'FailFast', 'Named']
        if toy == 'complete':
            full = ['Complete'] + full
        c = os.path.join(sc, 'mc-%s-full.cfg' % toy)
        write_cfg(c, toy, full)
        jobs.append((toy, 'full', c))
        if toy != 'complete':
            c = os.path.join(sc, 'mc-%s-find.cfg' % toy)
            write_cfg(c, toy, ['Complete'])
            jobs.append((toy, 'find', c))

    def one(job):
        toy, kind, cfg = job
        for attempt in (0, 1):
            r = tlc.run('SchemesMC', cfg, workers=2, timeout=600)
            if not (r.get('error') or r.get('timeout')):
                return toy, kind, r
        raise MachineryError('TLC design run failed (%s %s):\n%s' % (
            toy, kind, r['out'][-3000:]))

    with ThreadPoolExecutor(max_workers=4) as ex:
        res = list(ex.map(one, jobs))
    info = dict(states=0, transitions=0, toys={}, found={})
    for toy, kind, r in res:
        if kind == 'full':
            if not r['ok']:
                # the model does not read /repo: a fault of the specification
                raise MachineryError(
                    'design model (%s): invariant %s violated\n%s' % (
                        toy, r['violation'], r['out'][-2500:]))
            info['states'] += r['distinct']
            info['transitions'] += r['generated']
            info['toys'][toy] = dict(states=r['distinct'],
                                     transitions=r['generated'])
        else:
            if r['violation'] != 'Complete':
                raise MachineryError(
                    'design model: TLC did not find the incomplete '
                    'combination of toy scheme %s\n%s' % (
                        toy, r['out'][-1500:]))
            st = tlc.counterexample(r['out'])
            info['found'][toy] = st[-1]['text'][:1800] if st else ''
    return info


# -- configurations -----------------------------------------------------------
def option_combos(s, tier, rng):
    """Option assignments of one scheme.  thorough: the full product.
    quick: the full product unless it exceeds BIG; then enumerations with
    more than 3 values are walked through (every value occurs) along the
    product of the other options instead of being multiplied in."""
    names = sorted(s['axes'])
    axes = s['axes']
    n = 1
    for k in names:
        n *= len(axes[k])
    cyc = []
    if tier == 'quick' and n > BIG:
        cyc = [k for k in names if len(axes[k]) > 3]
    prod = [k for k in names if k not in cyc]
    out = []
    off = rng.randrange(1 << 16)
    for i, vals in enumerate(itertools.product(*[axes[k] for k in prod])):
        o = dict(zip(prod, vals))
        for m, k in enumerate(cyc):
            # one value per assignment, walking through the enumeration:
            # every value occurs (the product has more elements than the
            # enumeration has values)
            o[k] = axes[k][(off + i * (m + 1)) % len(axes[k])]
        out.append(o)
    return out


def other(vals, v):
    """another value of the option (the next one of its axis)"""
    return vals[(vals.index(v) + 1) % len(vals)]


def ctor_opts(s, o, route, n):
    """Construction-time values of the options for a route.  same: the
    final assignment; flip: every option that is a constructor parameter
    has another value; flip1: only one of them (the n-th) has."""
    c = dict(o)
    ks = [k for k in sorted(o) if k in s['ctor_options']
          and len(s['axes'][k]) > 1]
    if route == 'flip1' and ks:
        ks = [ks[n % len(ks)]]
    if route in ('flip', 'flip1'):
        for k in ks:
            c[k] = other(s['axes'][k], o[k])
    return c


def enumerate_cases(listing, tier, seed):
    """Configurations x routes.  Every configuration is driven with the
    `flip` route (constructed with other option values, then configured);
    thorough adds, alternately, `same` or `flip1` for every configuration,
    quick for every fourth one."""
    rng = random.Random(seed)
    cases = []

    def add(s, n, **kw):
        kw['ctor_opts'] = ctor_opts(s, kw['opts'], kw['route'], n)
        cases.append(dict(cls=s['cls'], mode='gen', **kw))

    for s in listing['schemes']:
        combos = option_combos(s, tier, rng)
        solid_vals = [False, True] if s['solids'] else [False]
        k = j = 0
        for ci, o in enumerate(combos):
            for integ in s['integrators']:
                for solids in solid_vals:
                    dims = s['dims']
                    if tier == 'quick' and len(combos) > MANY:
                        # quick, many option assignments: one dimension per
                        # (assignment, solids), rotating with the seed
                        j += 1
                        dims = [dims[(j + seed) % len(dims)]]
                    for di, dim in enumerate(dims):
                        alt = (k + seed) % 2 == 0
                        # array layouts (single / several arrays per role
                        # with different particle counts / one of them
                        # empty) rotate over the cases of a configuration
                        # and, with the index, over the configurations
                        lay = [LAYOUTS[(k + seed + i) % 3]
                               for i in range(3)]
                        cleans = [True, False] if tier == 'thorough' \
                            else [alt]          # quick: clean alternates
                        for li, clean in enumerate(cleans):
                            add(s, k, dim=dim, solids=solids, clean=clean,
                                opts=o, integrator=integ, chooser=False,
                                route='flip', layout=lay[li])
                        second = ['same', 'flip1'][((k + seed) // 4) % 2]
                        if (k + seed) % (2 if tier == 'thorough' else 4) \
                                == 0:
                            add(s, k // 4, dim=dim, solids=solids,
                                clean=not alt, opts=o, integrator=integ,
                                chooser=False, route=second, layout=lay[2])
                        k += 1
        # every scheme once more through a SchemeChooser (defaults, and a
        # seed-chosen option assignment), for each dim / solids
        picks = [(dict(s['defaults']), 'same'),
                 (combos[rng.randrange(len(combos))], 'flip')]
        for pi, (o, route) in enumerate(picks):
            for solids in solid_vals:
                for di, dim in enumerate(s['dims']):
                    add(s, 0, dim=dim, solids=solids, clean=True, opts=o,
                        integrator=None, chooser=True, route=route,
                        layout=LAYOUTS[(pi + di + seed) % 3])
    for i, c in enumerate(cases):
        c['id'] = case_id(c)
    # distinct ids
    seen = {}
    out = []
    for c in cases:
        if c['id'] not in seen:
            seen[c['id']] = 1
            out.append(c)
    return out


def case_id(c):
    o = ','.join('%s=%s' % (k, sval(c['opts'][k])) for k in sorted(c['opts']))
    r = c.get('route', 'same')
    if r == 'flip1':
        r += ':' + ','.join(k for k in sorted(c['opts'])
                            if c['ctor_opts'][k] != c['opts'][k])
    if c.get('layout', 'single') != 'single':
        r += '/' + c['layout']
    return '%s[%s]d%d%s%s%s%s/%s' % (
        c['cls'].split(':')[1], o, c['dim'],
        '+solid' if c['solids'] else '',
        '+clean' if c['clean'] else '',
        '+' + c['integrator'].split(':')[1] if c['integrator'] else '',
        '+chooser' if c['chooser'] else '', r)


def sval(v):
    if isinstance(v, (list, tuple)):
        return '+'.join(str(x) for x in v) or 'none'
    return str(v)


# -- real code ----------------------------------------------------------------
def drive(chk, cases, tag, nproc=NPROC, timeout=3000, scale=1):
    """Run the driver over `cases` in nproc processes (each forks one child
    per case).  Returns the traces in the order of `cases`."""
    sc = chk.scratch
    nch = max(1, min(nproc, len(cases)))

    def one(i):
        todo = cases[i::nch]
        fi = os.path.join(sc, '%s-cases-%d.ndjson' % (tag, i))
        fo = os.path.join(sc, '%s-traces-%d.ndjson' % (tag, i))
        with open(fi, 'w') as fp:
            for c in todo:
                fp.write(json.dumps(c) + '\n')
        p = chk.run_py('checks/c12_driver.py', ['run', fi, fo], check=False,
                       env_extra={'OMP_NUM_THREADS': '1',
                                  'C12_TIMEOUT_SCALE': str(scale)},
                       timeout=timeout * scale)
        got = []
        if os.path.exists(fo):
            with open(fo) as fp:
                for line in fp:
                    try:
                        got.append(json.loads(line))
                    except ValueError:
                        break
        if p.returncode != 0 or len(got) != len(todo):
            # the parent of the forked children failed: not a statement
            # about the code under test
            raise MachineryError('driver failed rc=%d (%d of %d traces)\n%s'
                                 % (p.returncode, len(got), len(todo),
                                    (p.stderr or '')[-3000:]))
        return got

    with ThreadPoolExecutor(max_workers=nch) as ex:
        parts = list(ex.map(one, range(nch)))
    by = {}
    for part in parts:
        for t in part:
            by[t['id']] = t
    # a set-up that ran into the alarm on a loaded machine (SISPH compiles
    # an SPHEvaluator module inside setup_properties; 16 children wait for
    # one cold compile): once more, few at a time, four times the limit.
    # What still does not return is recorded as it is (a SetUp failure).
    late = [c for c in cases if by[c['id']]['setup']['stage'] == 'timeout'
            and c.get('mode', 'gen') == 'gen']
    if late and scale == 1:
        for t in drive(chk, late, tag + 'late', nproc=4, timeout=timeout,
                       scale=4):
            by[t['id']] = t
    return [by[c['id']] for c in cases]


def validate(chk, traces, tag, per_batch=400):
    sc = chk.scratch
    files = []
    for i in range(0, len(traces), per_batch):
        f = os.path.join(sc, '%s-batch-%d.ndjson' % (tag, i // per_batch))
        with open(f, 'w') as fp:
            for t in traces[i:i + per_batch]:
                fp.write(json.dumps(t) + '\n')
        files.append(f)
    try:
        verdicts, st = tlc.validate_batches('TraceSchemes',
                                            'TraceSchemes.cfg', files,
                                            parallel=12)
    except tlc.TLCError as ex:
        raise MachineryError(str(ex))
    if len(verdicts) != len(traces):
        raise MachineryError('verdict count %d != traces %d' % (
            len(verdicts), len(traces)))
    for t, r in zip(traces, verdicts):
        if r['v']['id'] != t['id']:
            raise MachineryError('verdict order: %s vs %s' % (
                r['v']['id'], t['id']))
    return verdicts, st


def abstraction_key(t):
    return hashlib.sha1(json.dumps(
        [t['scheme'], t['arrays'],
         [[e[k] for k in ('cls', 'dest', 'sources', 'd', 's', 'syms',
                          'stage')] for e in t['eqs']],
         t['steppers']], sort_keys=True).encode()).hexdigest()


def describe(t, r):
    v = r['v']
    parts = []
    if 'SetUp' in v['failed']:
        parts.append('%s raised %s' % (t['setup']['stage'],
                                       t['setup']['msg'][:200]))
    for w in v['witnesses']:
        parts.append('%s (%s) array %r lacks %s' % (
            w['cls'], w['role'], w['array'], sorted(w['missing'])))
    for w in v.get('strides', []):
        parts.append('%s (%s) addresses %d values per particle of %s.%s, '
                     'declared stride %d' % (w['cls'], w['role'], w['need'],
                                             w['array'], w['prop'],
                                             w['have']))
    if 'PerArray' in v['failed']:
        parts.append('per-array data (lengths, orig_idx) wrong in %s' %
                     sorted(v['badarrays']))
    if 'Generated' in v['failed']:
        parts.append('code generation: %s %s' % (t['gen']['kind'],
                                                 t['gen']['msg'][:200]))
    if 'RunFinite' in v['failed']:
        parts.append('run: %s %s %s' % (
            t['run']['kind'],
            ['%s.%s' % (b['array'], b['prop']) for b in t['run']['bad']][:8],
            t['run']['msg'][:200]))
    return '%s: clauses %s fail: %s' % (t['id'], sorted(v['failed']),
                                        '; '.join(parts))


def judge(chk, cases_by_id, traces, verdicts, seen_viol):
    for t, r in zip(traces, verdicts):
        v = r['v']
        for d in r['drift']:
            chk.note_drift('Schemes.' + d, 'configuration %s: the recorded '
                           'facts differ from the mechanism model (%s)' % (
                               t['id'], d))
        if not v['failed']:
            continue
        if v['explained'] and v['known'] and \
                all(chk.known(k) for k in v['known']):
            if t['id'] not in seen_viol:
                seen_viol.add(t['id'])
                for k in v['known']:
                    chk.known_hit(k)
        else:
            key = (t['id'], tuple(sorted(v['failed'])))
            if key in seen_viol:
                continue
            seen_viol.add(key)
            chk.violation(describe(t, r), dict(
                case=cases_by_id[t['id']], verdict=r,
                setup=t['setup'], gen=t['gen'], run=t['run']))


def role(n):
    return 'fluid' if n.startswith('fluid') else \
        'solid' if n.startswith('solid') else n


def richness(t):
    """How much of a scheme a configuration switches in, independent of
    the array layout: distinct (equation class, stage, role of the
    destination, roles of the sources) + stepper classes."""
    return len(set((e['cls'], e['stage'], role(e['dest']),
                    tuple(sorted(set(role(x) for x in e['sources']))))
                   for e in t['eqs'])) + \
        len(set(st['cls'] for st in t['steppers']))


def pick_runs(chk, cases, traces, verdicts, n, rng, skip=()):
    """Configurations for the compile + 3-step run, only ones whose clauses
    TLC established and whose code was generated.  (1) every scheme, every
    run: its RICHEST established configuration (nu > 0, solids, ghosts,
    no-slip / inviscid variants ... whatever switches most equations in),
    in the single layout (a fresh case when it was seen in another layout
    only: it goes through TLC before it is run); (2) up to n in all:
    seed-rotated ones of the single layout."""
    ok = {}
    best = {}
    for c, t, r in zip(cases, traces, verdicts):
        if r['v']['failed'] or not t['gen']['ok'] or c['chooser'] \
                or t['scheme'] in skip:
            continue
        key = (richness(t), c['layout'] == 'single', c['route'] == 'flip')
        b = best.get(t['scheme'])
        if b is None or key > b[0]:
            best[t['scheme']] = (key, c)
        if c['layout'] == 'single':
            ok.setdefault(t['scheme'], []).append(c)
    out = []
    seen = set()
    for sname in sorted(best):
        c = dict(best[sname][1], mode='run')
        if c['layout'] != 'single':
            c['layout'] = 'single'
            c['id'] = case_id(c)
            c['fresh'] = True
        seen.add(c['id'])
        out.append(c)
    schemes = sorted(ok)
    rng.shuffle(schemes)
    i = 0
    while len(out) < n and schemes:
        sname = schemes[i % len(schemes)]
        pool = ok[sname]
        c = pool[rng.randrange(len(pool))]
        if c['id'] not in seen:
            seen.add(c['id'])
            out.append(dict(c, mode='run'))
        i += 1
        if i > 50 * n:
            break
    return out


# -- selftest ---------------------------------------------------------------
def selftest(chk, cases, known_ids):
    """The binding must be live: corrupt one recorded field of a real trace
    (remove a property from an array's name set) - the verdict must name
    the equation and the missing name."""
    pick = [c for c in cases if c['cls'].endswith('WCSPHScheme')
            and c['dim'] == 2 and c['solids']
            and not c['integrator']][:1]
    tr = drive(chk, pick, 'st', nproc=1)[0]
    tr['known_ids'] = known_ids
    a = json.loads(json.dumps(tr))
    a['id'] = 'explicit'
    for arr in a['arrays']:
        if arr['name'] == 'solid':
            arr['props'].remove('arho')      # ContinuityEquation writes it
    b = json.loads(json.dumps(tr))
    b['id'] = 'implied'
    for arr in b['arrays']:
        if arr['name'] == 'solid':
            arr['props'].remove('h')         # only read through HIJ / DWIJ
    c = json.loads(json.dumps(tr))
    c['id'] = 'stepper'
    for arr in c['arrays']:
        if arr['name'] == 'fluid':
            arr['props'].remove('x0')        # WCSPHStep.initialize
    d = json.loads(json.dumps(tr))
    d['id'] = 'lens'
    for arr in d['arrays']:
        if arr['name'] == 'solid':
            arr['lens'][0]['size'] += 1      # a property of another length
    tr['id'] = 'intact'
    verdicts, st = validate(chk, [tr, a, b, c, d], 'st')
    for r in verdicts:
        print('SELFTEST VERDICT %s' % json.dumps(r))
    by = {r['v']['id']: r for r in verdicts}

    def names(i):
        return set((w['cls'], w['role'], w['array'], tuple(w['missing']))
                   for w in by[i]['v']['witnesses'])
    ok = (not by['intact']['v']['failed'] and
          ('ContinuityEquation', 'dest', 'solid', ('arho',))
          in names('explicit') and
          any(w[2] == 'solid' and w[3] == ('h',) for w in names('implied'))
          and ('WCSPHStep', 'stepper', 'fluid', ('x0',)) in names('stepper')
          and by['lens']['v']['failed'] == ['PerArray']
          and by['lens']['v']['badarrays'] == ['solid']
          and all('Complete' in by[i]['v']['failed'] and
                  not by[i]['v']['explained']
                  for i in ('explicit', 'implied', 'stepper')))
    print('C12 selftest: corrupted traces %s' % (
        'are reported with the equation and the missing name' if ok
        else 'were NOT caught'))
    if not ok:
        raise MachineryError('selftest: corrupted trace not caught')
    sys.exit(0)


# -- main -------------------------------------------------------------------
def run():
    chk = Check('C12', 'model_checking')
    try:
        check(chk)
    finally:
        if not os.environ.get('VERIF_KEEP_SCRATCH'):
            shutil.rmtree(chk.scratch, ignore_errors=True)


def check(chk):
    rng = random.Random(chk.seed)
    phase = {}
    t0 = time.time()
    known_ids = sorted(f['id'] for f in chk.findings
                       if f['status'] == 'known')
    lf = os.path.join(chk.scratch, 'list.json')
    chk.run_py('checks/c12_driver.py', ['list', lf], timeout=600)
    listing = json.load(open(lf))
    src = chk.env['VERIF_SRC']
    if not listing['pysph'].startswith(src):
        raise MachineryError('driver imported pysph from %s, not from %s' % (
            listing['pysph'], src))
    info = None
    want_run = []
    if chk.args.replay:
        obj = json.load(open(chk.args.replay))['case']
        c = dict(obj['case'])
        cases = [dict(c, mode='gen')]
        if c.get('mode') == 'run':
            want_run = [c]
    else:
        with ThreadPoolExecutor(max_workers=1) as ex:
            fut = ex.submit(design, chk)          # TLC next to the drivers
            cases = enumerate_cases(listing, chk.tier, chk.seed)
            if chk.args.selftest:
                fut.result()
                return selftest(chk, cases, known_ids)
            t1 = time.time()
            traces = drive(chk, cases, 'g')
            phase['generate_all_configurations'] = round(time.time() - t1, 1)
            info = fut.result()
        phase['design_tlc'] = 'in parallel'
    if chk.args.replay:
        traces = drive(chk, cases, 'g', nproc=1)
    for t in traces:
        t['known_ids'] = known_ids
    by_case = {c['id']: c for c in cases}
    t1 = time.time()
    verdicts, st = validate(chk, traces, 'v')
    phase['trace_validation_1'] = round(time.time() - t1, 1)
    seen = set()
    judge(chk, by_case, traces, verdicts, seen)

    # ---- compile + run, only where TLC established Complete ----------------
    t1 = time.time()
    norun = {s['name']: s['run_requires_missing']
             for s in listing['schemes'] if s['run_requires_missing']}
    if not chk.args.replay:
        runs = pick_runs(chk, cases, traces, verdicts, NRUN[chk.tier], rng,
                         skip=norun)
    else:
        okc = [c for c, r in zip(cases, verdicts)
               if 'Complete' not in r['v']['failed'] and
               'SetUp' not in r['v']['failed']]
        runs = [dict(c, mode='run') for c in okc if want_run]
    rtraces, rverdicts = [], []
    first = {t['id']: t for t in traces}
    fresh = [dict(c, mode='gen') for c in runs
             if c.get('fresh') and c['id'] not in first]
    if fresh:
        # richest configurations not yet seen in the single layout: TLC
        # first, run only what it establishes
        ftr = drive(chk, fresh, 'g2')
        for t in ftr:
            t['known_ids'] = known_ids
        fver, st3 = validate(chk, ftr, 'v2')
        judge(chk, {c['id']: c for c in fresh}, ftr, fver, seen)
        bad = set(t['id'] for t, r in zip(ftr, fver)
                  if r['v']['failed'] or not t['gen']['ok'])
        runs = [c for c in runs if c['id'] not in bad]
        first.update({t['id']: t for t in ftr})
        traces = traces + ftr
        verdicts = verdicts + fver
        cases = cases + fresh
    if runs:
        got = drive(chk, runs, 'r', nproc=RUN_PARALLEL[chk.tier],
                    timeout=5400)
        for c, g in zip(runs, got):
            # the abstraction of the first pass, with the run outcome
            m = dict(first[c['id']])
            m['run'] = g['run']
            if not g['setup']['ok'] and g['run']['kind'] == 'skipped':
                m['run'] = dict(done=True, ok=False, kind='error', bad=[],
                                msg='second pass: %s %s' % (
                                    g['setup']['stage'], g['setup']['msg']))
            rtraces.append(m)
        rverdicts, st2 = validate(chk, rtraces, 'rv')
        judge(chk, {c['id']: c for c in runs}, rtraces, rverdicts, seen)
    phase['compile_and_run'] = round(time.time() - t1, 1)

    # ---- evidence ----------------------------------------------------------
    per_scheme = {}
    keys = set()
    fails = {}
    for t, r in zip(traces, verdicts):
        e = per_scheme.setdefault(t['scheme'], dict(
            configurations=0, generated_ok=0, incomplete=0, abstractions=set(),
            dims=set(), option_values={}))
        e['configurations'] += 1
        e['generated_ok'] += 1 if t['gen']['ok'] else 0
        e['incomplete'] += 1 if 'Complete' in r['v']['failed'] else 0
        e['dims'].add(t['dim'])
        for o in t['opts']:
            e['option_values'].setdefault(o['k'], set()).add(o['v'])
        if t['setup']['ok'] and r['v']['neqs'] > 0 and r['v']['nimplied'] > 0:
            k = abstraction_key(t)
            keys.add(k)
            e['abstractions'].add(k)
        for cl in r['v']['failed']:
            fails[cl] = fails.get(cl, 0) + 1
    for e in per_scheme.values():
        e['abstractions'] = len(e['abstractions'])
        e['dims'] = sorted(e['dims'])
        e['option_values'] = {k: sorted(v)
                              for k, v in e['option_values'].items()}
    run_info = []
    for t, r in zip(rtraces, rverdicts):
        run_info.append(dict(id=t['id'], run=t['run']['kind'],
                             msg=t['run']['msg'][:120],
                             failed=sorted(r['v']['failed'])))
        for cl in r['v']['failed']:
            if cl == 'RunFinite':
                fails[cl] = fails.get(cl, 0) + 1
    good = next((i for i, (t, r) in enumerate(zip(traces, verdicts))
                 if not r['v']['failed'] and t['solids'] and
                 len(t['eqs']) > 6), 0)
    samples = [dict(case=cases[good], verdict=verdicts[good],
                    arrays=traces[good]['arrays'],
                    equations=[{k: e[k] for k in ('cls', 'dest', 'sources',
                                                  'd', 's', 'syms', 'stage')}
                               for e in traces[good]['eqs']],
                    steppers=traces[good]['steppers'],
                    gen=traces[good]['gen'])]
    bad = next((i for i, r in enumerate(verdicts) if r['v']['failed']), None)
    if bad is not None:
        samples.append(dict(case=cases[bad], verdict=verdicts[bad],
                            gen=traces[bad]['gen'],
                            setup=traces[bad]['setup']))
    info = info or dict(states=0, transitions=0, toys={}, found={})
    chk.cov.update(dict(
        states=info['states'] or st['distinct'],
        transitions=info['transitions'] or st['generated'],
        design_model='SchemesMC.tla, toy schemes %s: %s' % (
            list(TOYS), json.dumps(info['toys'])),
        design_result='Complete, Characterised, FailFast, Named hold for the '
                      'complete toy scheme on every option assignment x '
                      'solids x clean x user-carried properties; for the '
                      'incomplete, role-mixing (GTVF-shaped) and stale-order '
                      'toys TLC exhibits a configuration violating Complete '
                      '(design_counterexamples) and proves which '
                      'configurations exactly are incomplete (Characterised)',
        design_counterexamples=info['found'],
        pysph_imported_from=listing['pysph'],
        scheme_classes_covered=sorted(per_scheme),
        scheme_classes_not_covered=listing['not_covered'],
        options_per_scheme={
            s['name']: dict(
                axes={k: [sval(x) for x in v] for k, v in s['axes'].items()},
                origin=s['origin'], dims=s['dims'], solids=s['solids'],
                integrators=[(i or 'default').split(':')[-1]
                             for i in s['integrators']],
                numeric_cli_options_not_varied=s[
                    'numeric_cli_options_not_varied'],
                options_not_buildable=s['unbuildable'])
            for s in listing['schemes']},
        per_scheme=per_scheme,
        traces_validated_against_impl=len(verdicts) + len(rverdicts),
        evaluations=len(traces),
        layouts={r: sum(1 for c in cases if c.get('layout') == r)
                 for r in LAYOUTS},
        routes={r: sum(1 for c in cases if c.get('route', 'same') == r)
                for r in ('flip', 'flip1', 'same')},
        configurations_code_generated=sum(1 for t in traces
                                          if t['gen']['ok']),
        configurations_compiled_and_run=len(rtraces),
        runs=run_info,
        run_leg_unavailable={k: 'needs %s (not installed)' % ', '.join(v)
                             for k, v in norun.items()},
        failed_clause_counts=fails,
        known_ids_that_may_mask=known_ids,
        phase_s=phase,
        distinct_nontrivial=len(keys),
        rule='a case is one configuration (scheme class, option assignment, '
             'dim, with/without a solid array, clean, integrator class, '
             'through a SchemeChooser or not) and a route (flip: the scheme '
             'is constructed with ANOTHER value of every option and the '
             'assignment is applied by scheme.configure before '
             'configure_solver; flip1: one option differs at construction; '
             'same: constructed with the assignment) and an array layout '
             '(single: fluids=[fluid], solids=[solid] or []; multi: three '
             'fluids and two solids with DIFFERENT particle counts, one '
             'fluid holding a single particle; multi0: that fluid is '
             'empty; layouts rotate over the cases) driven through the real '
             'configure / configure_solver / setup_properties / '
             'get_equations / get_solver and the real code generator; '
             'quick: every option assignment (enumerations of more than 3 '
             'values cycled when the product exceeds %d) x solids x dim '
             '(one seed-rotated dim per assignment for schemes with more '
             'than %d assignments), clean alternating with the seed, route '
             'flip for all and same / flip1 for every fourth; thorough: the '
             'complete product with route flip and, alternately, same or '
             'flip1.  Counted distinct by the hash of the extracted '
             'abstraction (array name sets, equations with names and '
             'symbols, steppers); non-trivial when set-up succeeded, there '
             'is at least one equation and at least one name is required '
             'only through a precomputed symbol' % (BIG, MANY),
        exhaustive=(chk.tier == 'thorough' and not chk.args.replay),
        samples=samples,
    ))
    chk.assumptions += [
        'plain arrays: get_particle_array(name, x, y, z, h, m, rho) on a '
        'small lattice; fluids=["fluid"] or ["fluid","fluid2","fluid3"] '
        '(16/5/1 or 0 particles in 2-D), solids=[], ["solid"] or '
        '["solid","solid2"] (EDAC also inviscid_solids=["wall"]); '
        'constructor arguments from the table in checks/c12_driver.py',
        'any exception raised by construct / configure / configure_solver / '
        'setup_properties / get_equations / get_solver on these inputs '
        'fails the SetUp clause (never masked); PerArray: every property '
        'has one value per particle of its own array, orig_idx is the own '
        'index or left untouched (IISPH leaves it to create_particles)',
        'options: booleans of the constructor signature, flags and choices '
        'of add_user_options, and the numeric options that toggle equations '
        '(nu, alpha, pb: off / on); other numeric options keep their '
        'defaults (they do not change the set of equations)',
        'names read by py_initialize / reduce / py_stageN through dst.array '
        'are not visible in a signature and are covered by the run leg only',
        'the run leg: the richest established configuration of every scheme '
        '(most distinct equations / steppers: nu > 0, solids, ghosts, '
        'no-slip and inviscid variants) in the single layout on every run, '
        'plus seed-rotated ones; 3 steps of dt=1e-4 from rest with e, p, '
        'cs, rho0, h0 initialised as a create_particles would; V only for '
        'TVFScheme / GTVFScheme (their examples set fluid.V and solid.V); '
        'PCISPH on a periodic block; ISPHScheme needs scipy (not '
        'installed): recorded as unavailable',
        'Strides: the values per particle a method addresses are read off '
        'its source (name[K*d_idx + j], K*s_idx, loop variables of '
        'range(N), locals assigned such expressions); index expressions '
        'that are not recognised demand nothing',
        'code generation = AccelerationEval + SPHCompiler rendering the '
        'Cython source (SPHCompiler._get_code and the helpers of later '
        'stages); Cython / C compilation only in the run leg',
    ]
    chk.finish()


if __name__ == '__main__':
    main(run)
