"""C02 - compiled equations compute what the Python equation source says.

Design  : EvalData.tla - data semantics of one compute() over exact integers
          (symbol table with documented formulas and dependency order, probe
          kernel, probe IR, Eval = fold of the statements over AccelEval's
          log).  EvalDataMC.tla checks the sanity theorems exhaustively on a
          tiny universe (one TLC process per hand-written program).
Stage 1 : random probe programs (checks/c02_probes.py) on lattice data, dims
          1-3, compiled by the real AccelerationEval + SPHCompiler and run
          with LinkedListNNPS, executed by mbv/refexec.py, evaluated by TLC:
              TLC's Eval state == refexec state == compiled state, exactly
          plus: refexec's hook log is a behaviour of AccelEval (Matches), the
          symbol table extracted from the real precomputed_symbols() equals
          the documented one, the orders the real Group computes are
          admissible.  The executor's order is additionally validated on
          C03's random group trees (conditions, iteration, sub-groups).
Stage 2 : every Equation subclass under pysph/sph that can be set up
          automatically: compiled vs reference executor per kernel class and
          dim; the measured disagreement goes to TLC (TraceEvalData.tla,
          tolerance clause of the property) as scaled integers.
Verdicts are TLC's; Python generates, drives, records and dispatches.
"""
import json
import os
import random
import shutil
import sys
from concurrent.futures import ThreadPoolExecutor

sys.path.insert(0, os.path.dirname(os.path.dirname(os.path.abspath(__file__))))
sys.path.insert(0, os.path.dirname(os.path.abspath(__file__)))
from mbv import tlc                                   # noqa: E402
from mbv.harness import Check, MachineryError, main   # noqa: E402
import c02_probes as P                                # noqa: E402

TIERS = {
    'quick': dict(modules=6, runs=12, order_progs=12, s2_classes=24,
                  s2_kernels=2, s2_reps=1, per_job=12, kp_reps=2,
                  s2_variants=10),
    'thorough': dict(modules=40, runs=24, order_progs=60, s2_classes=None,
                     s2_kernels=None, s2_reps=2, per_job=14, kp_reps=6,
                     s2_variants=None),
}
FID = 'C02-uninit-declare'
TRUSTED = [
    'stage 2 oracle = mbv/refexec.py; its equality with EvalData.tla (data) '
    'and AccelEval.tla (order) is measured on every run by stage 1, not '
    'assumed',
    'the Python interpreter, numpy scalar arithmetic and the libm shared with '
    'the compiled module execute the method bodies (the uninterpreted leaves)',
    'LinkedListNNPS supplies the neighbour lists in stage 2 (checked against '
    'the lattice rule of EvalData.tla in stage 1, and by C01)',
    'compyle.api.declare as the pure-Python meaning of declare(); math.h '
    'names not imported by a module are supplied from math',
    'classification arithmetic-only / uses libm by inspection of the method '
    'ASTs (sqrt counted as an exact IEEE operation)',
    'TLC, the Json community module; fractions.Fraction for the recorded '
    'rationals',
]


def write_lines(path, objs):
    with open(path, 'w') as fp:
        for o in objs:
            fp.write(json.dumps(o) + '\n')


# ---------------------------------------------------------------------------
# generation
# ---------------------------------------------------------------------------
def gen_stage1(rng, sz):
    jobs = []
    for m in range(sz['modules']):
        d1 = m % 4 == 0                     # 1-D only modules may read RIJ raw
        # every third module also divides integer-typed operands
        spec = P.gen_module(rng, 'm%d' % m, d1=d1, idiv=m % 3 == 1)
        runs = [P.gen_data(rng, spec, 1 if d1 else 1 + (r % 3), r)
                for r in range(sz['runs'])]
        # two kernel parameter values per module: every compiled evaluator
        # is re-used over several data sets (in place and rebound)
        kas = rng.sample(range(1, 6), 2)
        for r in runs:
            r['kern']['ka'] = kas[(r['rid'] // 3) % 2]
        jobs.append(dict(jid='m%d' % m, spec=spec, runs=runs))
    return jobs


def gen_order(rng, sz):
    from C03 import gen_program
    progs = []
    for i in range(sz['order_progs']):
        p = gen_program(rng, 'o%d' % i)
        p['runs'] = p['runs'][:6]
        progs.append(dict(jid='o%d' % i, prog=p))
    return progs


def plan_stage2(listing, sz, seed):
    """Jobs: sets of classes sharing a module; kernel-dependent classes per
    kernel class, the others with one (rotated) kernel."""
    kernels = listing['kernels']
    knames = sorted(kernels)
    dep = [c['key'] for c in listing['classes'] if c['uses_kernel']]
    ind = [c['key'] for c in listing['classes'] if not c['uses_kernel']]
    jobs = []

    def rot(lst, n, off):
        if n is None or n >= len(lst):
            return list(lst)
        off = off % len(lst)
        return (lst + lst)[off:off + n]
    if sz['s2_classes'] is None:
        dsel, isel, ksel = dep, ind, knames
    else:
        h = sz['s2_classes'] // 2
        dsel = rot(dep, h, seed * h)
        isel = rot(ind, sz['s2_classes'] - h, seed * h)
        ksel = rot(knames, sz['s2_kernels'], seed * sz['s2_kernels'])
    n = sz['per_job']
    j = 0
    for k in ksel:
        for i in range(0, len(dsel), n):
            jobs.append(dict(jid='k%d' % j, classes=dsel[i:i + n], kernel=k,
                             dims=kernels[k], reps=sz['s2_reps'], seed=seed))
            j += 1
    k0 = 'CubicSpline'
    for i in range(0, len(isel), n):
        jobs.append(dict(jid='i%d' % j, classes=isel[i:i + n], kernel=k0,
                         dims=kernels[k0], reps=sz['s2_reps'], seed=seed))
        j += 1
    # the kernel probes: every kernel-dependent symbol and every kernel
    # method against EVERY shipped kernel class x admissible dim, every tier
    for k in knames:
        jobs.append(dict(jid='p%d' % j, kernel=k, dims=kernels[k],
                         reps=sz['kp_reps'], seed=seed,
                         classes=[['c02_kprobe', 'KernelSymbols'],
                                  ['c02_kprobe', 'KernelMethods']]))
        j += 1
    # shipped classes with one constructor option away from its default
    allv = [c['key'] + [v] for c in listing['classes'] for v in c['variants']]
    vsel = rot(allv, sz['s2_variants'], seed * (sz['s2_variants'] or 1))
    for i in range(0, len(vsel), n):
        jobs.append(dict(jid='v%d' % j, classes=vsel[i:i + n], kernel=k0,
                         dims=kernels[k0], reps=1, seed=seed))
        j += 1
    return jobs, dict(kernel_dependent=len(dep), kernel_independent=len(ind),
                      kernels=kernels, kernels_used=ksel,
                      option_variants=len(allv),
                      option_variants_planned=len(vsel))


# ---------------------------------------------------------------------------
# running
# ---------------------------------------------------------------------------
def run_driver(chk, mode, jobs, tag, nproc, timeout=7000):
    """Distribute jobs over driver processes; returns the record lines."""
    sc = chk.scratch
    cmds = []
    for i in range(min(nproc, len(jobs))):
        part = jobs[i::nproc]
        fi = os.path.join(sc, '%s_jobs%d.ndjson' % (tag, i))
        write_lines(fi, part)
        cmds.append([mode, fi, os.path.join(sc, '%s_out%d.ndjson' % (tag, i)),
                     os.path.join(sc, '%s_work%d' % (tag, i))])
    # randomly generated probe modules are not worth caching
    extra = {'HOME': chk.private_home()} if mode in ('probe', 'order') \
        else None
    with ThreadPoolExecutor(max_workers=max(1, len(cmds))) as ex:
        list(ex.map(lambda c: chk.run_py('checks/c02_driver.py', c,
                                         timeout=timeout, env_extra=extra),
                    cmds))
    lines = []
    for c in cmds:
        lines += open(c[2]).readlines()
    return lines


def batches(chk, lines, tag, size):
    files = []
    for i in range(0, len(lines), size):
        f = os.path.join(chk.scratch, '%s_batch%d.ndjson' % (tag, i // size))
        with open(f, 'w') as fp:
            fp.writelines(lines[i:i + size])
        files.append(f)
    return files


def validate(module, cfg, files, parallel=12):
    if not files:
        return [], dict(generated=0, distinct=0)
    try:
        return tlc.validate_batches(module, cfg, files, parallel=parallel,
                                    timeout=3000)
    except tlc.TLCError as ex:
        raise MachineryError(str(ex))


def design_run():
    def one(k):
        return tlc.run('EvalDataMC', 'EvalDataMC.cfg', workers=2, timeout=1500,
                       env_extra={'MC_K': str(k)}, jvm=('-Xmx2g',))
    with ThreadPoolExecutor(max_workers=6) as ex:
        return list(ex.map(one, range(1, 7)))


def fill_class(r):
    """Records of failed runs get the fields ClassVerdict reads."""
    r.setdefault('cls', r.get('jid', '?'))
    r.setdefault('kernel', '?')
    r.setdefault('dim', 0)
    return r


# ---------------------------------------------------------------------------
# judging (dispatch on TLC's verdict records)
# ---------------------------------------------------------------------------
def judge_probe(chk, verdicts, recs, jobs):
    by_job = dict((j['jid'], j) for j in jobs)
    n_ok = 0
    for v in verdicts:
        r = recs[v['id']]
        job = by_job[r['jid']]
        rid = v['id'].split('/')[-1]
        replay = dict(kind='probe', job=dict(
            job, runs=[x for x in job['runs'] if str(x['rid']) == rid]
            or job['runs'][:1]))
        if v['crashed']:
            chk.violation('probe module %s: %s' % (r['jid'], r.get(
                'error', r.get('crash'))), dict(replay, tb=r.get('tb')))
            continue
        if not v['usable']:
            raise MachineryError('probe case %s leaves the exact range '
                                 '(generator fault)' % v['id'])
        if not v['order_ok']:
            raise MachineryError(
                'reference executor does not follow AccelEval.tla on %s '
                '(canonical event %d)' % (v['id'], v['orderdiff']))
        if v['impl_ok'] and not v['ref_ok']:
            raise MachineryError(
                'reference executor differs from EvalData.tla on %s: %s' % (
                    v['id'], v['first']))
        if v['known'] and all(chk.known(f) for f in v['known']):
            for f in v['known']:
                chk.known_hit(f)
            continue
        if not v['symtab_ok']:
            chk.violation('precomputed symbol table / order differs from the '
                          'documented one (%s)' % v['id'], replay)
            continue
        if not v['impl_ok'] or not v['agree']:
            chk.violation('compiled state differs from Eval on %s (%s) at %s'
                          % (v['id'], v['route'], v['first']), replay)
            continue
        if not v['hist_ok']:
            chk.violation('compute() after update_particle_arrays changed '
                          'the replaced arrays (%s)' % v['id'], replay)
            continue
        n_ok += 1
    return n_ok


def judge_class(chk, verdicts, recs, jobs):
    by_job = dict((j['jid'], j) for j in jobs)
    n_ok = 0
    for v in verdicts:
        r = recs[v['id']]
        job = by_job.get(r['jid'])
        if v['ok']:
            n_ok += 1
            continue
        if v['known'] and all(chk.known(f) for f in v['known']):
            for f in v['known']:
                chk.known_hit(f)
            chk.cov.setdefault('known_finding_cases', []).append(
                dict(cls=v['cls'], kernel=v['kernel'], dim=v['dim'],
                     properties=sorted(v['failed'])))
            continue
        one = dict(job or {}, classes=[r['ent']] if 'ent' in r
                   else (job or {}).get('classes', []))
        what = 'class %s kernel %s dim %s: compiled differs from the ' \
            'reference executor on %s' % (v['cls'], v['kernel'], v['dim'],
                                          sorted(v['failed']))
        if v['crashed']:
            what = 'class job %s: %s' % (r['jid'], r.get('error',
                                                         r.get('crash')))
        chk.violation(what, dict(kind='class', job=one,
                                 props=r.get('props')))
    return n_ok


# ---------------------------------------------------------------------------
def selftest(chk):
    """The binding reacts: corrupted records flip TLC's verdict; faults
    seeded in the driver process only (HIJ formula, d_/s_ swap) are caught."""
    rng = random.Random(99)
    spec = P.gen_module(rng, 'st0', d1=False)
    runs = [P.gen_data(rng, spec, 1 + (r % 3), r) for r in range(3)]
    jobs = [dict(jid='st-base', spec=spec, runs=runs),
            dict(jid='st-hij', spec=dict(spec, mid='st1'), runs=runs,
                 mutate='hij'),
            dict(jid='st-swap', spec=dict(spec, mid='st2'), runs=runs,
                 mutate='swap')]
    lines = run_driver(chk, 'probe', jobs, 'st', 3)
    recs = [json.loads(l) for l in lines]
    base = [r for r in recs if r['jid'] == 'st-base']
    if any('error' in r or 'crash' in r for r in recs):
        raise MachineryError('selftest: driver failed: %s' % [
            r.get('error') for r in recs if 'error' in r][:1])
    # corrupted copies of an accepted record
    c1 = json.loads(json.dumps(base[0]))
    c1['id'] = 'corrupt-impl'
    c1['impl'][0]['p']['sd1'][0] += 1
    c2 = json.loads(json.dumps(base[0]))
    c2['id'] = 'corrupt-ref'
    c2['ref'][-1]['c']['cacc'][0] += 1
    c3 = json.loads(json.dumps(base[0]))
    c3['id'] = 'corrupt-log'
    k = [i for i, e in enumerate(c3['reflog']) if e['k'] != 'loop']
    c3['reflog'][k[0]], c3['reflog'][k[-1]] = \
        c3['reflog'][k[-1]], c3['reflog'][k[0]]
    c4 = json.loads(json.dumps(base[0]))
    c4['id'] = 'corrupt-symtab'
    c4['symtab']['HIJ']['arrs'] = ['d_h']
    c5 = json.loads(json.dumps(base[0]))
    c5['id'] = 'corrupt-hist'
    c5['oldtouched'] = 3
    cls_ok = dict(id='cls-ok', kind='class', cls='X', kernel='K', dim=1,
                  arith=True, props=[dict(n='p', cnt=4, nbit=0, nan=0,
                                          err15=0, changed=2, undef=0,
                                          ubit=0)])
    cls_bad = json.loads(json.dumps(cls_ok))
    cls_bad['id'] = 'cls-bit'
    cls_bad['props'][0]['nbit'] = 1
    cls_tol = json.loads(json.dumps(cls_ok))
    cls_tol.update(id='cls-tol', arith=False)
    cls_tol['props'][0].update(nbit=1, err15=1001)
    cls_in = json.loads(json.dumps(cls_tol))
    cls_in['id'] = 'cls-within'
    cls_in['props'][0]['err15'] = 999
    f = os.path.join(chk.scratch, 'st_batch.ndjson')
    write_lines(f, recs + [c1, c2, c3, c4, c5, cls_ok, cls_bad, cls_tol, cls_in])
    verdicts, _ = validate('TraceEvalData', 'TraceEvalData.cfg', [f], 1)
    jid_of = dict((r['id'], r['jid']) for r in recs)
    by = {}
    for v in verdicts:
        by.setdefault(jid_of.get(v['id'], v['id']), []).append(v)
    want = [
        ('unmutated runs accepted', all(v['ok'] for v in by['st-base'])),
        ('corrupted impl value rejected', not by['corrupt-impl'][0]['impl_ok']
         and by['corrupt-impl'][0]['ref_ok']),
        ('corrupted ref value rejected', not by['corrupt-ref'][0]['ref_ok']
         and by['corrupt-ref'][0]['impl_ok']),
        ('permuted executor log rejected',
         not by['corrupt-log'][0]['order_ok']),
        ('altered symbol table rejected',
         not by['corrupt-symtab'][0]['symtab_ok']),
        ('write into the arrays replaced by update_particle_arrays rejected',
         not by['corrupt-hist'][0]['hist_ok']
         and not by['corrupt-hist'][0]['ok']),
        ('both routes (in place / update_particle_arrays) exercised',
         set(v['route'] for v in by['st-base']) == {'inplace', 'rebind'}),
        ('HIJ computed from d_h twice (driver process only) caught',
         any(not v['impl_ok'] and v['ref_ok'] for v in by['st-hij'])
         and all(not v['symtab_ok'] for v in by['st-hij'])),
        ('d_/s_ swapped in the generated source caught',
         any(not v['impl_ok'] and not v['ref_ok'] for v in by['st-swap'])),
        ('class record: exact accepted', by['cls-ok'][0]['ok']),
        ('class record: one differing bit of an arithmetic-only class '
         'rejected', not by['cls-bit'][0]['ok']),
        ('class record: 1.001e-12 relative rejected',
         not by['cls-tol'][0]['ok']),
        ('class record: 0.999e-12 relative accepted',
         by['cls-within'][0]['ok']),
    ]
    for name, ok in want:
        print('C02 selftest: %-70s %s' % (name, 'ok' if ok else 'FAILED'))
    if not all(ok for _, ok in want):
        raise MachineryError('selftest failed')
    print('C02 selftest: all %d checks passed' % len(want))
    sys.exit(0)


# ---------------------------------------------------------------------------
def run():
    chk = Check('C02', 'translation_validation')
    try:
        run_check(chk)
    finally:
        # records and generated modules of this run (the replay files under
        # /verif/replays are self-contained)
        if chk._env is not None:
            shutil.rmtree(chk.scratch, ignore_errors=True)


def run_check(chk):
    sz = TIERS[chk.tier]
    rng = random.Random(chk.seed * 7919 + 2)
    chk.env
    if chk.args.selftest:
        return selftest(chk)
    if chk.args.replay:
        case = json.load(open(chk.args.replay))['case']
        if case['kind'] == 'probe':
            lines = run_driver(chk, 'probe', [case['job']], 'rp', 1)
            recs = dict((json.loads(l)['id'], json.loads(l)) for l in lines)
            v, _ = validate('TraceEvalData', 'TraceEvalData.cfg',
                            batches(chk, lines, 'rp', 8), 1)
            judge_probe(chk, v, recs, [case['job']])
        else:
            lines = run_driver(chk, 'classes', [case['job']], 'rc', 1)
            lines = [json.dumps(fill_class(json.loads(l))) + '\n'
                     for l in lines if 'props' in json.loads(l)
                     or 'error' in json.loads(l) or 'crash' in json.loads(l)]
            recs = dict((json.loads(l)['id'], json.loads(l)) for l in lines)
            v, _ = validate('TraceEvalData', 'TraceEvalData.cfg',
                            batches(chk, lines, 'rc', 50), 1)
            judge_class(chk, v, recs, [case['job']])
        chk.cov.update(programs=1, disagreements_checked=len(v), samples=[
            dict(replayed=chk.args.replay)])
        return chk.finish()

    pool = ThreadPoolExecutor(max_workers=4)
    dfut = pool.submit(design_run)
    # ---- listing of the shipped classes (under the build environment) -----
    lf = os.path.join(chk.scratch, 'listing.json')
    chk.run_py('checks/c02_driver.py', ['list', lf], timeout=600)
    listing = json.load(open(lf))
    s1_jobs = gen_stage1(rng, sz)
    or_jobs = gen_order(rng, sz)
    s2_jobs, s2_plan = plan_stage2(listing, sz, chk.seed)
    quick = chk.tier == 'quick'
    f1 = pool.submit(run_driver, chk, 'probe', s1_jobs, 's1',
                     6 if quick else 8)
    f2 = pool.submit(run_driver, chk, 'classes', s2_jobs, 's2',
                     6 if quick else 8)
    f3 = pool.submit(run_driver, chk, 'order', or_jobs, 'or', 2)
    l1, l2, l3 = f1.result(), f2.result(), f3.result()

    # ---- stage 1 ---------------------------------------------------------
    recs1 = dict((json.loads(l)['id'], json.loads(l)) for l in l1)
    v1, st1 = validate('TraceEvalData', 'TraceEvalData.cfg',
                       batches(chk, l1, 's1', 6))
    if len(v1) != len(l1):
        raise MachineryError('stage 1: %d verdicts for %d records' % (
            len(v1), len(l1)))
    ok1 = judge_probe(chk, v1, recs1, s1_jobs)
    # ---- executor order on C03's group trees --------------------------------
    v3, _ = validate('TraceAccelEval', 'TraceAccelEval.cfg',
                     batches(chk, l3, 'or', 40))
    if len(v3) != len(l3):
        raise MachineryError('order: %d verdicts for %d records' % (
            len(v3), len(l3)))
    rej = set(v['id'] for v in v3 if not v['ok'] or not v['vcok'])
    if rej:
        # AccelEval!Canon identifies a run of loop events by (d, a) only and
        # may merge the runs of two destination arrays; such traces are
        # re-judged with the normal form of EvalData.tla (NormLog)
        again = [json.dumps(dict(json.loads(l), kind='order')) + '\n'
                 for l in l3 if json.loads(l)['id'] in rej]
        w3, _ = validate('TraceEvalData', 'TraceEvalData.cfg',
                         batches(chk, again, 'or2', 40))
        for v in w3:
            if not v['ok'] or not v['vcok']:
                raise MachineryError(
                    'reference executor does not follow AccelEval.tla on '
                    'group tree %s (event %s of the normal form)' % (
                        v['id'], v['diff']))
            chk.note_drift('AccelEval.Canon',
                           'trace %s of the reference executor: accepted by '
                           'NormLog, rejected by Canon (adjacent loop runs of '
                           'two destination arrays)' % v['id'])
    # ---- stage 2 ---------------------------------------------------------
    r2 = [json.loads(l) for l in l2]
    judged = [fill_class(r) for r in r2
              if 'props' in r or 'error' in r or 'crash' in r]
    recs2 = dict((r['id'], r) for r in judged)
    v2, _ = validate('TraceEvalData', 'TraceEvalData.cfg',
                     batches(chk, [json.dumps(r) + '\n' for r in judged],
                             's2', 120))
    if len(v2) != len(judged):
        raise MachineryError('stage 2: %d verdicts for %d records' % (
            len(v2), len(judged)))
    ok2 = judge_class(chk, v2, recs2, s2_jobs)
    labels = sorted(set(r['cls'] for r in r2 if 'props' in r))
    covered = sorted(set(l.split('[')[0] for l in labels
                         if not l.startswith('c02_kprobe')))
    variants_cov = [l for l in labels if '[' in l]
    kp = {}
    for v in v2:
        if v['cls'].startswith('c02_kprobe'):
            e = kp.setdefault(v['kernel'], dict(dims=[], runs=0, accepted=0,
                                                bit_identical=0))
            if v['dim'] not in e['dims']:
                e['dims'].append(v['dim'])
            e['runs'] += 1
            e['accepted'] += int(v['ok'])
            e['bit_identical'] += int(v['exact'])
    notcov = {}
    for r in r2:
        if 'notcovered' in r:
            notcov[r['cls']] = r['notcovered']
        elif 'pyerror' in r and r['cls'] not in covered:
            notcov[r['cls']] = 'Python method raised on the random data: ' + \
                r['pyerror']
    for c in labels:
        notcov.pop(c, None)
    planned = set('.'.join(k[:2]) for j in s2_jobs for k in j['classes']
                  if k[0] != 'c02_kprobe')
    allc = set('.'.join(c['key']) for c in listing['classes'])
    # ---- design run --------------------------------------------------------
    design = dfut.result()
    for d in design:
        if d.get('error') or d.get('timeout'):
            raise MachineryError('TLC design run failed:\n' + d['out'][-2500:])
        if not d['ok']:
            chk.violation('design model EvalDataMC: %s' % d['violation'],
                          dict(kind='design', out=d['out'][-3000:]))
    # ---- evidence ----------------------------------------------------------
    feats = {}
    unread = set(P.ALL_SYMS)
    for j in s1_jobs:
        for k, n in j['spec']['feats'].items():
            feats[k] = feats.get(k, 0) + n
    unread = sorted(s for s in P.ALL_SYMS if ('sym:' + s) not in feats)
    combos = sorted(k for k in feats if k.startswith('write:'))
    if unread:
        raise MachineryError('program family does not read %s' % unread)
    nontrivial = set()
    for v in v1:
        if v['ok'] and v['nloop'] >= 20:
            nontrivial.add(v['id'])
    for v in v2:
        if v['ok'] and v['nontrivial']:
            nontrivial.add(v['id'])
    exact2 = sum(1 for v in v2 if v['exact'])
    sample_job = s1_jobs[0]
    src = P.Render(sample_job['spec']).source().split('\n')
    i0 = [i for i, l in enumerate(src) if l.startswith('class ')][0]
    chk.cov.update(dict(
        programs=len(s1_jobs) + len(covered),
        disagreements_checked=len(v1) + len(v2),
        states=sum(d['distinct'] for d in design),
        transitions=sum(d['generated'] for d in design),
        traces_validated_against_impl=len(v1) + len(v2) + len(v3),
        evaluations=len(v1) + len(v2) + len(v3),
        distinct_nontrivial=len(nontrivial),
        rule='a case is one compute(): a compiled probe module on one lattice '
             'data set (non-trivial: >= 20 pair-loop invocations, three-way '
             'equal) or one shipped class x kernel x dim x data set '
             '(non-trivial: the reference executor changed at least one '
             'value); distinct by id',
        stage1=dict(modules=len(s1_jobs), cases=len(v1), accepted=ok1,
                    equations=sum(len(g['eqs']) for j in s1_jobs
                                  for g in j['spec']['prog']),
                    hook_events=sum(v['nev'] for v in v1),
                    pair_loops=sum(v['nloop'] for v in v1),
                    dims=sorted(set(r['dim'] for r in recs1.values()
                                    if 'dim' in r)),
                    routes=dict((rt, sum(1 for r in recs1.values()
                                         if r.get('route') == rt))
                                for rt in ('inplace', 'rebind')),
                    symbols_read=sorted(k[4:] for k in feats
                                        if k.startswith('sym:')),
                    type_stride_written=combos, features=feats),
        executor_order=dict(group_trees=len(or_jobs), traces=len(v3),
                            accepted=len(v3)),
        stage2=dict(classes_found=len(allc), classes_planned=len(planned),
                    classes_covered=len(covered), runs=len(v2), accepted=ok2,
                    option_variants_covered=variants_cov,
                    kernel_probes=kp,
                    routes=dict((rt, sum(1 for r in r2 if r.get('route') == rt))
                                for rt in ('inplace', 'rebind')),
                    bit_identical_runs=exact2, plan=s2_plan,
                    covered=covered,
                    not_covered=notcov,
                    known_not_automatic=sorted(listing['not_automatic']),
                    not_planned_this_tier=len(allc - planned)),
        trusted_base=TRUSTED,
        samples=[dict(kind='probe', module=sample_job['jid'],
                      group=sample_job['spec']['prog'][0],
                      source='\n'.join(src[i0:i0 + 30]),
                      data=dict((k, sample_job['runs'][0][k])
                                for k in ('dim', 't', 'dt', 'kern')),
                      verdict=v1[0] if v1 else None),
                 dict(kind='class', verdict=v2[0] if v2 else None,
                      record=recs2[v2[0]['id']] if v2 else None)],
    ))
    chk.assumptions += [
        'stage 1 runs without OpenMP; neighbours are visited in the order '
        'NNPS returns them (any order is allowed; sums are order independent '
        'on the exact data, checked by the design run)',
        'lattice data: even h with h % 4 = 2 and radius_scale 5/4, so no '
        'pair lies on the cut-off; even densities; |values| bounded so that '
        'doubles (and 32-bit floats / ints where used) hold them exactly',
        'RHOIJ1 and EPS only flow into rational slots; recorded as the '
        'closest fraction with denominator <= 1000 plus the distance in ulp '
        '(tolerance 1024 ulp)',
        'WDP, GHI/GHJ/GHIJ, WDASHI/WDASHJ/WDASHIJ are not in the rst list of '
        'precomputed symbols; their formulas are taken from the listing of '
        'precomputed_symbols()',
        'stage 2: one equation per group, dest a0, sources [a0, a1]; all '
        'properties double with inferred strides; classes that cannot be set '
        'up this way are listed in stage2.not_covered',
        'stage 2 tolerance: exact when the methods (and the kernel methods '
        'used) contain IEEE basic operations only, else 1e-12 relative to the '
        'larger of the two values and the scale of the property',
        'entries that depend on a declared matrix no statement wrote are '
        'excluded from the comparison and reported as finding '
        'C02-uninit-declare when the compiled value differs',
    ]
    chk.finish()


if __name__ == '__main__':
    main(run)
