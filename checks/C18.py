"""C18 - the solver controller never loses a command or a wake-up.

Design:  Controller.tla (PlusCal, one label per synchronisation primitive):
         TLC explores all interleavings for a family of interface programs;
         safety (ExactlyOnce, PauseHolds, WaitNotEarly), deadlock and
         liveness are checked modulo the recorded known findings.
Binding: the *real* CommandManager/Controller run on real threads under the
         deterministic scheduler; schedules are enumerated systematically
         (bounded number of deviations from a non-preemptive default policy)
         and randomly; every execution's log is evaluated by TLC against the
         property layer (ControllerProps.tla).
"""
import itertools
import json
import os
import sys
from concurrent.futures import ThreadPoolExecutor

sys.path.insert(0, os.path.dirname(os.path.dirname(os.path.abspath(__file__))))
from mbv import tlc                                   # noqa: E402
from mbv.harness import Check, MachineryError, main   # noqa: E402


def programs(maxlen):
    """Well-formed single-interface programs: R only for an own queued id;
    W and C only after P; every P eventually followed by C; at most one W
    per pause."""
    out = []

    def rec(prog, nq, nr, st):   # st: 0 normal, 1 pause requested, 2 waited
        if st == 0 and prog:
            out.append(list(prog))
        if len(prog) >= maxlen:
            return
        for op in 'GQRPWC':
            if op == 'R' and nr >= nq:
                continue
            if op == 'P' and st != 0:
                continue
            if op == 'W' and st != 1:
                continue
            if op == 'C' and st == 0:
                continue
            if op == 'G' and prog and prog[-1] == 'G':
                continue
            nst = {'P': 1, 'W': 2, 'C': 0}.get(op, st)
            rec(prog + [op], nq + (op == 'Q'), nr + (op == 'R'), nst)
    rec([], 0, 0, 0)
    return out


def tla_prog(progs):
    return '<<' + ', '.join(
        '<<' + ', '.join('"%s"' % o for o in p) + '>>' for p in progs) + '>>'


def design_run(chk, idx, progs):
    d = os.path.join(chk.scratch, 'mc%d' % idx)
    os.makedirs(d, exist_ok=True)
    with open(os.path.join(d, 'MCC.tla'), 'w') as fp:
        fp.write('---- MODULE MCC ----\nEXTENDS Controller\nProgDef == %s\n'
                 '====\n' % tla_prog(progs))
    with open(os.path.join(d, 'MCC.cfg'), 'w') as fp:
        fp.write('SPECIFICATION Spec\nCONSTANTS\n  NI = %d\n  Prog <- ProgDef\n'
                 'INVARIANT TypeOK\nINVARIANT ExactlyOnce\n'
                 'INVARIANT PauseHoldsM\nINVARIANT WaitNotEarlyM\n'
                 'INVARIANT ResultsDelivered\nINVARIANT NoUnknownDeadlock\n'
                 'PROPERTY IfacesTerminateM\nPROPERTY SolverLiveM\n'
                 'CHECK_DEADLOCK FALSE\n' % len(progs))
    r = tlc.run(os.path.join(d, 'MCC.tla'), os.path.join(d, 'MCC.cfg'),
                workers=2, timeout=1200 if chk.tier == 'quick' else 5400)
    if r.get('error') or r.get('timeout'):
        raise MachineryError('TLC failed on %s:\n%s' % (progs, r['out'][-2000:]))
    return r


KNOWN_IDS = {'C18-lost-wakeup', 'C18-lock-order', 'C18-result-while-paused',
             'C18-spurious-wait-return'}
# clauses that each known finding can explain
EXPLAINS = {
    'C18-lost-wakeup': {'BlockedForever'},
    'C18-lock-order': {'BlockedForever'},
    'C18-result-while-paused': {'BlockedForever'},
    'C18-spurious-wait-return': {'WaitNotEarly', 'PauseHolds'},
}


def full_events(t):
    """Re-read the complete log of a trace from the driver's output file."""
    for line in open(t['src']):
        if '"id": "%s"' % t['id'] in line or '"id":"%s"' % t['id'] in line:
            x = json.loads(line)
            if x['id'] == t['id']:
                return x['events']
    return t['head']


def run():
    chk = Check('C18', 'model_checking')
    quick = chk.tier == 'quick'
    sc = chk.scratch
    if chk.args.replay:
        obj = json.load(open(chk.args.replay))['case']
        jobs = [dict(name='replay', progs=obj['progs'], mode='replay',
                     schedule=obj['schedule'], maxcp=obj.get('maxcp', 6))]
        designs = []
    else:
        p1 = programs(4 if quick else 5)
        # two pause cycles by one thread (a cycle without wait() first, then
        # one with): too long for the enumerated family of the quick tier
        for extra in ('PCPWC', 'PWCPWC', 'PCPWCQR'):
            if list(extra) not in p1:
                p1.append(list(extra))
        pairs = []
        small = [p for p in programs(3)]
        for a, b in itertools.product(small, small):
            if 'P' in a or 'P' in b or 'Q' in a and 'Q' in b:
                pairs.append([a, b])
        if quick:
            pairs = pairs[chk.seed % 6::6]
        jobs = []
        for i, p in enumerate(p1):
            jobs.append(dict(name='one%d' % i, progs=[p], mode='bounded',
                             bound=2 if quick else 3, maxcp=6,
                             limit=300 if quick else 1200, seed=chk.seed))
        for i, pq in enumerate(pairs):
            jobs.append(dict(name='two%d' % i, progs=pq, mode='bounded',
                             bound=1 if quick else 2, maxcp=6,
                             limit=150 if quick else 500, seed=chk.seed))
            jobs.append(dict(name='rnd%d' % i, progs=pq, mode='random',
                             nrandom=20 if quick else 60, seed=chk.seed,
                             maxcp=8))
        dprogs = [[p] for p in programs(3 if quick else 4)]
        dprogs += pairs[::7] if quick else pairs[::2]
        with ThreadPoolExecutor(max_workers=8) as ex:
            designs = list(ex.map(lambda ip: (ip[1], design_run(chk, *ip)),
                                  enumerate(dprogs)))

    def do(ij):
        i, job = ij
        jf = os.path.join(sc, 'job%d.json' % i)
        of = os.path.join(sc, 'out%d.ndjson' % i)
        json.dump(job, open(jf, 'w'))
        chk.run_py('checks/c18_driver.py', [jf, of], timeout=3000)
        return of
    with ThreadPoolExecutor(max_workers=16) as ex:
        outs = list(ex.map(do, enumerate(jobs)))
    # batches for TLC
    traces = {}
    files = []
    cur = []
    for of in outs:
        for line in open(of):
            t = json.loads(line)
            # only a summary stays in memory (thorough runs have millions of
            # events); the head of the log is kept for diagnostics
            ev = t.pop('events')
            t['nev'] = len(ev)
            t['head'] = ev[:40] if len(traces) < 40 else []
            t['src'] = of
            t['sw'] = sum(1 for a, b in zip(t['schedule'], t['schedule'][1:])
                          if a != b)
            t['schedule'] = ','.join(t['schedule'])
            for k in ('done', 'dev'):
                t.pop(k, None)
            traces[t['id']] = t
            cur.append(line)
            if len(cur) >= 400:
                f = os.path.join(sc, 'batch%d.ndjson' % len(files))
                open(f, 'w').writelines(cur)
                files.append(f)
                cur = []
    if cur:
        f = os.path.join(sc, 'batch%d.ndjson' % len(files))
        open(f, 'w').writelines(cur)
        files.append(f)
    try:
        verdicts, st = tlc.validate_batches(
            'TraceControllerP', 'TraceControllerP.cfg', files, parallel=12)
    except tlc.TLCError as ex:
        raise MachineryError(str(ex))
    if len(verdicts) != len(traces):
        raise MachineryError('verdicts %d != traces %d' % (
            len(verdicts), len(traces)))
    # mechanism conformance: primitive logs vs the PlusCal model (drift only)
    def mconf(ij):
        i, job = ij
        d = os.path.join(sc, 'tm%d' % i)
        os.makedirs(d, exist_ok=True)
        with open(os.path.join(d, 'TCM.tla'), 'w') as fp:
            fp.write('---- MODULE TCM ----\nEXTENDS TraceControllerM\n'
                     'ProgDef == %s\n====\n' % tla_prog(job['progs']))
        with open(os.path.join(d, 'TCM.cfg'), 'w') as fp:
            fp.write('INIT TInit\nNEXT TNext\nCONSTRAINT Track\n'
                     'POSTCONDITION Report\nCHECK_DEADLOCK FALSE\nCONSTANTS\n'
                     '  NI = %d\n  Prog <- ProgDef\n' % len(job['progs']))
        r = tlc.run(os.path.join(d, 'TCM.tla'), os.path.join(d, 'TCM.cfg'),
                    workers=1, env_extra={'TRACE_FILE': outs[i]},
                    timeout=1800, jvm=('-Xmx3g',))
        if r.get('error') or r.get('timeout'):
            raise MachineryError('TLC M-conformance failed (%s):\n%s' % (
                job['progs'], r['out'][-2000:]))
        return tlc.parse_prints(r['out'], 'VERDICT'), r
    msel = list(enumerate(jobs))
    if quick:
        msel = msel[chk.seed % 3::3]
    mtraces = mstates = 0
    with ThreadPoolExecutor(max_workers=12) as ex:
        for vs, r in ex.map(mconf, msel):
            mstates += r['distinct']
            for v in vs:
                mtraces += 1
                if v['m'] < v['n']:
                    t = traces[v['id']]
                    e = full_events(t)[v['m']]
                    chk.note_drift('Controller', '%s %s event %d: %s %s %s' % (
                        v['id'], t['progs'], v['m'] + 1, e['th'], e['k'],
                        e['obj']))
    nlimit = 0
    distinct = set()
    for v in verdicts:
        t = traces[v['id']]
        if t['outcome'] == 'limit':
            nlimit += 1
        sw = t['sw']
        if sw >= 2:
            distinct.add(hash((json.dumps(t['progs']), t['schedule'])))
        failed = set(v['failed'])
        if not failed:
            continue
        explained = set()
        hits = []
        for k in v['known']:
            if chk.known(k):
                explained |= EXPLAINS[k]
                hits.append(k)
        rest = failed - explained
        if rest:
            chk.violation(
                'programs %s: %s' % (t['progs'], sorted(rest)),
                dict(progs=t['progs'], schedule=t['schedule'].split(','),
                     maxcp=6, failed=sorted(failed), known=v['known'],
                     blocked=t['blocked'], errors=t['errors']))
        else:
            for k in hits:
                chk.known_hit(k)
    dstates = dtrans = 0
    for progs, r in designs:
        dstates += r['distinct']
        dtrans += r['generated']
        if not r['ok']:
            chk.violation('design model, programs %s: %s' % (
                progs, r['violation']),
                dict(progs=progs, schedule=[], design=True,
                     out=r['out'][-3000:]))
    sample = None
    for t in traces.values():
        if t['outcome'] == 'done' and t['nev'] > 30 and t['head']:
            sample = t
            break
    sample = sample or next(iter(traces.values()))
    chk.cov.update(dict(
        states=dstates or st['distinct'], transitions=dtrans or st['generated'],
        design_models=len(designs),
        design_rule='Controller.tla instantiated with each interface-program '
                    'family member; safety, deadlock and liveness modulo the '
                    'known findings',
        traces_validated_against_impl=len(verdicts),
        mechanism_traces_validated=mtraces, mechanism_trace_states=mstates,
        mechanism_drift=len(chk.drift),
        programs_explored=len(jobs),
        inconclusive_step_limit=nlimit,
        evaluations=len(verdicts),
        distinct_nontrivial=len(distinct),
        rule='a case is one complete schedule of the real solver + interface '
             'threads at primitive granularity; distinct by (programs, '
             'schedule); non-trivial when it has >= 2 context switches',
        samples=[dict(progs=sample['progs'], schedule=sample['schedule'].split(',')[:60],
                      outcome=sample['outcome'],
                      events=[[e['th'], e['ev'], e['k'], e['obj']]
                              for e in sample['head'][:40]])],
    ))
    chk.assumptions += [
        'threading primitives are replaced by scheduler-controlled '
        're-implementations with CPython semantics (FIFO notify, RLock-based '
        'Condition); the controller module is loaded with that module bound '
        'to the name `threading`',
        'the solver thread calls execute_commands once per control point and '
        'stops once all interface programs have finished (at most 6-8 '
        'control points)',
    ]
    chk.finish()


if __name__ == '__main__':
    main(run)
