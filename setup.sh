#!/bin/sh
# Build the framework from files on disk only (offline): out-of-tree build of
# /repo's working tree into the cache and a smoke test of TLC.
cd "$(dirname "$0")" || exit 2
set -e
/venv/bin/python -m mbv.build
java -XX:+UseParallelGC -cp /opt/veriftools/tla/tla2tools.jar:/opt/veriftools/tla/CommunityModules-deps.jar tla2sany.SANY spec/Solver.tla >/dev/null
echo setup-ok
