#!/bin/sh
# Build the framework from files on disk only (offline): out-of-tree build of
# /repo's working tree into the cache and a smoke test of the TLA+ tools.
cd "$(dirname "$0")" || exit 2
/venv/bin/python -m mbv.build || exit 2
out=$(cd spec && java -XX:+UseParallelGC -cp /opt/veriftools/tla/tla2tools.jar:/opt/veriftools/tla/CommunityModules-deps.jar tla2sany.SANY Solver.tla 2>&1)
if echo "$out" | grep -qi "error"; then echo "$out"; echo "SANY failed"; exit 2; fi
echo setup-ok
exit 0
