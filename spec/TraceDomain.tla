---------------------------- MODULE TraceDomain ----------------------------
(* Validates domain updates recorded from the real DomainManager (C07):    *)
(* for every round and array the real particles before the update, all     *)
(* rows after it and after a second update without moves.                  *)
EXTENDS Integers, Sequences, FiniteSets, TLC, Json, IOUtils, TLCExt
Dim == 1  Box == 1  MaxP == 0  Layers == {1}  Modes == {"x"}
VARIABLES cfg, before, rows, again, phase
INSTANCE Domain

Traces == ndJsonDeserialize(IOEnv.TRACE_FILE)
VARIABLE tid

Verdict(x) ==
    IF "crash" \in DOMAIN x \/ "error" \in DOMAIN x
    THEN [id |-> x.id, failed |-> {<<0, 0, "Returns">>}, narr |-> 0]
    ELSE [id |-> x.id,
          failed |-> UNION {UNION {{<<r, a, n>> :
                       n \in Failed(x.cfg, x.rounds[r][a].before,
                                    x.rounds[r][a].after, x.rounds[r][a].again)}
                       : a \in DOMAIN x.rounds[r]} : r \in DOMAIN x.rounds},
          narr |-> Len(x.rounds[1])]

TInit == /\ tid \in 1..Len(Traces) /\ TLCSet(tid, Verdict(Traces[tid]))
         /\ cfg = <<>> /\ before = <<>> /\ rows = <<>> /\ again = <<>>
         /\ phase = "trace"
TNext == FALSE /\ UNCHANGED <<tid, cfg, before, rows, again, phase>>
Report == \A i \in 1..Len(Traces) : PrintT(<<"VERDICT", ToJson(TLCGet(i))>>)
=============================================================================
