---------------------------- MODULE TraceOutput ----------------------------
(***************************************************************************)
(* Batch validation of round trips recorded from the real code             *)
(* (checks/c11_driver.py).  One case per line of TRACE_FILE:               *)
(*   id, fmt ("npz" | "hdf5" | "npz1"), compress, detailed, only_real,     *)
(*   names, arrs : the list given to dump, as projections of the real      *)
(*                 ParticleArray objects just before the call,             *)
(*   sd          : solver data given to dump (t, dt in units of 1/1024),   *)
(*   lnames, larrs, lsd : keys / projections of what load() returned,      *)
(*   error       : "" or "<stage>: <exception>" if dump or load raised.    *)
(* The verdict of a case is computed here, by evaluating the clauses of    *)
(* Output.tla on the recorded states; Python only dispatches on it.        *)
(***************************************************************************)
EXTENDS Output, Json, IOUtils, TLCExt

Traces == ndJsonDeserialize(IOEnv.TRACE_FILE)
VARIABLE tid

SetOf(q) == {q[i] : i \in DOMAIN q}
Conv(x) == [type |-> x.type, stride |-> x.stride, dflt |-> x.dflt,
            len |-> x.len, data |-> x.data, consts |-> x.consts,
            ctype |-> x.ctype, outs |-> SetOf(x.outs), nreal |-> x.nreal]
CaseOf(t) ==
    [fmt |-> t.fmt, compress |-> t.compress, detailed |-> t.detailed,
     only_real |-> t.only_real,
     names |-> t.names, arrs |-> [a \in DOMAIN t.arrs |-> Conv(t.arrs[a])],
     sd |-> t.sd,
     lnames |-> t.lnames,
     larrs |-> [a \in DOMAIN t.larrs |-> Conv(t.larrs[a])],
     lsd |-> t.lsd, lext |-> t.lext, error |-> t.error]

Verdict(t) ==
    LET c == CaseOf(t)
    IN IF t.error # "" /\ t.names = <<>>
       THEN \* nothing was recorded before the failure (crash of the driver)
            [id |-> t.id, pre |-> TRUE, failed |-> {"Returns"}, known |-> {},
             unexplained |-> {"Returns"}, order |-> TRUE, nvalues |-> 0,
             nnotstored |-> 0]
       ELSE [id |-> t.id,
             pre |-> Precondition(c),
             failed |-> Failed(c),
             known |-> IF t.error = "" THEN Known(c) ELSE {},
             unexplained |-> IF t.error = "" THEN Unexplained(c) ELSE Failed(c),
             order |-> SameOrder(c),
             nvalues |-> NumStoredValues(c),
             nnotstored |-> NumNotStored(c)]

TInit == tid \in 1..Len(Traces) /\ TLCSet(tid, Verdict(Traces[tid]))
TNext == FALSE /\ tid' = tid
Report == \A i \in 1..Len(Traces) : PrintT(<<"VERDICT", ToJson(TLCGet(i))>>)
=============================================================================
