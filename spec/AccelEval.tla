----------------------------- MODULE AccelEval -----------------------------
(***************************************************************************)
(* The control structure of one AccelerationEval.compute(t, dt)  (C03).    *)
(*                                                                         *)
(* A program is a sequence of groups                                       *)
(*   [gid, real, start, stop, sprop, pprop, iterate, minit, maxit,         *)
(*    hascond, haspre, haspost, upd, sub, eqs]                             *)
(* stop = -1 means "not given"; sprop/pprop: start/stop are read from the  *)
(* destination array (arr[d].stv / arr[d].spv); sub is a sequence of       *)
(* sub-groups (same record shape, one level) or <<>>.  An equation is      *)
(*   [eid, dest, srcs, hooks]   with hooks a subset of Hooks.              *)
(* arr[a] = [nreal, nall, stv, spv]; nbrs[<<d, s, i>>] the set of source   *)
(* indices that are neighbours of destination particle i (ghosts           *)
(* included).  env.cond[gid] / env.conv[eid]: the successive answers of    *)
(* condition(t, dt) / converged().                                         *)
(*                                                                         *)
(* An event is [k, id, d, s, a]: hook or callable k of equation / group    *)
(* id, destination index d, source index s, source array a (-1 if n/a).    *)
(*                                                                         *)
(* Mechanism layer:  Run(..) - an executor shaped like                     *)
(* acceleration_eval_cython.mako (neighbours visited in ascending order).  *)
(* Property layer:   Matches(.., log) - the log is a behaviour allowed by  *)
(* the documented order: any neighbour order, everything else fixed.       *)
(***************************************************************************)
EXTENDS Integers, Sequences, FiniteSets, TLC

Hooks == {"py_initialize", "initialize", "initialize_pair", "loop_all", "loop",
          "post_loop", "reduce"}
Ev(k, id, d, s, a) == [k |-> k, id |-> id, d |-> d, s |-> s, a |-> a]
Range(f) == {f[i] : i \in DOMAIN f}
SeqOfSet(S) ==   \* ascending sequence of a finite set of integers
    LET F[T \in SUBSET S] ==
          IF T = {} THEN <<>>
          ELSE LET m == CHOOSE x \in T : \A y \in T : x <= y
               IN <<m>> \o F[T \ {m}]
    IN F[S]
Flat(q) ==       \* concatenation of a sequence of sequences
    LET F[i \in 0..Len(q)] == IF i = 0 THEN <<>> ELSE F[i - 1] \o q[i]
    IN F[Len(q)]
Sel(q, P(_)) == SelectSeq(q, P)
Has(e, h) == h \in e.hooks

\* destinations of a flat group in order of first appearance
Dests(eqs) ==
    LET F[i \in 0..Len(eqs)] ==
          IF i = 0 THEN <<>>
          ELSE IF eqs[i].dest \in Range(F[i - 1]) THEN F[i - 1]
               ELSE Append(F[i - 1], eqs[i].dest)
    IN F[Len(eqs)]
\* sources of destination d in order of first appearance
Srcs(eqs, d) ==
    LET all == Flat([i \in DOMAIN eqs |-> IF eqs[i].dest = d THEN eqs[i].srcs ELSE <<>>])
        F[i \in 0..Len(all)] ==
          IF i = 0 THEN <<>>
          ELSE IF all[i] \in Range(F[i - 1]) THEN F[i - 1] ELSE Append(F[i - 1], all[i])
    IN F[Len(all)]

\* destination index range of group g on array d
Lo(g, arr, d) == IF g.sprop THEN arr[d].stv ELSE g.start
Hi(g, arr, d) == IF g.pprop THEN arr[d].spv
                 ELSE IF g.stop >= 0 THEN g.stop
                 ELSE IF g.real THEN arr[d].nreal ELSE arr[d].nall
DRange(g, arr, d) == SeqOfSet({i \in Lo(g, arr, d)..(Hi(g, arr, d) - 1) : TRUE})

-----------------------------------------------------------------------------
(* Mechanism: the event sequence of one destination block.                 *)
DestBlock(g, arr, nbrs, d) ==
    LET E  == Sel(g.eqs, LAMBDA e : e.dest = d)
        R  == DRange(g, arr, d)
        per(h) == Sel(E, LAMBDA e : Has(e, h))
        pyinit == [i \in DOMAIN per("py_initialize") |->
                     Ev("py_initialize", per("py_initialize")[i].eid, -1, -1, -1)]
        init == IF per("initialize") = <<>> THEN <<>>
                ELSE Flat([j \in DOMAIN R |-> [i \in DOMAIN per("initialize") |->
                        Ev("initialize", per("initialize")[i].eid, R[j], -1, -1)]])
        srcblock(s) ==
            LET G == Sel(E, LAMBDA e : s \in Range(e.srcs))
                ip == Sel(G, LAMBDA e : Has(e, "initialize_pair"))
                la == Sel(G, LAMBDA e : Has(e, "loop_all"))
                lp == Sel(G, LAMBDA e : Has(e, "loop"))
                b1 == IF ip = <<>> THEN <<>>
                      ELSE Flat([j \in DOMAIN R |-> [i \in DOMAIN ip |->
                              Ev("initialize_pair", ip[i].eid, R[j], -1, s)]])
                one(di) ==
                    [i \in DOMAIN la |-> Ev("loop_all", la[i].eid, di, -1, s)] \o
                    (LET N == SeqOfSet(nbrs[<<d, s, di>>])
                     IN Flat([n \in DOMAIN N |-> [i \in DOMAIN lp |->
                                Ev("loop", lp[i].eid, di, N[n], s)]]))
                b2 == IF la = <<>> /\ lp = <<>> THEN <<>>
                      ELSE Flat([j \in DOMAIN R |-> one(R[j])])
            IN b1 \o b2
        S == Srcs(g.eqs, d)
        pairs == Flat([k \in DOMAIN S |-> srcblock(S[k])])
        post == IF per("post_loop") = <<>> THEN <<>>
                ELSE Flat([j \in DOMAIN R |-> [i \in DOMAIN per("post_loop") |->
                        Ev("post_loop", per("post_loop")[i].eid, R[j], -1, -1)]])
        red == [i \in DOMAIN per("reduce") |-> Ev("reduce", per("reduce")[i].eid, -1, -1, -1)]
    IN pyinit \o init \o pairs \o post \o red

\* body of a group without sub-groups: pre, destination blocks, update, post
FlatBody(g, arr, nbrs) ==
    (IF g.haspre THEN <<Ev("pre", g.gid, -1, -1, -1)>> ELSE <<>>) \o
    (LET D == Dests(g.eqs) IN Flat([k \in DOMAIN D |-> DestBlock(g, arr, nbrs, D[k])])) \o
    (IF g.upd THEN <<Ev("update_domain", -1, -1, -1, -1), Ev("nnps_update", -1, -1, -1, -1)>>
     ELSE <<>>) \o
    (IF g.haspost THEN <<Ev("post", g.gid, -1, -1, -1)>> ELSE <<>>)

AllEqs(g) == IF g.sub = <<>> THEN g.eqs ELSE Flat([k \in DOMAIN g.sub |-> g.sub[k].eqs])

\* state threaded through the run: log, number of condition calls per group,
\* number of converged() calls per equation
St0 == [log |-> <<>>, cc |-> <<>>, vc |-> <<>>]
Cnt(f, k) == IF k \in DOMAIN f THEN f[k] ELSE 0
Bump(f, k) == [x \in DOMAIN f \cup {k} |-> IF x = k THEN Cnt(f, k) + 1 ELSE f[x]]
Key(i) == ToString(i)
CondOf(env, g, st) == env.cond[Key(g.gid)][Cnt(st.cc, g.gid) + 1]

\* one sub-group inside a pass of its parent
RunSub(sg, arr, nbrs, env, st) ==
    IF sg.hascond
    THEN LET c == CondOf(env, sg, st)
             st1 == [st EXCEPT !.cc = Bump(st.cc, sg.gid),
                               !.log = Append(st.log, Ev("condition", sg.gid, -1, -1, -1))]
         IN IF c THEN [st1 EXCEPT !.log = st1.log \o FlatBody(sg, arr, nbrs)] ELSE st1
    ELSE [st EXCEPT !.log = st.log \o FlatBody(sg, arr, nbrs)]

RECURSIVE RunSubs(_, _, _, _, _, _)
RunSubs(g, k, arr, nbrs, env, st) ==
    IF k > Len(g.sub) THEN st
    ELSE RunSubs(g, k + 1, arr, nbrs, env, RunSub(g.sub[k], arr, nbrs, env, st))

\* one pass of group g
Pass(g, arr, nbrs, env, st) ==
    IF g.sub = <<>> THEN [st EXCEPT !.log = st.log \o FlatBody(g, arr, nbrs)]
    ELSE LET s1 == IF g.haspre THEN [st EXCEPT !.log = Append(st.log, Ev("pre", g.gid, -1, -1, -1))]
                   ELSE st
             s2 == RunSubs(g, 1, arr, nbrs, env, s1)
             s3 == IF g.upd THEN [s2 EXCEPT !.log = s2.log \o
                        <<Ev("update_domain", -1, -1, -1, -1), Ev("nnps_update", -1, -1, -1, -1)>>]
                   ELSE s2
         IN IF g.haspost THEN [s3 EXCEPT !.log = Append(s3.log, Ev("post", g.gid, -1, -1, -1))]
            ELSE s3

\* convergence of the pass just made: every equation of the group is asked
ConvAll(g, env, st) ==
    \A i \in DOMAIN AllEqs(g) : env.conv[Key(AllEqs(g)[i].eid)][Cnt(st.vc, AllEqs(g)[i].eid) + 1]
AskAll(g, st) ==
    LET E == AllEqs(g)
        F[i \in 0..Len(E)] == IF i = 0 THEN st.vc ELSE Bump(F[i - 1], E[i].eid)
    IN [st EXCEPT !.vc = F[Len(E)]]

\* `if (count >= min_iterations) and (converged_all or count == max_iterations)`:
\* the equations are only asked once the minimum number of passes is reached,
\* and then all of them are asked
RECURSIVE Iterate(_, _, _, _, _, _)
Iterate(g, count, arr, nbrs, env, st) ==
    LET s1 == Pass(g, arr, nbrs, env, st)
    IN IF count < g.minit THEN Iterate(g, count + 1, arr, nbrs, env, s1)
       ELSE LET conv == ConvAll(g, env, s1)
                s2 == AskAll(g, s1)
            IN IF conv \/ count = g.maxit THEN s2
               ELSE Iterate(g, count + 1, arr, nbrs, env, s2)

RunGroup(g, arr, nbrs, env, st) ==
    LET go(s) == IF g.iterate THEN Iterate(g, 1, arr, nbrs, env, s)
                 ELSE Pass(g, arr, nbrs, env, s)
    IN IF g.hascond
       THEN LET c == CondOf(env, g, st)
                st1 == [st EXCEPT !.cc = Bump(st.cc, g.gid),
                                  !.log = Append(st.log, Ev("condition", g.gid, -1, -1, -1))]
            IN IF c THEN go(st1) ELSE st1
       ELSE go(st)

RECURSIVE RunGroups(_, _, _, _, _, _)
RunGroups(prog, k, arr, nbrs, env, st) ==
    IF k > Len(prog) THEN st
    ELSE RunGroups(prog, k + 1, arr, nbrs, env, RunGroup(prog[k], arr, nbrs, env, st))

Run(prog, arr, nbrs, env) == RunGroups(prog, 1, arr, nbrs, env, St0)

-----------------------------------------------------------------------------
(* Property layer.  A log is allowed when it equals the mechanism's log    *)
(* after both are put in canonical form: inside one destination particle's *)
(* neighbour loop the order of the neighbours is not promised, so the      *)
(* blocks of "loop" events of one (destination particle, source array) are *)
(* compared as sets of per-neighbour event sequences; everything else is   *)
(* compared position by position.                                          *)
IsLoop(e) == e.k = "loop"
\* destination array of every equation of a program
EqDestOf(prog) ==
    LET E == Flat([k \in DOMAIN prog |-> AllEqs(prog[k])])
    IN [i \in {E[k].eid : k \in DOMAIN E} |-> E[CHOOSE k \in DOMAIN E : E[k].eid = i].dest]
SameRun(e, f) == IsLoop(e) /\ IsLoop(f) /\ e.d = f.d /\ e.a = f.a
\* two loop events belong to the same neighbour loop: same destination array
\* and particle, same source array
SameRunD(D, e, f) == IsLoop(e) /\ IsLoop(f) /\ e.d = f.d /\ e.a = f.a
                     /\ e.id \in DOMAIN D /\ f.id \in DOMAIN D /\ D[e.id] = D[f.id]
\* canonical form: each maximal run of loop events of one (d, a) is replaced
\* by one marker event carrying the set of <<s, sequence of equation ids>>
Canon(log, D) ==
    LET n == Len(log)
        SameRunX(e, f) == SameRunD(D, e, f)
        start(i) == IsLoop(log[i]) /\ (i = 1 \/ ~SameRunX(log[i - 1], log[i]))
        endOf[i \in 1..n] == IF i < n /\ SameRunX(log[i], log[i + 1]) THEN endOf[i + 1] ELSE i
        groupsOf(i, j) ==   \* <<s, eids>> for each maximal sub-run with equal s
            LET first(k) == k = i \/ log[k].s # log[k - 1].s
                last[k \in i..j] == IF k < j /\ log[k + 1].s = log[k].s THEN last[k + 1] ELSE k
            IN [x \in {k \in i..j : first(k)} |->
                    <<log[x].s, [m \in 1..(last[x] - x + 1) |-> log[x + m - 1].id]>>]
        mark(i) == LET G == groupsOf(i, endOf[i])
                   IN [k |-> "loops", id |-> -1, d |-> log[i].d, s |-> -1, a |-> log[i].a,
                       groups |-> {G[x] : x \in DOMAIN G}, n |-> Cardinality(DOMAIN G)]
        plain(e) == [k |-> e.k, id |-> e.id, d |-> e.d, s |-> e.s, a |-> e.a,
                     groups |-> {}, n |-> 0]
        F[i \in 1..(n + 1)] ==
            IF i > n THEN <<>>
            ELSE IF start(i) THEN <<mark(i)>> \o F[endOf[i] + 1]
            ELSE IF IsLoop(log[i]) THEN F[i + 1]
            ELSE <<plain(log[i])>> \o F[i + 1]
    IN F[1]

Matches(prog, arr, nbrs, env, log) ==
    Canon(log, EqDestOf(prog)) = Canon(Run(prog, arr, nbrs, env).log, EqDestOf(prog))

\* first position at which the canonical forms differ (0 = none)
FirstDiff(p, q) ==
    LET m == IF Len(p) < Len(q) THEN Len(p) ELSE Len(q)
        D == {i \in 1..m : p[i] # q[i]}
    IN IF D # {} THEN CHOOSE i \in D : \A j \in D : i <= j
       ELSE IF Len(p) # Len(q) THEN m + 1 ELSE 0

\* number of converged() calls the documented iteration makes per equation
ConvCalls(prog, arr, nbrs, env) == Run(prog, arr, nbrs, env).vc
=============================================================================
