--------------------------- MODULE TraceTimeStep ---------------------------
(***************************************************************************)
(* Validates results recorded from the real Integrator.compute_time_step   *)
(* and Solver._compute_timestep (checks/c19_driver.py).  A batch file      *)
(* holds one trace per line: the case (inputs, see TimeStep.tla) plus      *)
(*   res  = [k, v]  what compute_time_step returned,                       *)
(*   sres = [k, v]  what _compute_timestep returned,                       *)
(*   msg            text of an exception, if any.                          *)
(* A line with a field `asks` is a history recorded from ONE set of objects *)
(* driven through the real Solver.solve() (see TimeStep.tla, HISTORIES).    *)
(* A line with a field `steps` is a run of the real Solver.solve() with a    *)
(* scripted integrator (see TimeStep.tla, RUNS).                            *)
(* For every trace the property layer of TimeStep.tla is evaluated on the  *)
(* recorded results (Verdict: failed clauses; whether the failure is       *)
(* explained by findings of status "known" and by which) and, for drift    *)
(* detection, the recorded results are compared with the mechanism model   *)
(* of the code as it is.  Results are                                      *)
(* accumulated in TLC registers and printed by the POSTCONDITION.          *)
(***************************************************************************)
EXTENDS TimeStep, Json, IOUtils, TLC, TLCExt

Traces == ndJsonDeserialize(IOEnv.TRACE_FILE)
VARIABLE tid

\* recorded result kinds outside the model's vocabulary never match
Rec(x) == [k |-> x.k, v |-> <<x.v[1], x.v[2]>>]

\* x.known_ids: ids of the findings whose status is "known" in
\* known_findings.json (written into every trace by the check); only those
\* may explain a failure.
KnownOf(x) == {x.known_ids[i] : i \in 1 .. Len(x.known_ids)}

TVerdict(x) ==
    LET r == Rec(x.res)
        s == Rec(x.sres)
        m == Mech(x)
    IN [v |-> Verdict(x, r, s, KnownOf(x)),
        mech |-> SameV(r, m) /\ SameV(s, M_Solver(x, m))]

\* a history (a line with `asks`): every ask is judged against the CURRENT
\* arrays (memoryless statement) and the solver-level clauses; `step` is the
\* first failing ask (0: none)
THistory(x) == [v |-> HVerdict(x), mech |-> HMechSame(x)]

\* a run (a line with `steps`): the real Solver.solve() with a scripted
\* integrator; every integrator.step(t, dt) is judged against the state in
\* force at that moment; `step` is the first failing step (0: none)
TRun(x) == [v |-> RVerdict(x), mech |-> RMechSame(x)]

TAny(x) == IF "asks" \in DOMAIN x THEN THistory(x)
           ELSE IF "steps" \in DOMAIN x THEN TRun(x)
           ELSE TVerdict(x)

TInit == tid \in 1 .. Len(Traces) /\ TLCSet(tid, TAny(Traces[tid]))
TNext == FALSE /\ tid' = tid

Report ==
    \A i \in 1 .. Len(Traces) :
        PrintT(<<"VERDICT", ToJson(TLCGet(i))>>)
=============================================================================
