------------------------------- MODULE Solver -------------------------------
(***************************************************************************)
(* The time-marching loop of pysph.solver.solver.Solver.solve().           *)
(*                                                                         *)
(* Time is an integer number of ticks (the replay harness maps one tick to *)
(* 2^-4, so every float operation of the implementation is exact and the   *)
(* implementation's epsilon comparisons reduce to the integer comparisons  *)
(* written here).  The damping factor is kept in halves (fac = 2 is 1.0,   *)
(* fac = 1 is 0.5): these are the exact values of the documented formula   *)
(* 0.5*(sin(pi*(-0.5 + (count+1)/n_damp)) + 1) for n_damp in 0..2.          *)
(*                                                                         *)
(* Layer M (mechanism): one action per block of solve(), state variables   *)
(* named after the Solver attributes.  Layer P (property): the operators   *)
(* P_* of SolverProps evaluated on the observable log only.                *)
(***************************************************************************)
EXTENDS Integers, Sequences, FiniteSets, TLC

VARIABLES
    \* inputs, chosen in Init and never changed
    tf, dt0, pfreq, outs, ndamp, adaptive, props, maxsteps,
    \* Solver attributes
    t, dt, count, prevdt, fac, ncalls, lim, nom,
    \* control and observation
    pc, log

inputs == <<tf, dt0, pfreq, outs, ndamp, adaptive, props, maxsteps>>
vars   == <<tf, dt0, pfreq, outs, ndamp, adaptive, props, maxsteps,
            t, dt, count, prevdt, fac, ncalls, lim, nom, pc, log>>

INSTANCE SolverProps

SetMin(S) == CHOOSE x \in S : \A y \in S : x <= y

\* _damp_timestep: factor (in halves) for iteration number c
Damp(c) == IF ndamp > 0 /\ c < ndamp
           THEN (IF ndamp = 2 /\ c = 0 THEN 1 ELSE 2)
           ELSE 2

\* the (damped) step size in force: nominal step times the damping factor
LimNow == (nom * Damp(count)) \div 2

\* _get_solver_data()['dt']
RecordedDt == IF prevdt # 0 THEN (prevdt * 2) \div fac ELSE (dt * 2) \div fac

DumpEvent == [ev |-> "dump", t |-> t, dt |-> RecordedDt', count |-> count,
              lim |-> LimNow, nom |-> nom, pos |-> RecordedDt' > 0]

(***************************************************************************)
(* _get_timestep(): restore a saved step, ask the integrator (adaptive),   *)
(* damp, land on tf.  `lim` is the step size in force after damping and    *)
(* before the cut to tf.  `nom` is the environment's view of the nominal   *)
(* step (dt0 or the last proposal of the integrator); LimNow, the damped   *)
(* nominal step, is what the property calls "the current (damped, adaptive *)
(* or fixed) step size".                                                   *)
(***************************************************************************)
GetTimestep ==
    IF t = tf
    THEN UNCHANGED <<dt, prevdt, fac, ncalls, lim, nom>>
    ELSE LET restore == prevdt # 0
             d1   == IF restore THEN prevdt ELSE dt
             und  == (d1 * 2) \div fac
             prop == IF adaptive /\ ncalls < Len(props)
                     THEN props[ncalls + 1] ELSE 0
             d2   == IF prop # 0 THEN prop ELSE und
             f2   == Damp(count)
             d3   == (d2 * f2) \div 2
         IN  /\ dt' = IF t + d3 >= tf THEN tf - t ELSE d3
             /\ prevdt' = IF restore THEN 0 ELSE prevdt
             /\ fac' = f2
             /\ ncalls' = IF adaptive THEN ncalls + 1 ELSE ncalls
             /\ lim' = d3
             /\ nom' = IF prop # 0 THEN prop ELSE nom

InitialDump ==
    /\ pc = "initial_dump"
    /\ log' = Append(log, [ev |-> "dump", t |-> t, dt |-> RecordedDt,
                           count |-> count, lim |-> LimNow, nom |-> nom,
                           pos |-> RecordedDt > 0])
    /\ pc' = "first_timestep"
    /\ UNCHANGED <<inputs, t, dt, count, prevdt, fac, ncalls, lim, nom>>

FirstTimestep ==
    /\ pc = "first_timestep"
    /\ GetTimestep
    /\ pc' = "loop"
    /\ UNCHANGED <<inputs, t, count, log>>

LoopTest ==
    /\ pc = "loop"
    /\ pc' = IF tf - t > 0 /\ count < maxsteps THEN "pre" ELSE "final_dump"
    /\ UNCHANGED <<inputs, t, dt, count, prevdt, fac, ncalls, lim, nom, log>>

PreStep ==
    /\ pc = "pre"
    /\ log' = Append(log, [ev |-> "pre", t |-> t, dt |-> dt, count |-> count,
                           lim |-> LimNow, nom |-> nom, pos |-> dt > 0])
    /\ pc' = "step"
    /\ UNCHANGED <<inputs, t, dt, count, prevdt, fac, ncalls, lim, nom>>

Step ==
    /\ pc = "step"
    /\ log' = Append(log, [ev |-> "step", t |-> t, dt |-> dt, count |-> count,
                           lim |-> LimNow, nom |-> nom, pos |-> dt > 0])
    /\ pc' = "post"
    /\ UNCHANGED <<inputs, t, dt, count, prevdt, fac, ncalls, lim, nom>>

PostStep ==
    /\ pc = "post"
    /\ log' = Append(log, [ev |-> "post", t |-> t, dt |-> dt, count |-> count,
                           lim |-> LimNow, nom |-> nom, pos |-> dt > 0])
    /\ pc' = "advance"
    /\ UNCHANGED <<inputs, t, dt, count, prevdt, fac, ncalls, lim, nom>>

Advance ==
    /\ pc = "advance"
    /\ t' = t + dt
    /\ count' = count + 1
    /\ pc' = "next_timestep"
    /\ UNCHANGED <<inputs, dt, prevdt, fac, ncalls, lim, nom, log>>

NextTimestep ==
    /\ pc = "next_timestep"
    /\ GetTimestep
    /\ pc' = "dump_if_needed"
    /\ UNCHANGED <<inputs, t, count, log>>

(***************************************************************************)
(* _dump_output_if_needed(): shorten the next step to land on the first    *)
(* requested time it would otherwise pass, then dump when the iteration    *)
(* is a multiple of pfreq or t is a requested time.                        *)
(***************************************************************************)
DumpIfNeeded ==
    /\ pc = "dump_if_needed"
    /\ pc' = "loop"
    /\ UNCHANGED <<inputs, t, count, fac, ncalls, lim, nom>>
    /\ IF t = tf
       THEN UNCHANGED <<dt, prevdt, log>>
       ELSE LET big  == {r \in outs : r - t > 0 /\ r - t < dt}
                dump == (count % pfreq = 0) \/ (t \in outs)
            IN /\ IF big # {}
                  THEN /\ prevdt' = dt
                       /\ dt' = SetMin(big) - t
                  ELSE UNCHANGED <<dt, prevdt>>
               /\ log' = IF dump THEN Append(log, DumpEvent) ELSE log

FinalDump ==
    /\ pc = "final_dump"
    /\ log' = Append(log, [ev |-> "dump", t |-> t, dt |-> RecordedDt,
                           count |-> count, lim |-> LimNow, nom |-> nom,
                           pos |-> RecordedDt > 0])
    /\ pc' = "done"
    /\ UNCHANGED <<inputs, t, dt, count, prevdt, fac, ncalls, lim, nom>>

Next == \/ InitialDump \/ FirstTimestep \/ LoopTest \/ PreStep \/ Step
        \/ PostStep \/ Advance \/ NextTimestep \/ DumpIfNeeded \/ FinalDump

StartState ==
    /\ t = 0 /\ dt = dt0 /\ count = 0 /\ prevdt = 0 /\ fac = 2 /\ ncalls = 0
    /\ lim = dt0 /\ nom = dt0 /\ pc = "initial_dump" /\ log = <<>>

-----------------------------------------------------------------------------
(* Bounded input space for the exhaustive design check.                    *)
CONSTANTS MaxTf, MaxDt, MaxPf, MaxOuts, NDamps, PropVals, MaxProps, MaxStepsVals

SeqsUpTo(S, n) == UNION {[1..k -> S] : k \in 0..n}

Init ==
    /\ tf \in 1..MaxTf
    /\ ndamp \in NDamps
    /\ dt0 \in {d \in 1..MaxDt : ndamp = 2 => d % 2 = 0}
    /\ pfreq \in 1..MaxPf
    /\ outs \in {S \in SUBSET (0..tf) : Cardinality(S) <= MaxOuts}
    /\ adaptive \in BOOLEAN
    /\ props \in IF adaptive
                 THEN {p \in SeqsUpTo(PropVals, MaxProps) :
                         ndamp = 2 => \A i \in DOMAIN p : p[i] % 2 = 0}
                 ELSE {<<>>}
    /\ maxsteps \in MaxStepsVals
    /\ StartState

Spec == Init /\ [][Next]_vars /\ WF_vars(Next)

-----------------------------------------------------------------------------
(* Invariants.  The mechanism must imply the property layer.               *)
In == [tf |-> tf, dt0 |-> dt0, pfreq |-> pfreq, outs |-> outs,
       maxsteps |-> maxsteps, t0 |-> 0, c0 |-> 0, norec |-> FALSE]

Done == pc = "done"

TypeOK == /\ t \in 0..tf /\ dt \in 0..(2 * MaxDt + MaxTf) /\ fac \in {1, 2}
          /\ prevdt >= 0 /\ count \in 0..(tf + 1)

M_Terminates  == Done => P_Terminates(log, In, 0)
M_Monotone    == P_Monotone(log, In, 0)
M_StepBounded == P_StepBounded(log, In, 0)
M_Contiguous  == P_Contiguous(log, In, 0)
M_DumpStart   == Done => P_DumpStart(log, In, 0)
M_DumpEnd     == Done => P_DumpEnd(log, In, 0)
M_DumpPfreq   == Done => P_DumpPfreq(log, In, 0)
M_NeverPast   == P_NeverPast(log, In, 0)
M_DumpAtTimes == Done => P_DumpAtTimes(log, In, 0)
M_RecordedDt  == P_RecordedDt(log, In, 0)
M_Callbacks   == Done => P_Callbacks(log, In, 0)

\* Known finding C10-first-step: requested times strictly inside the very
\* first step are not seen (the adjustment is made in _dump_output_if_needed,
\* which first runs after a step).  The masked forms drop exactly those
\* requested times and nothing else.
InMasked == Masked(log, In, 0)
M_NeverPast_masked   == P_NeverPast(log, InMasked, 0)
M_DumpAtTimes_masked == Done => P_DumpAtTimes(log, InMasked, 0)

Termination == <>Done
=============================================================================
