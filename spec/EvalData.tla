------------------------------ MODULE EvalData ------------------------------
(***************************************************************************)
(* C02 - the DATA semantics of one AccelerationEval.compute(t, dt), on top *)
(* of the order defined by AccelEval.tla, over exact integers.             *)
(*                                                                         *)
(* Part 1  rationals <<num, den>>                                          *)
(* Part 2  the table `Symbols` of the precomputed pair symbols: formula,   *)
(*         dependencies, particle properties read; dependency order        *)
(* Part 3  the probe kernel (integer polynomials distinguishing every      *)
(*         argument); its Python twin is checks/c02_kernel.py              *)
(* Part 4  values of the symbols for one (destination, source) pair        *)
(* Part 5  the probe IR: atoms, terms, expressions, statements             *)
(* Part 6  Eval(x): the state of every property and constant after one     *)
(*         compute(), a fold of the statements over AccelEval!Run's log    *)
(* Part 7  property layer: verdicts over recorded runs of the real code    *)
(*                                                                         *)
(* Data (D1 of DESIGN.md): positions on an integer lattice, even smoothing *)
(* lengths and densities (so that HIJ and RHOIJ are integers), integer     *)
(* masses, velocities, t and dt.  Every arithmetic operation the           *)
(* implementation performs on such data is exact in IEEE double, hence the *)
(* implementation's state must EQUAL the integer state computed here.      *)
(* The two documented formulas that are not integer valued (RHOIJ1, EPS)   *)
(* are rationals and only flow into properties declared rational (`rat`).  *)
(* RIJ = sqrt(R2IJ) is represented by its square: a probe may use          *)
(* floor(RIJ*RIJ + 0.5) (= R2IJ, atom "rsq") anywhere and RIJ itself (atom *)
(* "rij") where R2IJ is a perfect square (always, on a 1-D lattice).       *)
(*                                                                         *)
(* One recorded case x (a JSON object):                                    *)
(*   dim, t, dt, kern = [ka, dim]      kernel instance attributes          *)
(*   prog, env                         as in AccelEval (TraceAccelEval)    *)
(*   body[Key(eid)] = [attrs |-> [ca, ci, cv], <hook> |-> <<statements>>]  *)
(*   stride[name], types[name], rat = <<names of rational properties>>     *)
(*   arr[a] = [nreal, nall, stv, spv, p |-> [name |-> flat sequence],      *)
(*             c |-> [name |-> sequence]]        (a = 1.. : array a - 1)   *)
(***************************************************************************)
EXTENDS AccelEval

(***************************************************************************)
(* Part 1: rationals                                                       *)
(***************************************************************************)
QAbs(v) == IF v < 0 THEN -v ELSE v
RECURSIVE QGcd(_, _)
QGcd(a, b) == IF b = 0 THEN a ELSE QGcd(b, a % b)
Rat(p, q) == LET s == IF q < 0 THEN -1 ELSE 1
                 g == QGcd(QAbs(p), QAbs(q))
             IN <<(s * p) \div g, (s * q) \div g>>
RInt(k) == <<k, 1>>
RAdd(a, b) == Rat(a[1] * b[2] + b[1] * a[2], a[2] * b[2])
RMul(a, b) == Rat(a[1] * b[1], a[2] * b[2])
REq(a, b) == a[1] * b[2] = b[1] * a[2]
IsRat(a) == a[2] > 0 /\ QGcd(QAbs(a[1]), a[2]) = 1

Max2(a, b) == IF a < b THEN b ELSE a
Half(v) == v \div 2            \* v is even by the data convention (WellFormed)
ISqrt(n) == CHOOSE r \in 0..n : r * r = n          \* n a perfect square
IsSquare(n) == \E r \in 0..n : r * r = n
RECURSIVE SumFn(_, _)
SumFn(S, f) == IF S = {} THEN 0          \* sum of f[v], v in S
               ELSE LET m == CHOOSE v \in S : TRUE IN f[m] + SumFn(S \ {m}, f)
RECURSIVE SumSeq(_, _)
SumSeq(q, n) == IF n = 0 THEN 0 ELSE q[n] + SumSeq(q, n - 1)

(***************************************************************************)
(* Part 2: the symbol table.                                               *)
(* Transcribed from docs/source/design/equations.rst ("The following       *)
(* precomputed quantites are available and may be passed into any          *)
(* equation") and overview.rst (doc = TRUE).  WDP, GHI/GHJ/GHIJ and        *)
(* WDASHI/WDASHJ/WDASHIJ are named by the property statement but are not   *)
(* in that list; their formulas are the ones the reference manual shows    *)
(* for pysph.sph.equation.precomputed_symbols (doc = FALSE).               *)
(*   deps: precomputed symbols the formula reads                           *)
(*   arrs: particle properties the formula reads (d_: destination at       *)
(*         d_idx, s_: source at s_idx)                                     *)
(*   n:    number of components                                            *)
(*   form: the documented formula, verbatim                                *)
(***************************************************************************)
Sy(deps, arrs, n, doc, form) ==
    [deps |-> deps, arrs |-> arrs, n |-> n, doc |-> doc, form |-> form]
Symbols ==
    [HIJ    |-> Sy({}, {"d_h", "s_h"}, 1, TRUE, "HIJ = 0.5*(d_h[d_idx] + s_h[s_idx])"),
     XIJ    |-> Sy({}, {"d_x", "s_x", "d_y", "s_y", "d_z", "s_z"}, 3, TRUE,
                   "XIJ[0] = d_x[d_idx] - s_x[s_idx]; XIJ[1] = d_y[d_idx] - s_y[s_idx]; XIJ[2] = d_z[d_idx] - s_z[s_idx]"),
     R2IJ   |-> Sy({"XIJ"}, {}, 1, TRUE, "R2IJ = XIJ[0]*XIJ[0] + XIJ[1]*XIJ[1] + XIJ[2]*XIJ[2]"),
     RIJ    |-> Sy({"R2IJ"}, {}, 1, TRUE, "RIJ = sqrt(R2IJ)"),
     WIJ    |-> Sy({"XIJ", "RIJ", "HIJ"}, {}, 1, TRUE, "WIJ = KERNEL(XIJ, RIJ, HIJ)"),
     WJ     |-> Sy({"XIJ", "RIJ"}, {"s_h"}, 1, TRUE, "WJ = KERNEL(XIJ, RIJ, s_h[s_idx])"),
     RHOIJ  |-> Sy({}, {"d_rho", "s_rho"}, 1, TRUE, "RHOIJ = 0.5*(d_rho[d_idx] + s_rho[s_idx])"),
     WI     |-> Sy({"XIJ", "RIJ"}, {"d_h"}, 1, TRUE, "WI = KERNEL(XIJ, RIJ, d_h[d_idx])"),
     RHOIJ1 |-> Sy({"RHOIJ"}, {}, 1, TRUE, "RHOIJ1 = 1.0/RHOIJ"),
     DWIJ   |-> Sy({"XIJ", "RIJ", "HIJ"}, {}, 3, TRUE, "GRADIENT(XIJ, RIJ, HIJ, DWIJ)"),
     DWJ    |-> Sy({"XIJ", "RIJ"}, {"s_h"}, 3, TRUE, "GRADIENT(XIJ, RIJ, s_h[s_idx], DWJ)"),
     DWI    |-> Sy({"XIJ", "RIJ"}, {"d_h"}, 3, TRUE, "GRADIENT(XIJ, RIJ, d_h[d_idx], DWI)"),
     VIJ    |-> Sy({}, {"d_u", "s_u", "d_v", "s_v", "d_w", "s_w"}, 3, TRUE,
                   "VIJ[0] = d_u[d_idx] - s_u[s_idx]; VIJ[1] = d_v[d_idx] - s_v[s_idx]; VIJ[2] = d_w[d_idx] - s_w[s_idx]"),
     EPS    |-> Sy({"HIJ"}, {}, 1, TRUE, "EPS = 0.01 * HIJ * HIJ"),
     WDP    |-> Sy({"XIJ", "HIJ"}, {}, 1, FALSE, "WDP = KERNEL(XIJ, DELTAP*HIJ, HIJ)"),
     WDASHI |-> Sy({"RIJ"}, {"d_h"}, 1, FALSE, "WDASHI = DWDQ(RIJ, d_h[d_idx])"),
     WDASHJ |-> Sy({"RIJ"}, {"s_h"}, 1, FALSE, "WDASHJ = DWDQ(RIJ, s_h[s_idx])"),
     WDASHIJ |-> Sy({"RIJ", "HIJ"}, {}, 1, FALSE, "WDASHIJ = DWDQ(RIJ, HIJ)"),
     GHI    |-> Sy({"XIJ", "RIJ"}, {"d_h"}, 1, FALSE, "GHI = GRADH(XIJ, RIJ, d_h[d_idx])"),
     GHJ    |-> Sy({"XIJ", "RIJ"}, {"s_h"}, 1, FALSE, "GHJ = GRADH(XIJ, RIJ, s_h[s_idx])"),
     GHIJ   |-> Sy({"XIJ", "RIJ", "HIJ"}, {}, 1, FALSE, "GHIJ = GRADH(XIJ, RIJ, HIJ)")]
SymNames == DOMAIN Symbols
VecSyms == {n \in SymNames : Symbols[n].n = 3}
RatSyms == {"RHOIJ1", "EPS"}

\* symbols that can be computed once everything in `done` is available
Ready(done) == {n \in SymNames \ done : Symbols[n].deps \subseteq done}
RECURSIVE Levels(_, _)
\* <<level 0, level 1, ...>>: level k = symbols whose deepest dependency chain
\* has k links; stops when nothing new is ready
Levels(done, acc) ==
    LET r == Ready(done)
    IN IF r = {} THEN acc ELSE Levels(done \cup r, Append(acc, r))
SymLevels == Levels({}, <<>>)
LevelOf(n) == CHOOSE k \in DOMAIN SymLevels : n \in SymLevels[k]
\* the table is complete (every dependency is itself in the table) and
\* acyclic (every symbol gets a level)
TableComplete == \A n \in SymNames : Symbols[n].deps \subseteq SymNames
TableAcyclic == UNION {SymLevels[k] : k \in DOMAIN SymLevels} = SymNames
\* symbols that must be computed when the loop methods ask for `req`
RECURSIVE Closure(_)
Closure(S) == LET T == S \cup UNION {Symbols[n].deps : n \in S}
              IN IF T = S THEN S ELSE Closure(T)
Needed(req) == Closure(req \cap SymNames)
\* a sequence of symbol names is an admissible evaluation order for `req`:
\* exactly the needed symbols, once each, dependencies first
GoodOrder(q, req) ==
    /\ Range(q) = Needed(req)
    /\ Len(q) = Cardinality(Needed(req))
    /\ \A i \in DOMAIN q : \A m \in Symbols[q[i]].deps :
           \E j \in 1..(i - 1) : q[j] = m
\* particle properties a pair block reads on behalf of the symbols
SymArrays(req) == UNION {Symbols[n].arrs : n \in Needed(req)}

(***************************************************************************)
(* Part 3: the probe kernel.  K = [ka, dim] are its instance attributes.   *)
(* The second argument (rij) enters through its square r2.                 *)
(***************************************************************************)
DeltaP == 3
Kern(K, X, r2, h) == 8 * h * h - 2 * r2 + X[1] + 3 * X[2] + 5 * X[3] + K.ka
Dwdq(K, r2, h) == r2 - 3 * h + K.dim
Grad(K, X, r2, h) == <<X[1] * h, X[2] * h + r2, X[3] * h - r2 + K.ka>>
GradH(K, X, r2, h) == h * r2 + X[1] - X[2] + 2 * X[3]

(***************************************************************************)
(* Part 4: the symbols of one pair.  c = [dx, sx, dv, sv (3-tuples), dh,   *)
(* sh, drho, srho, K]: the values of the properties named in `arrs` at     *)
(* d_idx of the destination / s_idx of the source.                         *)
(***************************************************************************)
XIJ(c) == [k \in 1..3 |-> c.dx[k] - c.sx[k]]
VIJ(c) == [k \in 1..3 |-> c.dv[k] - c.sv[k]]
R2IJ(c) == LET X == XIJ(c) IN X[1] * X[1] + X[2] * X[2] + X[3] * X[3]
HIJ(c) == Half(c.dh + c.sh)
RHOIJ(c) == Half(c.drho + c.srho)
RHOIJ1(c) == Rat(1, RHOIJ(c))
EPS(c) == Rat(HIJ(c) * HIJ(c), 100)
SymVec(n, c) ==
    CASE n = "XIJ" -> XIJ(c)
      [] n = "VIJ" -> VIJ(c)
      [] n = "DWIJ" -> Grad(c.K, XIJ(c), R2IJ(c), HIJ(c))
      [] n = "DWI" -> Grad(c.K, XIJ(c), R2IJ(c), c.dh)
      [] n = "DWJ" -> Grad(c.K, XIJ(c), R2IJ(c), c.sh)
SymVal(n, k, c) ==      \* integer valued symbols; k = component (0 based)
    CASE n \in VecSyms -> SymVec(n, c)[k + 1]
      [] n = "HIJ" -> HIJ(c)
      [] n = "R2IJ" -> R2IJ(c)
      [] n = "RIJ" -> ISqrt(R2IJ(c))
      [] n = "RHOIJ" -> RHOIJ(c)
      [] n = "WIJ" -> Kern(c.K, XIJ(c), R2IJ(c), HIJ(c))
      [] n = "WI" -> Kern(c.K, XIJ(c), R2IJ(c), c.dh)
      [] n = "WJ" -> Kern(c.K, XIJ(c), R2IJ(c), c.sh)
      [] n = "WDP" -> Kern(c.K, XIJ(c), (DeltaP * HIJ(c)) * (DeltaP * HIJ(c)), HIJ(c))
      [] n = "WDASHI" -> Dwdq(c.K, R2IJ(c), c.dh)
      [] n = "WDASHJ" -> Dwdq(c.K, R2IJ(c), c.sh)
      [] n = "WDASHIJ" -> Dwdq(c.K, R2IJ(c), HIJ(c))
      [] n = "GHI" -> GradH(c.K, XIJ(c), R2IJ(c), c.dh)
      [] n = "GHJ" -> GradH(c.K, XIJ(c), R2IJ(c), c.sh)
      [] n = "GHIJ" -> GradH(c.K, XIJ(c), R2IJ(c), HIJ(c))
SymRat(n, c) == CASE n = "RHOIJ1" -> RHOIJ1(c) [] n = "EPS" -> EPS(c)

(***************************************************************************)
(* Part 5: the probe IR.                                                   *)
(*  atom  [k, n, i, a]   kind, name, index / component / constant, args    *)
(*  term  [c, f]         integer coefficient times the product of atoms f  *)
(*  expr  <<terms>>      sum                                               *)
(*  stmt  [tk, tn, tc, op, lets, e]                                        *)
(*        target: tk = "dp": d_<tn>[d_idx*stride + tc]; "dc": d_<tn>[tc]   *)
(*        op: "set" slot = e | "add" slot += e | "nc" slot = 2*slot + e    *)
(*            "radd" rational slot += e                                    *)
(*        lets: expressions stored in the declared matrix mt[0..]          *)
(* Evaluation context cx = [A (arrays), st (strides), d, di, s, si, at     *)
(* (instance attributes), t, dt, K, nb (neighbours of di in s), mat].      *)
(***************************************************************************)
PAt(A, st, n, i, k) == A.p[n][i * st[n] + k + 1]
Vec3(A, st, i, n1, n2, n3) == <<PAt(A, st, n1, i, 0), PAt(A, st, n2, i, 0), PAt(A, st, n3, i, 0)>>
PairOf(cx) ==
    LET D == cx.A[cx.d]
        S == cx.A[cx.s]
    IN [dx |-> Vec3(D, cx.st, cx.di, "x", "y", "z"), sx |-> Vec3(S, cx.st, cx.si, "x", "y", "z"),
        dv |-> Vec3(D, cx.st, cx.di, "u", "v", "w"), sv |-> Vec3(S, cx.st, cx.si, "u", "v", "w"),
        dh |-> PAt(D, cx.st, "h", cx.di, 0), sh |-> PAt(S, cx.st, "h", cx.si, 0),
        drho |-> PAt(D, cx.st, "rho", cx.di, 0), srho |-> PAt(S, cx.st, "rho", cx.si, 0),
        K |-> cx.K]

\* ---- arithmetic operators of the equation language (Python semantics) -------
\* floor division / floor modulo for any non-zero divisor (TLC's \div floors)
FDiv(a, b) == IF b > 0 THEN a \div b ELSE (-a) \div (-b)
FMod(a, b) == a - b * FDiv(a, b)                  \* sign of the divisor
\* C: truncation toward zero, remainder with the sign of the dividend
TDivG(a, b) == LET q == (IF a < 0 THEN -a ELSE a) \div (IF b < 0 THEN -b ELSE b)
               IN IF (a < 0) = (b < 0) THEN q ELSE -q
TMod(a, b) == a - b * TDivG(a, b)
RECURSIVE IPow(_, _)
IPow(b, e) == IF e = 0 THEN 1 ELSE b * IPow(b, e - 1)          \* e >= 0
IntAttrs == {"ci", "cj", "ni", "nj"}
\* the operand is integer-typed in the generated C (else double)
IntTyped(a, cx) == \/ a.k = "il"
                   \/ a.k = "at" /\ a.n \in IntAttrs
                   \/ a.k \in {"dp", "sp"} /\ cx.ty[a.n] \in {"int", "long", "uint"}
BothInt(a, cx) == /\ IntTyped(a.a[1], cx) /\ IntTyped(a.a[2], cx)
                  /\ ~(a.a[1].k = "il" /\ a.a[2].k = "il")  \* constants are folded by
                                                          \* the translator, Python rules
Truth(v) == IF v # 0 THEN 1 ELSE 0

RECURSIVE AtomV(_, _)
AtomV(a, cx) ==
    CASE a.k = "c" -> a.i
      [] a.k = "il" -> a.i                             \* integer literal
      [] a.k = "dp" -> PAt(cx.A[cx.d], cx.st, a.n, cx.di, a.i)
      [] a.k = "sp" -> PAt(cx.A[cx.s], cx.st, a.n, cx.si, a.i)
      [] a.k = "dc" -> cx.A[cx.d].c[a.n][a.i + 1]
      [] a.k = "sc" -> cx.A[cx.s].c[a.n][a.i + 1]
      [] a.k = "sym" -> SymVal(a.n, a.i, PairOf(cx))
      [] a.k = "rsq" -> R2IJ(PairOf(cx))               \* floor(RIJ*RIJ + 0.5)
      [] a.k = "rij" -> ISqrt(R2IJ(PairOf(cx)))
      [] a.k = "at" -> cx.at[a.n]                      \* self.<n>
      [] a.k = "atv" -> cx.at[a.n][a.i + 1]            \* self.<n>[i]
      [] a.k = "t" -> cx.t
      [] a.k = "dt" -> cx.dt
      [] a.k = "mat" -> cx.mat[a.i + 1]                \* mt[i]
      [] a.k = "nn" -> Cardinality(cx.nb)              \* N_NBRS
      [] a.k = "nsum" ->                                \* sum of s_<n> over NBRS
            SumFn(cx.nb, [j \in cx.nb |-> PAt(cx.A[cx.s], cx.st, a.n, j, a.i)])
      [] a.k = "psum" ->    \* sum(dst.<n>) in a py hook: attribute access on a
                            \* ParticleArray yields the real particles only
            SumSeq(cx.A[cx.d].p[a.n], cx.A[cx.d].nreal * cx.st[a.n])
      [] a.k = "h2" ->                                  \* helper pk_h2(u, v)
            LET u == AtomV(a.a[1], cx)
                v == AtomV(a.a[2], cx)
            IN u * v + 2 * u - v
      [] a.k = "hv" ->                                  \* helper pk_hv(vec, 3)
            LET w == IF a.n = "mt" THEN cx.mat ELSE SymVec(a.n, PairOf(cx))
            IN w[1] + 2 * w[2] + 3 * w[3]
      [] a.k = "kw" ->                                  \* SPH_KERNEL.kernel(XIJ, RIJ, u)
            LET pc == PairOf(cx)
            IN Kern(cx.K, XIJ(pc), R2IJ(pc), AtomV(a.a[1], cx))
      \* operators; the operands a.a[..] are leaf atoms.  "floor" \in cx.cmode
      \* selects C's truncation where the generated code has it (only used to
      \* classify a disagreement, never as the expected value)
      [] a.k = "pow" -> IPow(AtomV(a.a[1], cx), AtomV(a.a[2], cx))   \* u ** v, v >= 0
      [] a.k = "mod" ->                                 \* u % v
            LET u == AtomV(a.a[1], cx)
                v == AtomV(a.a[2], cx)
            IN IF "floor" \in cx.cmode /\ ~(a.a[1].k = "il" /\ a.a[2].k = "il")
               THEN TMod(u, v)          \* C int % and fmod()
               ELSE FMod(u, v)
      [] a.k = "fdiv" ->                                \* u // v
            LET u == AtomV(a.a[1], cx)
                v == AtomV(a.a[2], cx)
            IN IF "floor" \in cx.cmode /\ BothInt(a, cx) THEN TDivG(u, v) ELSE FDiv(u, v)
      [] a.k = "abs" -> LET u == AtomV(a.a[1], cx) IN IF u < 0 THEN -u ELSE u
      [] a.k = "max" -> LET u == AtomV(a.a[1], cx)
                            v == AtomV(a.a[2], cx) IN IF u < v THEN v ELSE u
      [] a.k = "min" -> LET u == AtomV(a.a[1], cx)
                            v == AtomV(a.a[2], cx) IN IF v < u THEN v ELSE u
      [] a.k = "cmp" ->                                 \* (u < v) ... as a number
            LET u == AtomV(a.a[1], cx)
                v == AtomV(a.a[2], cx)
            IN IF (CASE a.n = "lt" -> u < v [] a.n = "le" -> u <= v [] a.n = "eq" -> u = v
                     [] a.n = "ne" -> u # v [] a.n = "gt" -> u > v [] a.n = "ge" -> u >= v)
               THEN 1 ELSE 0
      [] a.k = "and" -> LET u == AtomV(a.a[1], cx)      \* value semantics of and / or
                        IN IF u # 0 THEN AtomV(a.a[2], cx) ELSE u
      [] a.k = "or" -> LET u == AtomV(a.a[1], cx)
                       IN IF u # 0 THEN u ELSE AtomV(a.a[2], cx)
      [] a.k = "not" -> 1 - Truth(AtomV(a.a[1], cx))
      [] a.k = "uneg" ->        \* ((-u) % 1024), u an unsigned 32-bit property:
                                \* -u = 2^32 - u, and 1024 divides 2^32
            FMod(-AtomV(a.a[1], cx), 1024)
      [] a.k = "ovf" ->         \* ((self.bi*self.bi)/self.bi)/self.bi, bi = 2^be:
                                \* Python integers do not overflow; a C long does
            IF "ovf" \in cx.cmode /\ 2 * cx.at.be >= 64 THEN 0 ELSE 1
\* "idiv": num / den written between two integer-typed operands (integer
\* literal, integer-valued instance attribute, int-typed property).  What the
\* Python source says is the true quotient.  "div" \in cx.cmode selects the OTHER
\* semantics, C's truncating integer division, which is only used to classify
\* a disagreement (finding C02-cdivision-int), never as the expected value.
TDiv(n, d) == IF n >= 0 THEN n \div d ELSE -((-n) \div d)        \* d > 0
AtomQ(a, cx) == IF a.k = "sym" /\ a.n \in RatSyms THEN SymRat(a.n, PairOf(cx))
                ELSE IF a.k = "idiv"
                THEN (IF "div" \in cx.cmode
                      THEN RInt(TDiv(AtomV(a.a[1], cx), AtomV(a.a[2], cx)))
                      ELSE Rat(AtomV(a.a[1], cx), AtomV(a.a[2], cx)))
                ELSE IF a.k = "powq"        \* u ** v with v < 0: 1 / u^(-v)
                THEN Rat(1, IPow(AtomV(a.a[1], cx), -AtomV(a.a[2], cx)))
                ELSE RInt(AtomV(a, cx))

TermV(tm, cx) ==
    LET F[i \in 0..Len(tm.f)] == IF i = 0 THEN tm.c ELSE F[i - 1] * AtomV(tm.f[i], cx)
    IN F[Len(tm.f)]
ExprV(e, cx) ==
    LET F[i \in 0..Len(e)] == IF i = 0 THEN 0 ELSE F[i - 1] + TermV(e[i], cx)
    IN F[Len(e)]
TermQ(tm, cx) ==
    LET F[i \in 0..Len(tm.f)] == IF i = 0 THEN RInt(tm.c) ELSE RMul(F[i - 1], AtomQ(tm.f[i], cx))
    IN F[Len(tm.f)]
ExprQ(e, cx) ==
    LET F[i \in 0..Len(e)] == IF i = 0 THEN RInt(0) ELSE RAdd(F[i - 1], TermQ(e[i], cx))
    IN F[Len(e)]

\* the value range in which a typed slot holds an integer exactly
Pow24 == 16777216
InType(ty, v) == CASE ty = "uint" -> v >= 0
                   [] ty = "float" -> v >= -Pow24 /\ v <= Pow24
                   [] OTHER -> TRUE

\* one statement; W = [A, bad]: arrays and the "left the exact range" flag
ExecStmt(W, s, cx0, types) ==
    LET cx1 == [cx0 EXCEPT !.A = W.A]
        cx == [cx1 EXCEPT !.mat = [k \in DOMAIN s.lets |-> ExprV(s.lets[k], cx1)]]
        D == W.A[cx.d]
        pos == IF s.tk = "dp" THEN cx.di * cx.st[s.tn] + s.tc + 1 ELSE s.tc + 1
        old == IF s.tk = "dp" THEN D.p[s.tn][pos] ELSE D.c[s.tn][pos]
        new == CASE s.op = "set" -> ExprV(s.e, cx)
                 [] s.op = "add" -> old + ExprV(s.e, cx)
                 [] s.op = "nc" -> 2 * old + ExprV(s.e, cx)
                 [] s.op = "radd" -> RAdd(old, ExprQ(s.e, cx))
        ok == s.op = "radd" \/ InType(types[s.tn], new)
        D2 == IF s.tk = "dp" THEN [D EXCEPT !.p[s.tn][pos] = new]
              ELSE [D EXCEPT !.c[s.tn][pos] = new]
    IN [A |-> [W.A EXCEPT ![cx.d] = D2], bad |-> W.bad \/ ~ok]
ExecStmts(W, q, cx, types) ==
    LET F[i \in 0..Len(q)] == IF i = 0 THEN W ELSE ExecStmt(F[i - 1], q[i], cx, types)
    IN F[Len(q)]

(***************************************************************************)
(* Part 6: Eval.                                                           *)
(***************************************************************************)
SetOfSeq(q) == {q[i] : i \in DOMAIN q}
NEq(e) == [eid |-> e.eid, dest |-> e.dest, srcs |-> e.srcs, hooks |-> SetOfSeq(e.hooks)]
NGrp(g) == [gid |-> g.gid, real |-> g.real, start |-> g.start, stop |-> g.stop,
            sprop |-> g.sprop, pprop |-> g.pprop, iterate |-> g.iterate,
            minit |-> g.minit, maxit |-> g.maxit, hascond |-> g.hascond,
            haspre |-> g.haspre, haspost |-> g.haspost, upd |-> g.upd,
            sub |-> [k \in DOMAIN g.sub |->
                       [gid |-> g.sub[k].gid, real |-> g.sub[k].real,
                        start |-> g.sub[k].start, stop |-> g.sub[k].stop,
                        sprop |-> g.sub[k].sprop, pprop |-> g.sub[k].pprop,
                        iterate |-> FALSE, minit |-> 0, maxit |-> 1,
                        hascond |-> g.sub[k].hascond, haspre |-> g.sub[k].haspre,
                        haspost |-> g.sub[k].haspost, upd |-> g.sub[k].upd,
                        sub |-> <<>>,
                        eqs |-> [i \in DOMAIN g.sub[k].eqs |-> NEq(g.sub[k].eqs[i])]]],
            eqs |-> [i \in DOMAIN g.eqs |-> NEq(g.eqs[i])]]
NProg(p) == [k \in DOMAIN p |-> NGrp(p[k])]
Arr0(x) == [a \in 0..(Len(x.arr) - 1) |-> x.arr[a + 1]]
ProgEqs(p) == Flat([k \in DOMAIN p |-> AllEqs(p[k])])

\* neighbours: source particle j is a neighbour of destination particle i
\* when |x_i - x_j| < radius_scale * max(h_i, h_j), radius_scale = 5/4 (the
\* probe kernel's); with even h no lattice pair lies exactly on the cut-off
\* unless max(h) is a multiple of 4, which the data avoid (WellFormed)
Dist2(A, st, d, i, s, j) ==
    LET P == Vec3(A[d], st, i, "x", "y", "z")
        Q == Vec3(A[s], st, j, "x", "y", "z")
    IN (P[1] - Q[1]) * (P[1] - Q[1]) + (P[2] - Q[2]) * (P[2] - Q[2]) + (P[3] - Q[3]) * (P[3] - Q[3])
IsNbr(A, st, d, i, s, j) ==
    LET hm == Max2(PAt(A[d], st, "h", i, 0), PAt(A[s], st, "h", j, 0))
    IN 16 * Dist2(A, st, d, i, s, j) < 25 * hm * hm
NbrsOfData(A, st) ==
    [t \in UNION {{<<d, s, i>> : i \in 0..(A[d].nall - 1)} : d \in DOMAIN A, s \in DOMAIN A} |->
        {j \in 0..(A[t[2]].nall - 1) : IsNbr(A, st, t[1], t[3], t[2], j)}]

\* the effect of one event of the log on the data
StepData(W, e, x, eqOf, nbrs, cmode) ==
    IF e.k \notin Hooks THEN W
    ELSE LET q == eqOf[e.id]
             b == x.body[Key(e.id)]
             cx == [A |-> W.A, st |-> x.stride, d |-> q.dest, di |-> e.d, s |-> e.a,
                    si |-> e.s, at |-> b.attrs, t |-> x.t, dt |-> x.dt, K |-> x.kern,
                    nb |-> IF e.a >= 0 /\ e.d >= 0 THEN nbrs[<<q.dest, e.a, e.d>>] ELSE {},
                    mat |-> <<>>, cmode |-> cmode, ty |-> x.types]
         IN ExecStmts(W, b[e.k], cx, x.types)

\* cmode: the set of constructs evaluated with C semantics instead of
\* Python's: "div" (int / int truncates), "floor" (% and int // truncate),
\* "ovf" (products of C longs wrap).  {} is what the Python source says.
EvalLogM(x, log, nbrs, cmode) ==
    LET E == ProgEqs(NProg(x.prog))
        eqOf == [id \in {E[i].eid : i \in DOMAIN E} |->
                    E[CHOOSE i \in DOMAIN E : E[i].eid = id]]
        F[i \in 0..Len(log)] ==
            IF i = 0 THEN [A |-> Arr0(x), bad |-> FALSE]
            ELSE StepData(F[i - 1], log[i], x, eqOf, nbrs, cmode)
    IN F[Len(log)]
\* the documented (Python) semantics: `/` is true division
EvalLog(x, log, nbrs) == EvalLogM(x, log, nbrs, {})

SpecLog(x) == Run(NProg(x.prog), Arr0(x), NbrsOfData(Arr0(x), x.stride), x.env).log
\* the state after one compute(): the statements of every hook invocation of
\* the documented order, applied in that order
Eval(x) == EvalLog(x, SpecLog(x), NbrsOfData(Arr0(x), x.stride))

\* the same log with the neighbours of every destination particle visited in
\* the opposite order (L = events per neighbour = number of loop equations)
RevLoops(log) ==
    LET n == Len(log)
        first(i) == IsLoop(log[i]) /\ (i = 1 \/ ~SameRun(log[i - 1], log[i]))
        endOf[i \in 1..n] == IF i < n /\ SameRun(log[i], log[i + 1]) THEN endOf[i + 1] ELSE i
        startOf[i \in 1..n] == IF i > 1 /\ SameRun(log[i - 1], log[i]) THEN startOf[i - 1] ELSE i
        perNbr(i) ==    \* i = start of a run
            LET same == {k \in i..endOf[i] : \A m \in i..k : log[m].s = log[i].s}
            IN Cardinality(same)
        src(i) == IF ~IsLoop(log[i]) THEN i
                  ELSE LET a == startOf[i]
                           L == perNbr(a)
                           m == (endOf[i] - a + 1) \div L
                           p == i - a
                       IN a + (m - 1 - (p \div L)) * L + (p % L)
    IN [i \in 1..n |-> log[src(i)]]

\* Order comparison of two logs.  The order of the neighbours of one
\* destination particle is not promised; everything else is.  NormLog sorts
\* (stably) the loop events of every maximal run belonging to one
\* (destination array, destination particle, source array) by source index;
\* two logs describe the same documented behaviour iff their normal forms
\* are equal.  (AccelEval!Canon identifies a run by (d, a) only and merges
\* adjacent runs of two destination ARRAYS; dest = [eid |-> destination array]
\* keeps them apart.)
NormLog(log, dest) ==
    LET n == Len(log)
        same(i, j) == /\ IsLoop(log[i]) /\ IsLoop(log[j])
                      /\ log[i].d = log[j].d /\ log[i].a = log[j].a
                      /\ dest[log[i].id] = dest[log[j].id]
        endOf[i \in 1..n] == IF i < n /\ same(i, i + 1) THEN endOf[i + 1] ELSE i
        startOf[i \in 1..n] == IF i > 1 /\ same(i - 1, i) THEN startOf[i - 1] ELSE i
        lo == [i \in 1..n |-> startOf[i]]
        hi == [i \in 1..n |-> endOf[i]]
        rk == [i \in 1..n |->
                 IF ~IsLoop(log[i]) THEN 0
                 ELSE Cardinality({j \in lo[i]..hi[i] :
                        log[j].s < log[i].s \/ (log[j].s = log[i].s /\ j < i)})]
    IN [p \in 1..n |->
          IF ~IsLoop(log[p]) THEN log[p]
          ELSE log[CHOOSE i \in lo[p]..hi[p] : rk[i] = p - lo[p]]]
DestOf(prog) == LET E == ProgEqs(prog)
                IN [id \in {E[i].eid : i \in DOMAIN E} |->
                       E[CHOOSE i \in DOMAIN E : E[i].eid = id].dest]
\* first position where the normal forms differ (0: the logs agree)
OrderDiff(prog, log1, log2) ==
    FirstDiff(NormLog(log1, DestOf(prog)), NormLog(log2, DestOf(prog)))

\* well-formedness of a case: the data conventions the exactness argument
\* rests on, and read/write discipline that makes sums order independent
BaseProps == {"x", "y", "z", "h", "m", "rho", "u", "v", "w", "ik", "jk"}
WellFormed(x) ==
    /\ \A a \in DOMAIN x.arr :
        /\ \A i \in DOMAIN x.arr[a].p.h : x.arr[a].p.h[i] % 4 = 2
        /\ \A i \in DOMAIN x.arr[a].p.rho : x.arr[a].p.rho[i] % 2 = 0 /\ x.arr[a].p.rho[i] > 0
    /\ \A k \in DOMAIN x.body : \A h \in Hooks : \A i \in DOMAIN x.body[k][h] :
          x.body[k][h][i].tn \notin BaseProps

(***************************************************************************)
(* Part 7: property layer.                                                 *)
(* A recorded case carries impl / ref: the state left by the compiled      *)
(* code / by the reference executor, in the layout of arr (integers;       *)
(* rational properties as <<num, den>> of the closest small fraction with  *)
(* err[..] the distance to it in units of 1 ulp).                          *)
(***************************************************************************)
RatTol == 1024      \* ulps (2e-13 relative): sums of <= 300 rounded positive terms

Positions(S) ==     \* <<array, "p" | "c", name, index>> of every stored value
    UNION {UNION {{<<a, "p", n, i>> : i \in DOMAIN S[a].p[n]} : n \in DOMAIN S[a].p}
           \cup UNION {{<<a, "c", n, i>> : i \in DOMAIN S[a].c[n]} : n \in DOMAIN S[a].c}
           : a \in DOMAIN S}
Agrees(x, want, got, m) ==
    IF m[2] = "c" THEN got[m[1] + 1].c[m[3]][m[4]] = want[m[1]].c[m[3]][m[4]]
    ELSE IF m[3] \in SetOfSeq(x.rat)
         THEN /\ got[m[1] + 1].p[m[3]][m[4]] = want[m[1]].p[m[3]][m[4]]
              /\ got[m[1] + 1].err[m[3]][m[4]] <= RatTol
         ELSE got[m[1] + 1].p[m[3]][m[4]] = want[m[1]].p[m[3]][m[4]]
\* positions at which a recorded state differs from the expected one
Mismatch(x, want, got) == {m \in Positions(want) : ~Agrees(x, want, got, m)}

\* binding of the symbol table to precomputed_symbols(): x.symtab[n] =
\* [deps, arrs] as extracted from the code blocks of the real function
SymTabDiff(x) ==
    {n \in SymNames \cup DOMAIN x.symtab :
        \/ n \notin SymNames \/ n \notin DOMAIN x.symtab
        \/ SetOfSeq(x.symtab[n].deps) # Symbols[n].deps
        \/ SetOfSeq(x.symtab[n].arrs) # Symbols[n].arrs}
\* x.symorder = <<[req, order]>>: what the real Group computed for the
\* requested symbols of each pair block
SymOrderBad(x) == {i \in DOMAIN x.symorder :
                      ~GoodOrder(x.symorder[i].order, SetOfSeq(x.symorder[i].req))}
=============================================================================
