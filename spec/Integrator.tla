----------------------------- MODULE Integrator -----------------------------
(***************************************************************************)
(* The op-list machine of pysph's compiled integrator: what "executing     *)
(* one_timestep literally" means (mechanism layer M of C04).               *)
(*                                                                         *)
(* The case (IntegratorProps) fixes the program (op list of one_timestep), *)
(* the steppers per array, the step(t, dt) calls and the initial particle  *)
(* data.  The probe steppers / equations the harness generates compute, on *)
(* exact integer data:                                                     *)
(*   py_stageM(a)         (pop) add / retag / remove one particle;         *)
(*                        s[real] += 32;  (pyw) stepper.k += 1             *)
(*   stageM / initialize  s = 2 s + au + (M + 1) + 8 self.k;  v += 1;      *)
(*                        x += mv          on every real index             *)
(*   equation set i       au = 8 (i + 1) + number of neighbours (all       *)
(*                        particles of all arrays with |dx| <= 1)          *)
(*                        on every real particle of every array            *)
(* so that any repetition, omission, reordering, wrong index range, stale  *)
(* neighbour list or wrong equation set changes the data.                  *)
(*                                                                         *)
(* Neighbours: `fresh` says that the neighbour structure was refreshed     *)
(* after the last change of positions.  The statement does not say what an *)
(* evaluation with update_nnps=False sees after particles moved: such an   *)
(* evaluation taints au (ta), which taints s (ts) in later stages; tainted *)
(* values are not compared.                                                *)
(*                                                                         *)
(* df (defect switch, FALSE = the statement): with df the compiled stage   *)
(* methods read the stepper attribute as it was when the integrator was    *)
(* compiled (known finding C04-stepper-attr-snapshot).                     *)
(* Mut: model-level mutations used only to measure that the property       *)
(* layer is sensitive (IntegratorMC).                                      *)
(***************************************************************************)
EXTENDS IntegratorProps, TLC

CONSTANT Mut
VARIABLES case, df, sj, pc, t, log, parts, karr, fresh, nd, nadd

vars == <<case, df, sj, pc, t, log, parts, karr, fresh, nd, nadd>>

Ev(ev, a, m, i, tt, dt, n) ==
    [ev |-> ev, a |-> a, m |-> m, i |-> i, t |-> tt, dt |-> dt, n |-> n]

Dt   == case.steps[sj].dt
Orig == case.steps[sj].t
Op   == case.ops[pc]
NArr == Len(case.arrs)

\* all particles of all arrays (ghosts included), as <<array, index>>
Everyone(ps) == UNION {{<<a, p>> : p \in 1..Len(ps[a])} : a \in 1..Len(ps)}
NN(ps, x) == Cardinality({q \in Everyone(ps) : Abs(ps[q[1]][q[2]].x - x) <= 1})

\* real particles come first in every array; their number
NRof(ps) == Cardinality({p \in 1..Len(ps) : ~ ps[p].g})
NR(ai) == NRof(parts[ai])
Without(ps, k) == [q \in 1..(Len(ps) - 1) |-> IF q < k THEN ps[q] ELSE ps[q + 1]]

(***************************************************************************)
(* What a population-changing py hook does to its array (the harness's     *)
(* hooks do exactly this): "add" one real particle (uid 100, 101, ...),    *)
(* turn the real particle with the smallest uid into a "ghost" (tag +      *)
(* align_particles), "remove" the real particle with the largest uid.      *)
(* The order of the particles inside the real / ghost part of the array    *)
(* is not specified by pysph: data are compared by uid (TraceIntegrator).  *)
(***************************************************************************)
PopApply(ps, pop, ai) ==
    LET nr == NRof(ps)
        uids == {ps[p].uid : p \in 1..nr}
    IN CASE pop = "add" ->
              SubSeq(ps, 1, nr)
              \o << [x |-> 20 + 8 * ai + nadd[ai], s |-> 3, v |-> 0, au |-> 0,
                     g |-> FALSE, ts |-> FALSE, ta |-> FALSE,
                     uid |-> 100 + nadd[ai]] >>
              \o SubSeq(ps, nr + 1, Len(ps))
         [] pop = "ghost" /\ nr > 0 ->
              LET k == CHOOSE p \in 1..nr :
                           \A u \in uids : ps[p].uid <= u
              IN Without(ps, k) \o << [ps[k] EXCEPT !.g = TRUE] >>
         [] pop = "remove" /\ nr > 0 ->
              LET k == CHOOSE p \in 1..nr :
                           \A u \in uids : ps[p].uid >= u
              IN Without(ps, k)
         [] OTHER -> ps

(***************************************************************************)
(* self.initialize() / self.stageM(): for each array in sorted-name order, *)
(* the Python hook, then the compiled method on the real particles AS THEY *)
(* ARE AFTER THE HOOK (indices 0..nreal-1).                                *)
(***************************************************************************)
MethOf(ai) == case.arrs[ai].meth[Op.m + 1]
AfterHook(ai) ==
    IF MethOf(ai).py THEN PopApply(parts[ai], MethOf(ai).pop, ai)
    ELSE parts[ai]
NLoop(ai) == IF "ghosts" \in Mut THEN Len(AfterHook(ai))
             ELSE IF "countfirst" \in Mut THEN NR(ai)
             ELSE NRof(AfterHook(ai))
TSeen == IF "stale_t" \in Mut THEN Orig ELSE t

StageEvents(ai) ==
    LET d == MethOf(ai)
        nm == case.arrs[ai].name
    IN (IF d.py THEN <<Ev("py", nm, Op.m, 0, TSeen, Dt, 0)>> ELSE <<>>)
       \o (IF d.loop
           THEN [q \in 1..NLoop(ai) |-> Ev("visit", nm, Op.m, q - 1, TSeen,
                                           Dt, 0)]
           ELSE <<>>)

RECURSIVE Cat(_, _)
Cat(f, n) == IF n = 0 THEN <<>> ELSE Cat(f, n - 1) \o f[n]

KAfterPy(ai) ==
    LET d == MethOf(ai)
    IN IF d.py /\ d.pyw THEN karr[ai] + 1 ELSE karr[ai]

StageParticles(ai) ==
    LET d == MethOf(ai)
        ps == AfterHook(ai)
        nr == NRof(ps)
        kread == IF df THEN case.arrs[ai].k0 ELSE KAfterPy(ai)
        hook(r, p) == IF d.py /\ p <= nr THEN [r EXCEPT !.s = r.s + 32]
                      ELSE r
        body(r, p) == IF d.loop /\ p <= NLoop(ai) /\ p <= Len(ps)
                      THEN [r EXCEPT !.s = 2 * r.s + r.au + (Op.m + 1)
                                           + 8 * kread,
                                     !.v = r.v + 1,
                                     !.x = r.x + d.mv,
                                     !.ts = r.ts \/ r.ta]
                      ELSE r
    IN [p \in 1..Len(ps) |-> body(hook(ps[p], p), p)]

PopChanged(ai) == AfterHook(ai) # parts[ai]
Moved == \E ai \in 1..NArr :
            \/ MethOf(ai).loop /\ MethOf(ai).mv # 0 /\ NLoop(ai) > 0
            \/ PopChanged(ai)

Stage ==
    /\ Op.op = "stage"
    /\ log' = log \o Cat([ai \in 1..NArr |-> StageEvents(ai)], NArr)
    /\ parts' = [ai \in 1..NArr |-> StageParticles(ai)]
    /\ karr' = [ai \in 1..NArr |-> KAfterPy(ai)]
    /\ nadd' = [ai \in 1..NArr |->
                  IF MethOf(ai).py /\ MethOf(ai).pop = "add"
                  THEN nadd[ai] + 1 ELSE nadd[ai]]
    /\ fresh' = (fresh /\ ~ Moved)
    /\ UNCHANGED nd

(***************************************************************************)
(* self.compute_accelerations(i, update_nnps)                              *)
(***************************************************************************)
Accel ==
    /\ Op.op = "accel"
    /\ LET refresh == Op.nnps /\ "norefresh" \notin Mut
           fr == fresh \/ Op.nnps
       IN /\ log' = log
                    \o (IF refresh THEN <<Ev("nnps", "", 0, 0, 0, 0, 0)>>
                        ELSE <<>>)
                    \o <<Ev("accel", "", 0, Op.i, TSeen, Dt, 0)>>
          /\ fresh' = fr
          /\ parts' =
               [ai \in 1..NArr |->
                  [p \in 1..Len(parts[ai]) |->
                     IF p <= NR(ai)
                     THEN [parts[ai][p] EXCEPT
                             !.au = IF fr
                                    THEN 8 * (Op.i + 1)
                                         + NN(parts, parts[ai][p].x)
                                    ELSE 0,
                             !.ta = ~ fr]
                     ELSE parts[ai][p]]]
    /\ UNCHANGED <<karr, nd, nadd>>

(***************************************************************************)
(* self.update_domain(): ghosts are re-created.  Without a periodic domain *)
(* there is nothing to re-create.  With one, WHICH real particles get an   *)
(* image is the business of the domain manager (C07): the case lists, for  *)
(* every update_domain call, the images (source index, shift) per array,   *)
(* and the machine makes each ghost a fresh copy of its source.            *)
(***************************************************************************)
Ghosts(ai) ==
    LET g == IF nd + 1 <= Len(case.dom) THEN case.dom[nd + 1][ai] ELSE <<>>
        ok == {q \in 1..Len(g) : g[q].src >= 0
                                  /\ g[q].src < NR(ai)}
    IN [q \in 1..(IF ok = 1..Len(g) THEN Len(g) ELSE 0) |->
          [parts[ai][g[q].src + 1] EXCEPT !.x = @ + g[q].sh, !.g = TRUE]]

Domain ==
    /\ Op.op = "domain"
    /\ log' = Append(log, Ev("domain", "", 0, 0, 0, 0, 0))
    /\ nd' = nd + 1
    /\ IF case.periodic
       THEN /\ parts' = [ai \in 1..NArr |->
                           SubSeq(parts[ai], 1, NR(ai))
                           \o Ghosts(ai)]
            /\ fresh' = FALSE
       ELSE UNCHANGED <<parts, fresh>>
    /\ UNCHANGED <<karr, nadd>>

(***************************************************************************)
(* self.do_post_stage(stage_dt, n)                                         *)
(***************************************************************************)
Post ==
    /\ Op.op = "post"
    /\ log' = Append(log, Ev("post", "", 0, 0, Orig + SDt(Op, Dt), Dt, Op.n))
    /\ UNCHANGED <<parts, karr, fresh, nd, nadd>>

\* self.t after the op: do_post_stage sets it to orig_t + stage_dt
TAfter == IF Op.op = "post" THEN Orig + SDt(Op, Dt) ELSE t

Done == sj > NSteps(case)

\* the next op, or the next call step(t, dt), which starts with self.t = t
Next ==
    /\ ~ Done
    /\ Stage \/ Accel \/ Domain \/ Post
    /\ IF pc < NOps(case)
       THEN pc' = pc + 1 /\ sj' = sj /\ t' = TAfter
       ELSE /\ pc' = 1 /\ sj' = sj + 1
            /\ t' = IF sj < NSteps(case) THEN case.steps[sj + 1].t
                    ELSE TAfter
    /\ UNCHANGED <<case, df>>

Start(c, d) ==
    /\ case = c /\ df = d
    /\ sj = 1 /\ pc = 1
    /\ t = c.steps[1].t
    /\ log = <<>>
    /\ parts = [ai \in 1..Len(c.arrs) |->
                  [p \in 1..Len(c.init[ai]) |->
                     [x |-> c.init[ai][p].x, s |-> c.init[ai][p].s,
                      v |-> c.init[ai][p].v, au |-> c.init[ai][p].au,
                      g |-> c.init[ai][p].g, ts |-> FALSE, ta |-> FALSE,
                      uid |-> c.init[ai][p].uid]]]
    /\ nadd = [ai \in 1..Len(c.arrs) |-> 0]
    /\ karr = [ai \in 1..Len(c.arrs) |-> c.arrs[ai].k0]
    /\ fresh = TRUE
    /\ nd = 0
=============================================================================
